import numpy as np
import flowdyn.mesh as mesh, flowdyn.modelphy.convection as conv, flowdyn.modeldisc as modeldisc, flowdyn.field as field, flowdyn.xnum as xnum, flowdyn.integration as tnum
m = mesh.unimesh(ncell=30, length=1.)
mod = conv.model(1.)
bc = {'type': 'per'}
rhs = modeldisc.fvm(mod, m, xnum.extrapol1(), bcL=bc, bcR=bc)
f1 = rhs.fdata_fromprim([ (lambda x: 3. + np.sin(2*np.pi*x))(m.centers()) ])
f2 = rhs.fdata_fromprim([ (lambda x: 1e3*np.exp(-(x-.5)**2/.01))(m.centers()) ])
def run(solver, f): return solver.solve(f, 2., [0.1])[-1].data[0]
fresh = tnum.implicit(m, rhs); a = run(fresh, f2)
used = tnum.implicit(m, rhs); run(used, f1); b = run(used, f2)
print("max difference used vs fresh solver:", np.abs(a-b).max(), "relative", np.abs(a-b).max()/np.abs(a).max())
# restart equivalence
s1 = tnum.implicit(m, rhs); r = s1.solve(f2, 2., stop={'maxit': 5}); 
s2 = tnum.implicit(m, rhs); r2 = s2.restart(r[-1], 2., stop={'maxit': 3})
s3 = tnum.implicit(m, rhs); r3 = s3.solve(f2, 2., stop={'maxit': 8})
print("solve5+restart3 (fresh solver) vs solve8:", np.abs(r2[-1].data[0]-r3[-1].data[0]).max())
