#!/usr/bin/env python3
"""Regenerate /verif/MANIFEST.json from the claim table below (kept valid at all times)."""
import json
import os

HERE = os.path.dirname(os.path.dirname(os.path.abspath(__file__)))
ids = [json.loads(l)["id"] for l in open(os.path.join(HERE, "properties.jsonl"))]

TB = ("Trusted base: CPython ast parser; fdcheck engines (project model, abstract interpreter, GVN ring, "
      "AFF/EFF/STN analyses), self-tested on breaking and neutral source variants; the small specification "
      "tables named in DESIGN.md section 7 (physical fluxes, variable and boundary-condition definitions, nominal "
      "orders, published LSRK polynomials, unit declarations); numpy element-wise functions denote their "
      "real-valued meaning; admissible states (rho, p, h, g > 0, gamma > 1); measure-zero ties not decided.")

CLAIMS = {
    "C02": dict(
        text=("Whole statement up to measure-zero ties, for all states at once: every registered numerical-flux "
              "function is lowered from its AST to value numbers in a commutative ring and consistency F(W,W)=f(W), "
              "sibling agreement, mirror symmetry under x->-x and upwinding under supercritical regime assumptions "
              "are decided as ring identities; registry and dispatch argument order are checked structurally. "
              "A refutation carries an admissible witness state. This is the right level because the property is a "
              "statement about formulas, not about trajectories."),
        technique="custom AST lowering + algebraic global value numbering (ring identities, indicator atoms, hierarchical folding) + random-interpretation refutation; registry/dispatch AST query",
        ref="DESIGN.md section 4 C02, section 2.4"),
}

CLAIMS["C05"] = dict(
    text=("Whole statement, exactly, for every right-hand side: step() of each explicit integrator class is abstractly "
          "interpreted (affine domain over uninterpreted stage residuals, heap with aliasing and in-place operators) to "
          "its realised Butcher tableau; all rooted-tree order conditions up to the nominal order, weights, stage "
          "abscissae vs. the time presented to each stage, single net update, SSP (Kraaijevanger r=1) and the "
          "low-storage stability polynomials are checked in rational arithmetic. Right level: the property is an "
          "algebraic fact about coefficient tables and the loop that applies them."),
    technique="abstract interpretation of step() in an affine domain (AFF) + exact rational order/SSP/stability-polynomial conditions",
    ref="DESIGN.md section 4 C05, section 2.5")
CLAIMS["C06"] = dict(
    text=("Clause set decided for all fields, meshes and dt: AFF extracts from step/solve_implicit the linear system "
          "((1+xi)/dt I - theta J) x = R(Q) + xi*last, the applied update, time advance and stored history for "
          "implicit, backwardeuler, trapezoidal, cranknicolson and gear (both typestates) and compares them with the "
          "theta-scheme/BDF2 tables and the linear-multistep order condition; calc_jacobian is abstractly interpreted to "
          "its finite-difference column structure (fresh copy per column, matching eps, layout), the cache guard is a "
          "dominance query, the perturbation magnitude is constant-folded and bounded by the forward-difference error "
          "model. Not decided: accuracy of the Jacobian on a particular nonlinear state, conditioning."),
    technique="abstract interpretation (AFF) of step/solve_implicit/calc_jacobian + AST dominance query + constant folding",
    ref="DESIGN.md section 4 C06")

CLAIMS["C07"] = dict(
    text=("Clause set decided for all save-time lists, stop criteria and integrators: (1) AFF gives the exact time advance "
          "of one step for all 15 integrator classes and typestates; (2) timemodel._solve/solve/restart are abstractly "
          "interpreted path-sensitively over a polyhedral constraint store with heap typestate: the loop invariant "
          "tsave[isave] >= Qn.time is established by the prologue and re-established (strictly) by every path of a "
          "generic iteration, every snapshot side step has length in (0, min dt], starts from a fresh copy, is stamped "
          "tsave[isave] and it = itstart+nit, counters and stop test are ordered correctly, the caller's field is never "
          "written; (3) fdata copies are deep. Not decided: round-off of time sums; stop/save interplay inside one step."),
    technique="abstract interpretation: AFF (step time advance) + path-sensitive polyhedral/typestate analysis of the solve driver with an inductive loop invariant + AST structural checks",
    ref="DESIGN.md section 4 C07, section 2.7")
CLAIMS["C08"] = dict(
    text=("Clause set: attributes of the solver object that survive a step (abstract execution of consecutive steps, linear "
          "and nonlinear models; only the Jacobian cache on linear models is allowed), scratch discipline of self.residual, "
          "must-write analysis of the discretisation's rhs(), fresh-copy typestate of the main step and iteration stamps "
          "from the driver analysis, reset/itstart of solve and restart, purity and record format of monitors, "
          "non-deterministic sources, mutable defaults. gear's _lastresidual is reported as a known finding. "
          "Not decided: bit-level determinism of numpy."),
    technique="effect / def-use / typestate analyses on AST and abstract execution (AFF, driver interpreter)",
    ref="DESIGN.md section 4 C08")

CLAIMS["C11"] = dict(
    text=("Whole statement in exact arithmetic for the 1D schemes: the slice code of fvm1d, mesh1d and every 1D "
          "reconstruction class is decoded by an access-relation (stencil) engine into piecewise relations valid for all "
          "mesh sizes; extrapol1 = adjacent cells, constant exactness on every face range incl. the periodic seam, linear "
          "exactness on arbitrary face distributions (k-schemes with symbolic kappa, MUSCL through the limiter axioms "
          "proved under C12, limiter arguments = the two face gradients of the extrapolated cell in mirror-twin order), and "
          "the residual of linear convection on the uniform periodic mesh equals the circulant kappa stencil for the "
          "generic cell and each cell next to the seam, both convection signs, nominal kappa per class. Not decided: "
          "round-off; cells adjacent to non-periodic boundaries (excluded by the statement)."),
    technique="access-relation (stencil) analysis of numpy slice code + algebraic GVN on the decoded relations",
    ref="DESIGN.md section 4 C11, section 2.6")
CLAIMS["C17"] = dict(
    text=("Whole statement in real arithmetic: prim2cons/cons2prim round trips and every registered variable of every "
          "model (evaluated on q = prim2cons(W) with the code's own conversion) are decided equal to their definitions as "
          "ring identities with generalised exponents in Q(gamma); rank typing gives one value per cell for scalars in 1D "
          "and 2D; registry dispatch passes conservative data. The signed 1D mach is a known finding. Not decided: "
          "cancellation error over 12 decades."),
    technique="AST lowering + algebraic GVN (ring identities with symbolic exponents) + vector/scalar rank typing",
    ref="DESIGN.md section 4 C17")
CLAIMS["C18"] = dict(
    text=("Whole statement: each model's timestep() equals cfl*dx/spectral radius as a ring identity for all states "
          "(specification table |a|, |u|, |u|+sqrt(gh), |V|+sqrt(gamma p/rho)), agrees with the model's own asound and "
          "velocitymag variables, is element-wise (independent of other cells) and positive; the 2D cell size is "
          "dx*dy/(dx+dy); the driver recomputes it from the current state every iteration, takes the minimum over cells "
          "for the global step and passes the array iff the dtlocal directive is set (abstract interpretation of _solve)."),
    technique="algebraic GVN of timestep kernels + sign analysis + abstract interpretation of the driver",
    ref="DESIGN.md section 4 C18")

CLAIMS["C01"] = dict(
    text=("Clause set, exact arithmetic, all data: access-relation decoding shows res_i[c] = -(F_i[c+1]-F_i[c])/vol[c] with "
          "vol = widths of the FINAL face array of every mesh class (so the volume-weighted sum telescopes), the periodic "
          "closure feeds identical (L,R) pairs to both end faces, every flux kernel is element-wise and called once, mass / "
          "energy / depth fluxes through 'sym' walls vanish identically for every flux (GVN of bc_sym composed with the flux), "
          "every integrator updates all equations with one linear combination of residuals (AFF), implicit system form and "
          "Jacobian column/layout rules (incl. banded stores that drop periodic couplings). 2D telescoping when the 2D decoder "
          "is present. Not decided: size of round-off."),
    technique="access-relation (stencil) analysis + algebraic GVN + affine abstract interpretation of integrators + AST who-may-write queries",
    ref="DESIGN.md section 4 C01")
CLAIMS["C14"] = dict(
    text=("Clause set: for every 1D reconstruction class the decoded gradient, left and right state at each face next to the "
          "periodic seam (after calc_bc_grad / calc_bc) equal, as ring identities, the interior template with indices wrapped "
          "modulo n and the centre distance shifted by the domain length; the residual rule is a single relation for all "
          "cells; parametric in n. Together with POINTWISE (C01) this is translation invariance of the 1D operator. "
          "2D closures when the 2D decoder is present. Not decided: one round-off difference in the wrap distance."),
    technique="access-relation (stencil) analysis + algebraic GVN (seam relation == wrapped interior template)",
    ref="DESIGN.md section 4 C14")
CLAIMS["C20"] = dict(
    text=("Clause set: constructor chains of all 1D mesh classes abstractly interpreted with symbolic sizes (every store to xf "
          "a new version): ncell+1 faces, span [x0, x0+length] (image under the morphing), zones join, centres and widths "
          "w.r.t. the final face array (no stale cached geometry), positive spacing, refined ratio under the whole-cell "
          "hypothesis, rounding-safe int conversion, volume-weighted averages; 2D: nx*ny cells, face count, the four index "
          "tables equal the boundary face lines of the layout with correct sizes, orientation, outward unit normals, dx*dy "
          "volumes. Not decided: rounding inside linspace; monotonicity of a user morphing."),
    technique="abstract interpretation of mesh constructors (symbolic sizes, versioned face arrays) + algebraic GVN of index tables",
    ref="DESIGN.md section 4 C20")

CLAIMS["C19"] = dict(
    text=("Whole statement up to user callables: add_source (1D and 2D) abstractly interpreted with uninterpreted sources "
          "gives residual[i] += source_i(centres, q) exactly once per given entry, None skipped; rhs calls it once after the "
          "flux balance and is its only caller; model constructors store the list unmodified; the nozzle constructor is "
          "interpreted with Python closure semantics (late binding, default binding, self-recursion) and every composed "
          "callable equals user_i + builtin_i; built-in sources equal -(1/A dA/dx) times the mass / momentum-convective / "
          "enthalpy fluxes and the geometric factor decodes to (A(xf[c+1])-A(xf[c]))/((xf[c+1]-xf[c]) A(xc[c])) on any mesh."),
    technique="abstract interpretation with closure semantics + access-relation decoding + algebraic GVN + AST who-may-call query",
    ref="DESIGN.md section 4 C19")

CLAIMS["C16"] = dict(
    text=("Whole statement within the conditions' regimes, for all interior states and parameters at once: registry, "
          "signatures, dispatch and decoded call sites (left passes -1 and the interior R state, right +1 and the interior L "
          "state, result stored as the exterior state); every condition is equivariant under reflection (1D, dir a symbolic "
          "unit) and under the grid symmetries (2D, symbolic normal) as ring identities - the clause 'on either side / all "
          "four sides'; defining identities: imposed total pressure / temperature with exponents in Q(gamma) (regime ptot >= p "
          "parametrised, not sampled), interior pressure / imposed pressure, inflow sign, entropy and Riemann invariants "
          "(squared form, no root selection), Rankine-Hugoniot momentum and energy jump relations, copies, wall reversal for any "
          "unit normal, imposed-angle direction. Not decided: clamped regimes; the 2D call sites until the 2D decoder is present."),
    technique="algebraic GVN with symbolic unit direction / unit normal and exponents in Q(gamma) + access-relation decoding of call sites + registry AST query",
    ref="DESIGN.md section 4 C16")

CLAIMS["C13"] = dict(
    text=("Two code-shape clauses that are jointly equivalent to the statement in exact arithmetic. Units: a units-of-measure "
          "type system types every kernel on the solution path (all fluxes, boundary conditions, time steps, conversions, "
          "variables, sources; limiters with a rigid type variable) - homogeneous code commutes with any rescaling of the base "
          "units; the limiter regularisation constants are reported as known findings. Reflection: all 1D fluxes mirror-"
          "symmetric (GVN), all 1D boundary conditions equivariant with a symbolic unit direction (GVN), and the decoded "
          "relations of gradients, every reconstruction (right statement = mirror twin of the left one, limiter argument order "
          "included), flux balance, time-step argument and the two boundary call sites are closed under c -> n-1-c, L <-> R, "
          "odd quantities negated. Not decided: 'bit for bit for powers of two' (a property of values)."),
    technique="units-of-measure type inference + algebraic GVN (mirror identities) + access-relation twin analysis",
    ref="DESIGN.md section 4 C13")

CLAIMS["C12"] = dict(
    text=("Whole statement in real arithmetic plus must-overflow: the (a,b) plane is partitioned exhaustively into 21 "
          "sign/order regions parametrised by positive atoms (for the regularised limiters both regimes product above / "
          "below the threshold); in each region every min/max/where resolves and zero, common sign, |phi| <= 2 min and "
          "|phi| <= max are sign certificates, symmetry / oddness / homogeneity ring identities, consistency phi(a,a)=a exact "
          "or within the statement's 1e-20/a^2 (or below half an ulp), for minmod, vanalbada, vanleer, superbee; an interval "
          "analysis in log-magnitude over a box partition of [1e-150,1e150]^2 reports intermediates that must overflow. "
          "Not decided: rounding beyond first order, subnormals, may-overflow."),
    technique="exhaustive region enumeration by positive parametrisation + sign certificates over the GVN ring + interval analysis in log-magnitude",
    ref="DESIGN.md section 4 C12")

CLAIMS["C03"] = dict(
    text=("Clause chain, each link for all data/meshes: constant cell data give zero face gradients (periodic and one-sided "
          "closures), every 1D reconstruction then returns the cell value on every face range, every registered flux is "
          "consistent so all face fluxes are equal, equal fluxes give a zero residual on any mesh, the periodic closure feeds "
          "identical pairs; each Euler boundary condition (1D either side, 2D any unit normal, imposed angle) returns the "
          "interior state when its parameters are those of the state under the inflow/outflow regime (ring identities with "
          "exponents in Q(gamma)); dirichlet returns its state; nozzle sources vanish at rest; every integrator maps a zero "
          "residual to the identity with or without local time steps (AFF). The vanishing finite-difference step at rest is a "
          "known finding. Not decided: 'to round-off'; insub_cbc root selection."),
    technique="access-relation decoding + algebraic GVN (fixed-point identities) + affine abstract interpretation of integrators",
    ref="DESIGN.md section 4 C03")

CLAIMS["C04"] = dict(
    text=("PREMISE-LEVEL claim: the check decides a necessary condition named here and not the behaviour. Decided: ORDER-POLY - "
          "the operator of linear convection decoded from the code for the generic cell (both convection signs) is exact on "
          "cell averages of x^m for all m up to the design order of each unlimited scheme (1, 2, 3 for extrapol1, the "
          "kappa-schemes, extrapol3) and fails at order+1; ORDER-CIRCULANT - the cells next to the periodic seam carry the same "
          "stencil; REF-WIRING - the packaged Riemann reference hands each side's own (rho,u,p) to the external exact solver. "
          "This is what the statement's example defect (a coefficient change lowering extrapol3 to order 2) breaks. NOT "
          "decided: convergence of actual solves, limited MUSCL, Riemann problems, monotone L1 decrease, agreement of the "
          "aerokit-based solutions (runtime values)."),
    technique="access-relation decoding + exact rational moment conditions on the extracted stencil; abstract interpretation of the reference-solution wrapper",
    ref="DESIGN.md section 4 C04, section 5")
CLAIMS["C10"] = dict(
    text=("PREMISE-LEVEL claim: the check decides necessary conditions visible in the code shape and not the positivity of any "
          "trajectory. Decided: WAVE-ENCLOSE - in lattice normal form the left (right) wave speed of hlle, hllc (1D, 2D) and "
          "shallow-water hll is a minimum (maximum) over a set containing the one-sided speed un-c (un+c), rusanov's "
          "dissipation speed a maximum containing |uL|+cL and |uR|+cR - exactly the bounds Einfeldt's positivity condition "
          "needs; a missing member is refuted by a witness state; DISSIP-SIGN - the mass/depth flux for a jump at rest runs "
          "from the heavy to the light side; CFL-SPEED - the time step uses |u|+c; RK-SSP - explicit, rk2_heun, rk3ssp are "
          "convex combinations of forward-Euler steps."),
    technique="lattice normal form of min/max over GVN value numbers + sign analysis + AFF/SSP analysis",
    ref="DESIGN.md section 4 C10, section 5")

CLAIMS["C15"] = dict(
    text=("Clause set: the 2D slice code (fvm2dcart gradients, closures, calc_bc, calc_res, extrapol2d1/2dk, calc_flux) is "
          "decoded by polynomial identities in (j, nx, ny) against the layout of the arrays it touches (writer's and reader's "
          "tables must agree: LAYOUT-AGREE); the decoded relation sets are closed under the transposition "
          "(i,j,nx,ny,dx,dy,i-face) <-> (j,i,ny,nx,dy,dx,j-face) for scalar and vector components, periodic and open "
          "boundaries; the flux balance is the 2D telescoping form with /dx and /dy; normals (1,0) on exactly the i-faces and "
          "(0,1) on the j-faces; each boundary tag passes its outward unit normal and the interior side and stores the "
          "exterior side; x-direction relations equal the 1D ones on a uniform mesh; 2D fluxes with a grid-aligned normal "
          "and no transverse velocity equal the 1D fluxes and carry no transverse momentum (GVN); every Euler-2D kernel is "
          "built from covariant vector operations (rank typing). Not decided: agreement to round-off."),
    technique="2D access-relation decoding (polynomial identities) + relation-set closure under transposition + algebraic GVN + vector rank typing",
    ref="DESIGN.md section 4 C15")

# rules added after the second round of seeded changes (DESIGN.md section 2.6 and end of section 4)
EXTRA = {
    "C01": ("STATE-MEMO, SRC-OWN, stale right-hand-side arrays, FD-COLUMN on linear and nonlinear first calls", "persistent-state (memo) and alias / in-place effect analyses"),
    "C02": ("STATE-MEMO on the flux dispatchers and helpers, DTYPE-FOLLOW", "persistent-state (memo) analysis, dtype-following buffers"),
    "C03": ("STATE-MEMO, the insub_cbc fixed point is decided (declared perfect-square root)", "persistent-state (memo) analysis"),
    "C04": ("INTEG-ORDER (nominal order of the explicit integrators) and WAVE-ENCLOSE (Einfeldt enclosure) as further premises, STATE-MEMO", "exact Runge-Kutta order conditions, lattice normal form of wave speeds, persistent-state (memo) analysis"),
    "C05": ("stage slopes kept by reference across right-hand-side evaluations (provider-owned arrays), STATE-MEMO", "heap ownership in the affine domain"),
    "C06": ("FD-STEP-ABS, column copies under index conditions, JAC-GUARD on model and reconstruction linearity, JAC-LINEAR", "generic-iteration path exploration in AFF, access-relation linearity of reconstructions"),
    "C07": ("DRV-CALLER-PURE on the input dictionaries, STATE-MEMO on the driver", "persistent-state (memo) analysis"),
    "C08": ("EFF-RUN-COUNTER, DRV-CALLER-PURE, STATE-MEMO", "persistent-state (memo) analysis"),
    "C10": ("FAN-UPWIND (supersonic limit of hlle / hllc / hll) and CFL-CELLSIZE as further premises, STATE-MEMO", "algebraic GVN upwind identities"),
    "C11": ("GRAD-2D, stage plan of rhs() per reconstruction class, STATE-MEMO", "constructor-summary evaluation of stage conditions, persistent-state (memo) analysis"),
    "C12": ("np.all / np.any as reductions over an array context (every outcome path), KERNEL-POINTWISE", "path enumeration over reduction outcomes, point-wise kernel scan"),
    "C13": ("mirror twin of the periodic gradient closure, STATE-MEMO", "absolute-index reflection of decoded relations"),
    "C14": ("stage plan of rhs() per reconstruction class, STATE-MEMO", "persistent-state (memo) analysis"),
    "C15": ("BC-ALIAS (views changed in place by boundary functions, overwritten argument lists), STATE-MEMO, dtype of normals where inherited", "alias / in-place effect analysis"),
    "C16": ("BC-ALIAS, STATE-MEMO, outgoing invariant of outsub_nrcbc with the definition used for insub_cbc", "alias / in-place effect analysis"),
    "C17": ("VAR-PURE, KERNEL-POINTWISE (reductions, extent-dependent branches), STATE-MEMO", "alias / in-place effect analysis, point-wise kernel scan"),
    "C18": ("1D DT-CELLSIZE decoded on the abstract discretisation, DT-LOCAL, KERNEL-POINTWISE, STATE-MEMO", "access-relation decoding of the cell-size argument, point-wise kernel scan"),
    "C19": ("role of the data handed to source callables, STATE-MEMO", "persistent-state (memo) analysis"),
    "C20": ("semantic MESH-AVG by symbolic sums, MESH-FROZEN, STATE-MEMO", "symbolic summation over the cell index, alias / in-place effect analysis"),
}
# third round (DESIGN.md, "Rules added after the third round")
EXTRA3 = {
    "C01": "WALL-SITE (decoded wall call sites), SRC-DECLARED", "C02": "CTOR-PARAM", "C03": "mixed periodicity, BC-COMBO, BC-1D-AGREE inputs, opaque conditions on every path",
    "C04": "REF-STATE of the nozzle reference, order condition of the implicit names, CTOR-PARAM", "C05": "exact decimal rounding of tableau-derived constants",
    "C06": "system compared up to a row scaling by diag(dt); column scaling, tiled dt, variable-major column index reported", "C07": "-", "C08": "MON-RESET, class-level history containers",
    "C10": "cell size with the mesh size as ring atom, CTOR-PARAM", "C11": "KAPPA-PARAM (truthiness of constructor parameters), SEAM-2D presence under mixed periodicity, opaque conditions on every path",
    "C12": "LIM-ROUND (first-order forward rounding-error domain), LIM-DEFINED, np.isclose tolerances", "C13": "CTOR-PARAM (1D classes), opaque conditions on every path",
    "C14": "seam closure for every variable of a system, implicit layout, mixed periodicity", "C15": "BC-1D-AGREE incl. clamped regimes, cross-configuration transposition, KAPPA-PARAM",
    "C16": "CTOR-PARAM", "C17": "NOZ-XC, constructor-frame bindings of derived attributes, CTOR-PARAM", "C18": "DT-LOCAL for the implicit family (tiled / column-scaled dt), CTOR-PARAM",
    "C19": "caller's source list untouched, CTOR-PARAM(source)", "C20": "every class of the mesh families through its own constructor, MESH-MONO with rounded zone sizes",
}
for _pid, _t in EXTRA3.items():
    if _pid in CLAIMS and _t != "-":
        EXTRA[_pid] = (EXTRA[_pid][0] + "; third round: " + _t, EXTRA[_pid][1])
EXTRA4 = {
    "C01": "GLOBAL-DT (both public drivers hand a scalar step unless dtlocal), VEC-LAYOUT, BC-SITE-DICT",
    "C02": "VEC-LAYOUT (mask / reshape of vector fields), fluxes the statement does not name get the generic clauses",
    "C03": "REST-DEFINED (time step of a state at rest), dirichlet per model registry, VEC-LAYOUT, STEP-ONE-FORMULA",
    "C04": "LIM-CONSIST / LIM-ZERO / LIM-ODD of the provided limiters, DRV-SNAPSHOT / TS-FRESH-MAIN as premises, STEP-ONE-FORMULA, LAYOUT-INTERLEAVE",
    "C05": "STEP-ONE-FORMULA (data-dependent conditions explored both ways), FIELD-DEEPCOPY (constructor keeps time and tag), classes the statement does not name: consistency and reported order",
    "C06": "STEP-ONE-FORMULA, LAYOUT-INTERLEAVE, absolute perturbations, whole-array stores; JAC-GUARD over a boolean abstraction of the guard",
    "C07": "DRV-STOP over the ordering abstraction of the stop test, FIELD-DEEPCOPY of the constructor arguments",
    "C08": "EFF-JAC-CACHE (known finding F19), JAC-GUARD / JAC-LINEAR, MON-DISPATCH, residual recomputed on every recording path, MON-PURE from effect summaries, DRV-DT-MIN of solve_legacy",
    "C10": "DRV-DT-MIN of both public drivers, wave-speed estimates found without their local names",
    "C11": "LIM-CONSIST / LIM-ZERO / LIM-ODD of the provided limiters, block-slice (vectorised row loop) decoding",
    "C12": "LIM-FRESH (result is not shared storage), scalar / array tests explored both ways",
    "C13": "implicit-system layout clauses (tiled / column-scaled / variable-major), NOZ-COMPOSE, VEC-LAYOUT, BC-SITE-DICT, STR-IDENTITY",
    "C14": "POINTWISE of the flux kernels (break in element loops), GRAD-2D, STR-IDENTITY",
    "C15": "CTOR-PARAM, LAYOUT-AGREE refutes loop-free slices with grid-dependent offsets (and proves the block form), VEC-LAYOUT",
    "C16": "BC-SITE-DICT (call site reads only 'type' from the user's dictionary), dirichlet per model registry, VEC-LAYOUT",
    "C17": "variables the statement does not name get the generic clauses (point-wise, covariant, homogeneous)",
    "C18": "DRV-DT-MIN of solve_legacy (scalar minimum of the current state's time step)",
    "C19": "-",
    "C20": "float-step np.arange (count decided by rounding), tolerance comparisons in the averages explored both ways, generator objects kept as state",
}
for _pid, _t in EXTRA4.items():
    if _pid in CLAIMS and _t != "-":
        EXTRA[_pid] = (EXTRA[_pid][0] + "; fourth round: " + _t, EXTRA[_pid][1])
EXTRA5 = {
    "C01": "DRV-FORWARD (caller dictionaries reach their documented use; nothing of a call is merged into the solver), BC-DICT-PURE, ABS-ROUND, DTYPE-NARROW",
    "C02": "FLUX-PURE (a flux neither changes its states nor returns stored arrays), class-level state incl. descriptors and keyword updates",
    "C03": "class-level state shared through subclasses, NOZ-GEOM clause G (the geometric factor divides only by the centre section and the cell width), LIM-ZERO / LIM-DEFINED of the limiters, BC-DICT-PURE",
    "C04": "DRV-RESET (run starts at the time of the field it is given), DRV-FORWARD, DRV-CALLER-PURE, FIELD-DEEPCOPY, ABS-ROUND as premises of 'the error of solve(...)[-1] at time T'",
    "C05": "MEMO validity flags (a flag-guarded early return that keeps a value computed from an argument)",
    "C06": "MEMO: class-level history updated in place, decorator caches (lru_cache / cached_property) reading mutable attributes",
    "C07": "DRV-FORWARD (no criterion the caller did not ask for; dictionaries not exchanged), DRV-RESET time clause",
    "C08": "MON-STORE (every record handed to a monitor is kept on every path), DRV-FORWARD, DRV-DT-MIN with unresolved operands of min/max",
    "C10": "DRV-FORWARD (sticky dtlocal), MEMO stores through own-method calls (RHS re-used by time stamp), BC-DICT-PURE",
    "C11": "DTYPE-FOLLOW of the face buffers, the discretisation's own interp_face stage, LIM-PURE / LIM-WRAP",
    "C12": "LIM-PURE, LIM-WRAP, absolute rounding inside a limiter",
    "C13": "ABS-ROUND in geometry / field / step functions",
    "C14": "DTYPE-NARROW for 8-/16-bit integer conversions of index data, packing of every term of the implicit system",
    "C15": "BC-PARAM-PURE, constructor-derived tables interpreted with the user dictionary in a non-mesh order",
    "C16": "BC-PARAM-PURE, BC-DICT-PURE, spare keys of the user dictionary",
    "C17": "VAR-ROUND (first-order rounding bound of each Euler variable against its definition's own conditioning, 12 decades), VAR-PURE returns-stored",
    "C18": "FIELD-DEEPCOPY, DRV-FORWARD",
    "C19": "SRC-ONCE along the body of a probing try statement, in-place state conversions (VAR-PURE)",
    "C20": "np.full / zero-array averages, earlier versions of re-assigned face arrays",
}
for _pid, _t in EXTRA5.items():
    if _pid in CLAIMS and _t != "-":
        EXTRA[_pid] = (EXTRA[_pid][0] + "; fifth round: " + _t, EXTRA[_pid][1])
EXTRA6 = {
    "C01": "POINTWISE-SCATTER (np.place), column scaling by a broadcast weight array, LOCAL-ALIAS, SLICE-TRUNC / NEG-ZERO-SLICE, MESH2D-CENTRE",
    "C02": "POINTWISE-REDUCE (float-truth reductions, global extrema), POINTWISE-SCATTER, LOCAL-ALIAS, REG-COPY, flux dispatcher decided on its abstract execution",
    "C03": "ROUNDTRIP and MESH-COUNT as premises, np.resize of vector fields, witness points on both sides of max/min literals",
    "C04": "JAC-GUARD / JAC-LINEAR, floating-point redundant guards of the side step",
    "C05": "scalar-or-array and all-equal tests on the step argument (STEP-ONE-FORMULA with the form of the step)",
    "C06": "DTYPE-INT-RECIPROCAL, scalar history of a previous step, list multiplication shares objects",
    "C07": "loop targets are effects, enumerate loops, tuple targets, default stop time must not override the caller's, copy-on-write dictionaries, fp-redundant guards",
    "C08": "DRV-SNAPSHOT of the returned field, shallow field copies (copy.copy), MON-STORE",
    "C10": "LOCAL-ALIAS, positional axis of np.min / np.max over a tuple",
    "C11": "RECON-EACH-VAR, np.roll / whole-array arithmetic / Ellipsis on the 2D layout arrays, one-index subscripts of vector arrays",
    "C12": "np.clip by numpy's definition, LIM-SCALAR (bitwise not of a Python bool)",
    "C13": "np.isclose by its definition (hidden atol), np.roll on 1-D arrays, several cell-size relations",
    "C14": "DT-REST, np.roll along the component axis, column tables outside the row",
    "C15": "MESH2D-CENTRE, SLICE-TRUNC, witness points on both sides of max/min literals",
    "C16": "np.put on vector arrays, narrow integers in the mesh tables, falsy-zero components",
    "C17": "REG-COPY, kept split axis (VAR-RANK), every named variable registered (VAR-REG)",
    "C18": "DT-REST (allocation value of cells the formula is not stored in, where= of ufuncs)",
    "C19": "filtered comprehensions / any-all truthiness / five source patterns in SRC-ONCE, reductions over the nozzle term explored both ways",
    "C20": "NEG-ZERO-SLICE, SLICE-TRUNC, MESH2D-CENTRE",
}
for _pid, _t in EXTRA6.items():
    if _pid in CLAIMS and _t != "-":
        EXTRA[_pid] = (EXTRA[_pid][0] + "; sixth round: " + _t, EXTRA[_pid][1])
EXTRA7 = {
    "C07": "AFF-TIME-ALL decided on each path of a step() that branches on its arguments",
    "C08": "DRV-STOP, the solver's own monitors merged with the caller's (DRV-FORWARD)",
    "C11": "out= into a slice stores through the view, where= masks from element-wise comparisons",
    "C15": "non-periodic closure of the 2D face differences == the 1D closure (ROW-1D-AGREE), interior rows of the layout",
    "C03": "GRAD-CONST by induction over the stores of the difference arrays",
}
for _pid in CLAIMS:
    _t = EXTRA7.get(_pid)
    EXTRA[_pid] = (EXTRA[_pid][0] + "; seventh round: " + ((_t + ", ") if _t else "") + "LATE-BINDING (objects kept from a loop that read the loop variable when called)", EXTRA[_pid][1])
EXTRA["C17"] = (EXTRA["C17"][0], EXTRA["C17"][1] + ", forward rounding-error abstract domain")
EXTRA["C12"] = (EXTRA["C12"][0], EXTRA["C12"][1] + ", forward rounding-error abstract domain")
for _pid in ("C07", "C06", "C08"):
    EXTRA[_pid] = (EXTRA[_pid][0], EXTRA[_pid][1] + ", evaluation of control code over finite (ordering / boolean) abstractions")
for _pid, (_t, _tech) in EXTRA.items():
    if _pid in CLAIMS:
        CLAIMS[_pid]["text"] = CLAIMS[_pid]["text"] + " Also decided (added after the second round of seeded changes): " + _t + "."
        CLAIMS[_pid]["technique"] = CLAIMS[_pid]["technique"] + " + " + _tech
CLAIMS["C03"]["text"] = CLAIMS["C03"]["text"].replace("Not decided: 'to round-off'; insub_cbc root selection.", "Not decided: 'to round-off'.")

NA_REASONS = {
    "C09": ("runtime invariant of trajectories (range and total variation after every step for all data); its "
            "code-shape premises are owned and decided by C02, C05, C11, C12, C18; the remaining step (flux "
            "monotonicity, Harten's theorem) is about values, not code shape"),
}


def main():
    checks = []
    for pid in ids:
        if pid not in CLAIMS:
            continue
        c = CLAIMS[pid]
        checks.append({
            "property_id": pid,
            "quick_cmd": "/venv/bin/python -m fdcheck %s --tier quick" % pid,
            "thorough_cmd": "/venv/bin/python -m fdcheck %s --tier thorough" % pid,
            "evidence_file": "/verif/evidence/%s.json" % pid,
            "replay_cmd_template": "/venv/bin/python -m fdcheck %s --tier quick" % pid,
            "engine": "fdcheck",
            "level_claimed": {"category": "other", "text": c["text"], "design_ref": c["ref"]},
            "level_note": c.get("note", TB),
            "technique": c["technique"],
        })
    na = []
    for pid in ids:
        if pid in CLAIMS:
            continue
        na.append({"property_id": pid, "reason": NA_REASONS.get(pid, "check not built yet (build in progress, see DESIGN.md section 8)")})
    m = {
        "version": 1,
        "setup_cmd": "/venv/bin/python -m fdcheck --selfcheck",
        "hooks": {
            "guard": "FLOWDYN_VERIF",
            "enable": "n/a: checks parse /repo/flowdyn from disk, no instrumentation is compiled in (guard name reserved, unused)",
            "baseline_off_cmd": "cd /repo && /venv/bin/python -m pytest -ra -q -p no:cacheprovider --timeout=900 --continue-on-collection-errors",
            "source_commits": [],
            "add_only": True,
        },
        "engines": [{
            "name": "fdcheck",
            "path": "/verif/fdcheck",
            "serves_properties": sorted(CLAIMS),
            "kind_free_text": "repository-specific static analyser (stdlib ast): resolved project model, domain-parametric abstract interpreter of numeric kernels, algebraic GVN, affine abstract interpretation of integrators, effect/typestate analysis of the driver, stencil (access-relation) analysis of slice code",
        }],
        "checks": checks,
        "not_applicable": na,
        "notes": "static analysis only: no check imports or runs flowdyn; see DESIGN.md. Known findings: /verif/known_findings.json.",
    }
    with open(os.path.join(HERE, "MANIFEST.json"), "w") as fh:
        json.dump(m, fh, indent=1)
    print("MANIFEST.json: %d checks, %d not_applicable" % (len(checks), len(na)))


if __name__ == "__main__":
    main()
