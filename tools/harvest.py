#!/usr/bin/env python3
"""Independently confirm sub-agent seeded changes and keep the confirmed ones under
/verif/seeded/<id>/ (patch.diff, demo.py, notes.md, meta.json).

For each /tmp/wt/<PID>/_seed/<k>: in a fresh scratch worktree of /repo HEAD
  1. demo on the unchanged tree must exit 0
  2. patch must apply; demo must exit non-zero with it
  3. the unedited test suite must still pass (105 passed) with it
The worktree is removed afterwards.  Usage: harvest.py [PID ...]"""
import glob
import json
import os
import re
import shutil
import subprocess
import sys
import time
from concurrent.futures import ThreadPoolExecutor

VERIF = os.path.dirname(os.path.dirname(os.path.abspath(__file__)))
PY = "/venv/bin/python"


def sh(cmd, cwd=None, env=None, timeout=1800):
    e = dict(os.environ)
    if env:
        e.update(env)
    r = subprocess.run(cmd, shell=True, cwd=cwd, env=e, capture_output=True, text=True, timeout=timeout)
    return r.returncode, (r.stdout + r.stderr)


def one(pid, k, src):
    sid = "%s-%s" % (pid, k)
    dst = os.path.join(VERIF, "seeded", sid)
    if os.path.exists(os.path.join(dst, "meta.json")):
        return sid, "already kept"
    patch = os.path.join(src, "patch.diff")
    demo = os.path.join(src, "demo.py")
    if not (os.path.exists(patch) and os.path.exists(demo)):
        return sid, "incomplete (no patch/demo)"
    wt = "/tmp/hv/%s" % sid
    sh("git -C /repo worktree remove --force %s" % wt)
    shutil.rmtree(wt, ignore_errors=True)
    os.makedirs("/tmp/hv", exist_ok=True)
    rc, out = sh("git -C /repo worktree add -q --detach %s HEAD" % wt)
    if rc:
        return sid, "worktree failed: " + out[-200:]
    log = {}
    try:
        os.makedirs(os.path.join(wt, "_seed", str(k)), exist_ok=True)
        shutil.copy(demo, os.path.join(wt, "_seed", str(k), "demo.py"))
        # demos may refer to their own directory name (_seed2/<j>): provide it too
        rel = os.path.relpath(os.path.dirname(demo), "/tmp/wt/%s" % pid)
        if rel != os.path.join("_seed", str(k)):
            os.makedirs(os.path.join(wt, rel), exist_ok=True)
            shutil.copy(demo, os.path.join(wt, rel, "demo.py"))
        # helper modules the demos of one round share (e.g. _seed6/common.py): next to the round directories, and kept with the seed
        helpers = [h for h in glob.glob(os.path.join(os.path.dirname(os.path.dirname(demo)), "*.py"))]
        for h in helpers:
            for d_ in {os.path.join(wt, "_seed"), os.path.join(wt, os.path.dirname(rel))}:
                os.makedirs(d_, exist_ok=True)
                shutil.copy(h, os.path.join(d_, os.path.basename(h)))
        env = {"PYTHONPATH": wt, "MPLBACKEND": "Agg"}
        democmd = "%s _seed/%s/demo.py" % (PY, k)
        rc0, o0 = sh(democmd, cwd=wt, env=env, timeout=900)
        log["demo_clean"] = {"rc": rc0, "tail": o0[-300:]}
        if rc0 != 0:
            return sid, "REJECT demo fails on the unchanged tree (rc=%d)" % rc0
        rc, o = sh("git apply %s" % patch, cwd=wt)
        if rc:
            return sid, "REJECT patch does not apply: " + o[-200:]
        rc1, o1 = sh(democmd, cwd=wt, env=env, timeout=900)
        log["demo_patched"] = {"rc": rc1, "tail": o1[-400:]}
        if rc1 == 0:
            return sid, "REJECT demo passes with the change"
        rct, ot = sh("%s -m pytest -q -p no:cacheprovider --timeout=900 -n 5" % PY, cwd=wt, env=env, timeout=3000)
        m = re.search(r"(\d+) passed", ot)
        npass = int(m.group(1)) if m else 0
        failed = re.search(r"(\d+) (failed|error)", ot)
        log["tests_patched"] = {"rc": rct, "summary": ot.strip().splitlines()[-1] if ot.strip() else ""}
        if rct != 0 or npass != 105 or failed:
            return sid, "REJECT test suite does not pass with the change: %s" % log["tests_patched"]["summary"]
        os.makedirs(dst, exist_ok=True)
        shutil.copy(patch, os.path.join(dst, "patch.diff"))
        shutil.copy(demo, os.path.join(dst, "demo.py"))
        for h in helpers:
            shutil.copy(h, os.path.join(dst, "helper_" + os.path.basename(h)))       # (the demo imports it from its parent directory)
        notes = ""
        if os.path.exists(os.path.join(src, "notes.md")):
            shutil.copy(os.path.join(src, "notes.md"), os.path.join(dst, "notes.md"))
            notes = open(os.path.join(src, "notes.md")).read()
        files = sorted(set(re.findall(r"^\+\+\+ b/(\S+)", open(patch).read(), re.M)))
        meta = {
            "id": sid,
            "property": pid,
            "files_touched": files,
            "needs_to_manifest": notes[:1500],
            "source": "independent sub-agent given only the property text and a scratch worktree",
            "confirmed": {
                "base_commit": sh("git -C /repo rev-parse --short HEAD")[1].strip(),
                "commands": ["PYTHONPATH=<wt> %s" % democmd + "  (unchanged tree)", "git apply patch.diff", "PYTHONPATH=<wt> %s" % democmd + "  (with change)", "PYTHONPATH=<wt> %s -m pytest -q -p no:cacheprovider --timeout=900 -n 5" % PY],
                "demo_unchanged_rc": rc0,
                "demo_with_change_rc": rc1,
                "demo_with_change_tail": o1[-400:],
                "tests_with_change": log["tests_patched"]["summary"],
                "at": time.strftime("%Y-%m-%dT%H:%M:%SZ", time.gmtime()),
            },
        }
        json.dump(meta, open(os.path.join(dst, "meta.json"), "w"), indent=1)
        return sid, "KEPT"
    finally:
        sh("git -C /repo worktree remove --force %s" % wt)
        shutil.rmtree(wt, ignore_errors=True)


def main():
    pids = sys.argv[1:] or sorted(os.path.basename(p) for p in glob.glob("/tmp/wt/C*"))
    jobs = []
    for pid in pids:
        for rnd, off in (("_seed", 0), ("_seed2", 3), ("_seed3", 6), ("_seed4", 9), ("_seed5", 12), ("_seed6", 15), ("_seed7", 18)):
            for src in sorted(glob.glob("/tmp/wt/%s/%s/*" % (pid, rnd))):
                k = os.path.basename(src)
                if k.isdigit():
                    jobs.append((pid, str(int(k) + off), src))
    with ThreadPoolExecutor(max_workers=3) as ex:
        for sid, msg in ex.map(lambda j: one(*j), jobs):
            print(sid, msg, flush=True)


if __name__ == "__main__":
    main()
