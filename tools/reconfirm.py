#!/usr/bin/env python3
"""Re-confirm kept seeded changes against the current /repo HEAD (after a `fix:` commit moved
the lines a seed touches).  For each id: fresh scratch worktree of HEAD; the demo must pass on
it; the patch (seeded/<id>/patch.diff, or a hand-rebased replacement given as id=path) is
applied with `git apply`, else `patch -p1` with fuzz; the demo must fail and the unedited
suite must still pass (105); then patch.diff is rewritten as `git diff -- flowdyn` of the
result and meta.json records the new base.  Usage: reconfirm.py ID[=rebased.diff] ..."""
import json, os, re, shutil, subprocess, sys, time
VERIF = os.path.dirname(os.path.dirname(os.path.abspath(__file__)))
PY = "/venv/bin/python"

def sh(cmd, cwd=None, env=None, timeout=3000):
    e = dict(os.environ); e.update(env or {})
    r = subprocess.run(cmd, shell=True, cwd=cwd, env=e, capture_output=True, text=True, timeout=timeout)
    return r.returncode, r.stdout + r.stderr

def one(arg):
    sid, _, repl = arg.partition("=")
    d = os.path.join(VERIF, "seeded", sid)
    patch = repl or os.path.join(d, "patch.diff")
    wt = "/tmp/rc/%s" % sid
    sh("git -C /repo worktree remove --force %s" % wt); shutil.rmtree(wt, ignore_errors=True); os.makedirs("/tmp/rc", exist_ok=True)
    rc, out = sh("git -C /repo worktree add -q --detach %s HEAD" % wt)
    if rc: return sid, "worktree failed " + out[-200:]
    try:
        k = sid.split("-")[1]
        for rel in ("_seed/%s" % k, "_seed2/%s" % (int(k) - 3), "_seed2/%s" % k):
            os.makedirs(os.path.join(wt, rel), exist_ok=True)
            shutil.copy(os.path.join(d, "demo.py"), os.path.join(wt, rel, "demo.py"))
        env = {"PYTHONPATH": wt, "MPLBACKEND": "Agg"}
        democmd = "%s _seed/%s/demo.py" % (PY, k)
        rc0, o0 = sh(democmd, cwd=wt, env=env, timeout=900)
        if rc0: return sid, "REJECT demo fails on the unchanged tree: " + o0[-300:]
        rc, o = sh("git apply %s" % patch, cwd=wt)
        how = "git apply"
        if rc:
            rc, o = sh("patch -p1 -s --no-backup-if-mismatch -i %s" % patch, cwd=wt)
            how = "patch with fuzz"
            if rc: return sid, "REJECT patch does not apply: " + o[-300:]
        rc1, o1 = sh(democmd, cwd=wt, env=env, timeout=900)
        if rc1 == 0: return sid, "REJECT demo passes with the change"
        rct, ot = sh("%s -m pytest -q -p no:cacheprovider --timeout=900 -n 5" % PY, cwd=wt, env=env)
        m = re.search(r"(\d+) passed", ot)
        if rct or not m or int(m.group(1)) != 105 or re.search(r"\d+ (failed|error)", ot):
            return sid, "REJECT suite: " + (ot.strip().splitlines() or ["?"])[-1]
        rc, newp = sh("git diff -- flowdyn", cwd=wt)
        open(os.path.join(d, "patch.diff"), "w").write(newp)
        meta = json.load(open(os.path.join(d, "meta.json")))
        meta.setdefault("reconfirmed", []).append({"base_commit": sh("git -C /repo rev-parse --short HEAD")[1].strip(), "applied_with": how if not repl else "hand-rebased onto the new base",
                                                   "demo_unchanged_rc": rc0, "demo_with_change_rc": rc1, "tests_with_change": ot.strip().splitlines()[-1],
                                                   "at": time.strftime("%Y-%m-%dT%H:%M:%SZ", time.gmtime())})
        json.dump(meta, open(os.path.join(d, "meta.json"), "w"), indent=1)
        return sid, "RECONFIRMED (%s)" % how
    finally:
        sh("git -C /repo worktree remove --force %s" % wt); shutil.rmtree(wt, ignore_errors=True)

if __name__ == "__main__":
    from concurrent.futures import ThreadPoolExecutor
    with ThreadPoolExecutor(max_workers=3) as ex:
        for sid, msg in ex.map(one, sys.argv[1:]):
            print(sid, msg, flush=True)
