#!/usr/bin/env python3
"""Regenerate the seeded-change table of DESIGN.md (between the SEED-TABLE markers) from
/verif/seeded/MATRIX.json and the seeds' notes.  Usage: designtable.py"""
import json
import os
import re

VERIF = os.path.dirname(os.path.dirname(os.path.abspath(__file__)))


def headline(sid):
    p = os.path.join(VERIF, "seeded", sid, "summary.txt")
    if os.path.exists(p):
        return open(p).read().strip()
    p = os.path.join(VERIF, "seeded", sid, "notes.md")
    if not os.path.exists(p):
        return ""
    for line in open(p):
        line = line.strip().lstrip("#").strip()
        if line:
            line = re.sub(r"^(Seed|Change|C\d\d seed|C\d\d/?\d?)\s*[\w/]*\s*(--|-|:|—)\s*", "", line)
            return line.replace("|", "/")[:150]
    return ""


def main():
    m = json.load(open(os.path.join(VERIF, "seeded", "MATRIX.json")))
    rows = ["| seed | change (first line of the sub-agent's note) | own check: rules that report it | also reported by | cannot decide |", "|---|---|---|---|---|"]
    n = miss = 0
    for sid in sorted(m, key=lambda s: (s.split("-")[0], int(s.split("-")[1]))):
        if not os.path.exists(os.path.join(VERIF, "seeded", sid, "meta.json")):
            continue
        own = sid.split("-")[0]
        row = m[sid]
        n += 1
        if row[own]["rc"] == 1:
            ownr = ", ".join("`%s`" % r for r in row[own]["rules"][:4])
        else:
            ownr = "**not reported** (exit %s)" % row[own]["rc"]
            miss += 1
        others = " ".join(p for p in sorted(row) if p != own and row[p]["rc"] == 1) or "–"
        und = " ".join(p for p in sorted(row) if row[p]["rc"] not in (0, 1)) or "–"
        rows.append("| %s | %s | %s | %s | %s |" % (sid, headline(sid), ownr, others, und))
    rows.append("")
    rows.append("%d confirmed seeded changes; %d reported by their own property's check, %d not." % (n, n - miss, miss))
    p = os.path.join(VERIF, "DESIGN.md")
    s = open(p).read()
    a, b = "<!-- SEED-TABLE-BEGIN -->", "<!-- SEED-TABLE-END -->"
    i, j = s.index(a) + len(a), s.index(b)
    s = s[:i] + "\n" + "\n".join(rows) + "\n" + s[j:]
    open(p, "w").write(s)
    print("table: %d seeds, %d missed" % (n, miss))


if __name__ == "__main__":
    main()
