#!/usr/bin/env python3
"""Confirm that the neutral self-test variants are behaviour preserving as far as the
repository's own test suite can tell: build each variant in a scratch directory, copy the
unedited tests next to it and run the pinned suite.  Writes selftest/NEUTRAL_TESTS.json."""
import json, os, re, shutil, subprocess, sys, tempfile
from concurrent.futures import ThreadPoolExecutor
sys.path.insert(0, os.path.dirname(os.path.dirname(os.path.abspath(__file__))))
from fdcheck import variants as V

def one(item):
    vid, build = item
    tmp = tempfile.mkdtemp(prefix="ntest_")
    try:
        ok = build(tmp)
        if ok is False:
            return vid, "patch does not apply"
        shutil.copytree("/repo/tests", os.path.join(tmp, "tests"))
        for f in ("pyproject.toml", "tox.ini"):
            if os.path.exists("/repo/" + f):
                shutil.copy("/repo/" + f, tmp)
        env = dict(os.environ, PYTHONPATH=tmp, MPLBACKEND="Agg")
        r = subprocess.run(["/venv/bin/python", "-m", "pytest", "-q", "-p", "no:cacheprovider", "--timeout=900", "-n", "5"], cwd=tmp, env=env, capture_output=True, text=True, timeout=3000)
        last = (r.stdout.strip().splitlines() or ["?"])[-1]
        return vid, last
    finally:
        shutil.rmtree(tmp, ignore_errors=True)

items = []
for vid, desc, factory, expect in V.AST_VARIANTS:
    items.append((vid, (lambda d, f=factory: V.build_ast_variant("/repo", d, f))))
for p in V.neutral_patches():
    items.append((os.path.basename(p)[:-5], (lambda d, p=p: V.build_patch_variant("/repo", d, p))))
res = {}
with ThreadPoolExecutor(max_workers=3) as ex:
    for vid, last in ex.map(one, items):
        res[vid] = last
        print(vid, last, flush=True)
json.dump(res, open(os.path.join(V.VERIF, "selftest", "NEUTRAL_TESTS.json"), "w"), indent=1, sort_keys=True)
