#!/usr/bin/env python3
"""Run every quick check against every confirmed seeded change (scratch copies outside
/repo and /verif, evidence redirected to a scratch directory) and write
/verif/seeded/MATRIX.json + a markdown table.  Usage: seedmatrix.py [seed ids...]"""
import glob
import json
import os
import shutil
import subprocess
import sys
import tempfile
from concurrent.futures import ThreadPoolExecutor

VERIF = os.path.dirname(os.path.dirname(os.path.abspath(__file__)))
PY = "/venv/bin/python"
ALL = ["C01", "C02", "C03", "C04", "C05", "C06", "C07", "C08", "C10", "C11", "C12", "C13", "C14", "C15", "C16", "C17", "C18", "C19", "C20"]


def run(seed, pid, root, evdir):
    env = dict(os.environ, FDCHECK_EVIDENCE_DIR=evdir, PYTHONPATH=VERIF)
    try:
        r = subprocess.run([PY, "-m", "fdcheck", pid, "--root", root], cwd=VERIF, env=env, capture_output=True, text=True, timeout=900)
        rc = r.returncode
        # a report line is  "  file:line  construct  RULE  -- message": the rule is the last token before " -- "
        rules = sorted({l.split(" -- ")[0].split()[-1] for l in r.stdout.splitlines() if l.startswith("  ") and " -- " in l and l.split(" -- ")[0].split()})
    except subprocess.TimeoutExpired:
        rc, rules = 3, ["TIMEOUT"]
    return seed, pid, rc, rules


def main():
    seeds = sys.argv[1:] or sorted(os.path.basename(os.path.dirname(p)) for p in glob.glob(os.path.join(VERIF, "seeded", "*", "meta.json")))
    tmp = tempfile.mkdtemp(prefix="seedmatrix_")
    jobs = []
    try:
        for sd in seeds:
            root = os.path.join(tmp, sd)
            os.makedirs(root)
            shutil.copytree("/repo/flowdyn", os.path.join(root, "flowdyn"))
            r = subprocess.run(["patch", "-p1", "-s", "-i", os.path.join(VERIF, "seeded", sd, "patch.diff")], cwd=root, capture_output=True, text=True)
            if r.returncode:
                print("PATCH FAILED", sd, r.stdout, r.stderr)
                continue
            evdir = os.path.join(tmp, "ev_" + sd)
            os.makedirs(evdir)
            for pid in ALL:
                jobs.append((sd, pid, root, evdir))
        res = {}
        with ThreadPoolExecutor(max_workers=16) as ex:
            for sd, pid, rc, rules in ex.map(lambda j: run(*j), jobs):
                res.setdefault(sd, {})[pid] = {"rc": rc, "rules": rules}
    finally:
        shutil.rmtree(tmp, ignore_errors=True)
    out = os.path.join(VERIF, "seeded", "MATRIX.json")
    old = {}
    if os.path.exists(out) and sys.argv[1:]:
        old = json.load(open(out))
    old.update(res)
    json.dump(old, open(out, "w"), indent=1, sort_keys=True)
    missed = []
    for sd in sorted(res):
        own = sd.split("-")[0]
        fired = [p for p in ALL if res[sd][p]["rc"] == 1]
        err = [p for p in ALL if res[sd][p]["rc"] not in (0, 1)]
        print("%-7s own=%s fired=%s%s" % (sd, "YES" if own in fired else ("err" if own in err else "NO "), ",".join("%s(%s)" % (p, "/".join(res[sd][p]["rules"][:2])) for p in fired), ("  ERR:" + ",".join(err)) if err else ""))
        if own not in fired:
            missed.append(sd)
    print("missed by own check:", missed)


if __name__ == "__main__":
    main()
