#!/bin/sh
# run every registered quick check on /repo in parallel; print one line per check
cd "$(dirname "$0")/.."
for c in C01 C02 C03 C04 C05 C06 C07 C08 C10 C11 C12 C13 C14 C15 C16 C17 C18 C19 C20; do
  ( out=$(timeout 900 /venv/bin/python -m fdcheck $c --tier ${1:-quick} 2>&1); rc=$?; echo "$c rc=$rc $(echo "$out" | head -1 | cut -c1-150)"; echo "$out" | grep -E "^(VIOLATION|KNOWN-FINDING|ANALYSIS-ERROR)" ) &
done
wait
