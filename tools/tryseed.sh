#!/bin/sh
# tryseed.sh <seed id | patch file> <check> [more checks]: run checks on a scratch copy of /repo with the change applied
s=$1; shift
p=$s; [ -f "$p" ] && p=$(readlink -f "$p") || p=/verif/seeded/$s/patch.diff
d=$(mktemp -d /tmp/tryseed.XXXXXX)
cp -r /repo/flowdyn $d/ && (cd $d && patch -p1 -s -i $p) || { echo "patch failed"; rm -rf $d; exit 3; }
for c in "$@"; do
  FDCHECK_EVIDENCE_DIR=$d/ev FDCHECK_NO_SELFTEST=1 timeout 900 /venv/bin/python -m fdcheck $c --root $d 2>&1 | cut -c1-${COLS:-400} | head -${LINES_MAX:-12}
done
rm -rf $d
