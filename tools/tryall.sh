#!/bin/sh
# tryall.sh <patch file>: all 19 checks in parallel on a scratch copy of /repo with the patch applied; prints rc per check and the non-OK lines
p=$(readlink -f "$1")
d=$(mktemp -d /tmp/tryall.XXXXXX)
cp -r /repo/flowdyn $d/ && (cd $d && patch -p1 -s -i $p) || { echo "patch failed"; rm -rf $d; exit 3; }
for c in C01 C02 C03 C04 C05 C06 C07 C08 C10 C11 C12 C13 C14 C15 C16 C17 C18 C19 C20; do
  ( FDCHECK_EVIDENCE_DIR=$d/ev FDCHECK_NO_SELFTEST=1 timeout 900 /venv/bin/python -m fdcheck $c --root $d > $d/$c.out 2>&1; echo "$c rc=$?" > $d/$c.rc ) &
done
wait
bad=0
for c in C01 C02 C03 C04 C05 C06 C07 C08 C10 C11 C12 C13 C14 C15 C16 C17 C18 C19 C20; do
  rc=$(cat $d/$c.rc)
  case "$rc" in *rc=0) ;; *) bad=1; echo "$rc"; grep -v "^KNOWN-FINDING" $d/$c.out | sed -n '2,6p' | cut -c1-${COLS:-500};; esac
done
[ $bad = 0 ] && echo "all 19 silent"
rm -rf $d
