"""STN-2D — access-relation analysis of the 2D Cartesian slice code.

Layout (defined by the code itself, checked against mesh2d): cells j*nx+i; i-faces
j*(nx+1)+i (i in [0,nx]); j-faces j*nx+i (j in [0,ny]), shifted by fshift = ny*(nx+1) in a
full face array.  Every slice expression [s:e(:step)] - possibly inside `for j in range(..)`
- is decoded, by polynomial identities in (j, nx, ny), to an entity family and constant
offsets; each store becomes a *relation*

    family_T[i, j] := expression over  name|family|di|dj   (entities at constant offsets)

normalised relative to the target element, with its (i, j) domain.  Column (strided) and
row statements have one absolute coordinate.  Exactly one decoding must match, otherwise the
analysis fails closed (AnalysisError)."""
import ast
import re
from fractions import Fraction

from .algebra import Algebra, RF
from .interp import Interp, GvnDomain, SelfObj, ObjStub, Vec
from .project import AnalysisError

ATOM = re.compile(r"^(?P<name>[^|]+)\|(?P<fam>[^|]+)\|(?P<i>[^|]+)\|(?P<j>[^|]+)$")


class RangeRF:
    def __init__(self, lo, hi):
        self.lo, self.hi = lo, hi


class Family:
    """index table  a*k + b , k in [0, count)"""
    def __init__(self, alg, count, a, b):
        self.alg, self.count, self.a, self.b = alg, count, a, b

    def _fd_getitem(self, idx, interp):
        """table[:m] / table[k:]: a prefix / suffix of the table.  numpy TRUNCATES a slice that runs past the end silently: the
        prefix [:m] of a table with `count` entries has min(m, count) entries -- m entries only when m <= count for every grid"""
        A = self.alg
        if isinstance(idx, slice) and idx.step is None and idx.start is None and idx.stop is not None:
            m = interp.lift(idx.stop)
            if A.equal(m, self.count):
                return self
            d = A.sub(self.count, m)
            if A.sign(d) in ("+", ">=0"):
                return Family(A, m, self.a, self.b)
            e = AnalysisError("prefix [:%s] of an index table of %s entries" % (A.show(m), A.show(self.count)))
            e.violation = ("SLICE-TRUNC", getattr(interp, "_cur_qual", "index table"), "the prefix `[:%s]` is taken of an index table with %s entries: numpy truncates a slice that runs past the end WITHOUT an error, so on a grid where %s > %s the table silently has fewer entries than the boundary has faces (the missing faces are never given a boundary state)" % (A.show(m), A.show(self.count), A.show(m), A.show(self.count)),
                           "slice-trunc", {"C20", "C15", "C14", "C01", "C03", "C16", "C11", "C13"})
            raise e
        if isinstance(idx, slice) and idx.step is not None and idx.stop is None:
            # table[s0::st] of a table whose length is a whole number of periods st, 0 <= s0 < st: one entry per period
            st = interp.lift(idx.step)
            s0 = interp.lift(idx.start) if idx.start is not None else A.const(0)
            per = A.div(self.count, st)
            if not per.den and A.sign(s0) in ("+", ">=0", "0") and A.sign(A.sub(A.sub(st, s0), A.const(1))) in ("+", ">=0", "0"):
                return Family(A, per, A.mul(self.a, st), A.add(self.b, A.mul(self.a, s0)))
            raise AnalysisError("strided subscript of an index table that is not a whole number of periods")
        if isinstance(idx, slice) and idx.step is None and idx.stop is None and idx.start is not None:
            s0 = interp.lift(idx.start)
            if A.sign(s0) == "-":
                # table[-k:]: the last k entries (k >= 1 is the interpreter's NEG-ZERO-SLICE obligation)
                k = A.neg(s0)
                if A.sign(A.sub(self.count, k)) in ("+", ">=0", "0"):
                    return Family(A, k, self.a, A.add(self.b, A.mul(self.a, A.sub(self.count, k))))
            elif A.sign(s0) in ("+", ">=0", "0") and A.sign(A.sub(self.count, s0)) in ("+", ">=0", "0"):
                return Family(A, A.sub(self.count, s0), self.a, A.add(self.b, A.mul(self.a, s0)))
        raise AnalysisError("unsupported subscript of an index table")

    def _fd_binop(self, op, other, reflected, interp):
        A = self.alg
        o = interp.lift(other)
        if isinstance(op, ast.Add):
            return Family(A, self.count, self.a, self.b + o)
        if isinstance(op, ast.Sub) and not reflected:
            return Family(A, self.count, self.a, self.b - o)
        if isinstance(op, ast.Mult):
            return Family(A, self.count, self.a * o, self.b * o)
        raise AnalysisError("unsupported arithmetic on an index table")


class V2:
    """value read from layout arrays: expression + iteration space"""
    def __init__(self, expr, space):
        self.expr = expr          # RF
        self.space = space        # ('row', L, jvar) | ('col', count) | ('rowabs', L) | ('line', tagdesc)

    def _fd_binop(self, op, other, reflected, interp):
        A = interp.dom.alg
        if isinstance(other, V2):
            sp = join_space(A, self.space, other.space)
            a, b = (other.expr, self.expr) if reflected else (self.expr, other.expr)
        else:
            if isinstance(other, Vec):
                raise AnalysisError("vector combined with a layout slice")
            sp = self.space
            o = interp.lift(other) if not isinstance(op, ast.Pow) else other
            a, b = (o, self.expr) if reflected else (self.expr, o)
        d = interp.dom
        if isinstance(op, ast.Add):
            r = d.add(a, b)
        elif isinstance(op, ast.Sub):
            r = d.sub(a, b)
        elif isinstance(op, ast.Mult):
            r = d.mul(a, b)
        elif isinstance(op, ast.Div):
            r = d.div(a, b)
        elif isinstance(op, ast.Pow) and not reflected:
            r = d.pow(a, b)
        else:
            raise AnalysisError("unsupported operator on layout slices")
        return V2(r, sp)


def join_space(A, s1, s2):
    if s1[0] != s2[0]:
        raise AnalysisError("slices with different iteration spaces combined: %s vs %s" % (s1[0], s2[0]))
    if isinstance(s1[1], RF) and isinstance(s2[1], RF) and not A.equal(s1[1], s2[1]):
        raise ShapeError("slices of lengths %s and %s combined element-wise" % (A.show(s1[1]), A.show(s2[1])))
    if len(s1) > 2 and len(s2) > 2 and s1[2] != s2[2]:
        raise AnalysisError("slices of different loops combined")
    return s1


class ShapeError(AnalysisError):
    pass


class LayoutMismatch(AnalysisError):
    """a slice walks an array with a row width / line that contradicts the array's own
    layout (sites disagree on the layout constants): a refutation, not an unsupported form"""


class Relation:
    def __init__(self, array, fam, kind, dom, expr, lineno, where):
        self.array, self.fam, self.kind, self.dom, self.expr, self.lineno, self.where = array, fam, kind, dom, expr, lineno, where

    def __repr__(self):
        return "%s|%s %s %s := ..." % (self.array, self.fam, self.kind, self.dom)


class View2(V2):
    """a contiguous slice of a layout array bound to a local (`row = p[j*nx:(j+1)*nx]`, `fy = flux[fshift:]`): as a value it is
    the slice; subscripted again with a contiguous slice it is the corresponding slice of the ARRAY (numpy views compose)"""
    def __init__(self, v, arr, sl):
        V2.__init__(self, v.expr, v.space)
        self.arr, self.sl = arr, sl

    def _compose(self, idx, interp):
        if self.arr.vec:
            if not (isinstance(idx, tuple) and len(idx) == 2 and (idx[0] is Ellipsis or idx[0] == slice(None, None, None))):
                raise AnalysisError("view of a vector layout array indexed without a leading ':'")
            idx = idx[1]
        if not (isinstance(idx, slice) and idx.step is None):
            raise AnalysisError("view of a layout array subscripted with something else than a contiguous slice")
        A = self.arr.eng.alg
        lift = lambda v: None if v is None else interp.lift(v)
        s0, e0 = lift(self.sl.start), lift(self.sl.stop)
        s0 = A.const(0) if s0 is None else s0

        loops = self.arr.eng.loops

        def nonneg(v):
            if A.sign(v) in ("+", ">=0", "0"):
                return True
            # a sum of products of positive sizes and loop counters that start at a non-negative bound, positive coefficients
            return (not v.den and all(c > 0 for c in v.num.values())
                    and all(A.atoms[a].positive or (a in loops and A.sign(loops[a][1]) in ("+", ">=0", "0")) for m in v.num for a, e_ in m))

        def neg(v):
            return A.sign(v) == "-"
        s1, e1 = lift(idx.start), lift(idx.stop)
        if s1 is None:
            ns = s0
        elif nonneg(s1):
            ns = A.add(s0, s1)
        else:
            raise AnalysisError("view of a layout array: start of the inner slice is not provably non-negative")
        if e1 is None:
            ne = e0
        elif nonneg(e1):
            ne = A.add(s0, e1)
        elif neg(e1) and e0 is not None:
            ne = A.add(e0, e1)
        else:
            raise AnalysisError("view of a layout array: stop of the inner slice is not decided")
        new = slice(ns, ne, None)
        return (slice(None, None, None), new) if self.arr.vec else new

    def _fd_getitem(self, idx, interp):
        return self.arr._fd_getitem(self._compose(idx, interp), interp)

    def _fd_setitem(self, idx, value, interp):
        return self.arr._fd_setitem(self._compose(idx, interp), value, interp)


class A2:
    """array in the 2D layout; role in {'cell', 'xi', 'yj', 'ff'}"""
    def __init__(self, eng, name, role, vec=False, zero=False):
        self.eng, self.name, self.role, self.vec, self.zero = eng, name, role, vec, zero
        self.rels = []

    # protocol used by the interpreter
    @property
    def ndim(self):
        return 2 if self.vec else 1

    def _fd_getitem(self, idx, interp):
        idx = self._strip(idx)
        fam, I, J, space = self.eng.decode(self, idx, interp)
        if self.zero and not self.rels:
            v = V2(self.eng.alg.const(0), space)
        else:
            v = V2(self.eng.atom(self.name, fam, I, J), space)
        if isinstance(idx, slice) and idx.step is None:
            return View2(v, self, idx)
        return v

    def _fd_setitem(self, idx, value, interp):
        idx = self._strip(idx)
        fam, I, J, space = self.eng.decode(self, idx, interp)
        A = self.eng.alg
        if isinstance(value, V2):
            join_space(A, space, value.space)
            expr = value.expr
        else:
            expr = interp.lift(value)
        self.eng.store(self, fam, I, J, space, expr, interp)

    def _fd_binop(self, op, other, reflected, interp):
        """whole-array arithmetic: evaluated when (and where) the result is subscripted"""
        a, b = (other, self) if reflected else (self, other)
        return Lazy2(self.eng, self.role, self.vec, lambda idx, it_: it_.binop(op, _item(a, idx, it_), _item(b, idx, it_)))

    def _strip(self, idx):
        if isinstance(idx, tuple) and len(idx) == 2 and idx[0] is Ellipsis:
            return idx[1]           # arr[..., k]: the LAST axis (faces / cells) for scalar and vector arrays alike
        if self.vec:
            if isinstance(idx, tuple) and len(idx) == 2 and isinstance(idx[0], slice) and idx[0] == slice(None, None, None):
                return idx[1]
            e = AnalysisError("vector layout array indexed without a leading ':'")
            if isinstance(idx, slice) or isinstance(idx, Family):
                # g[a:b] on a (2, n) array addresses the COMPONENT axis: rows a..b of two -- for b >= 2 that is every entry
                e.violation = ("VEC-LAYOUT", self.eng.cur, "the (2, n) vector array `%s` is subscripted with ONE index (line %s): that index runs over the COMPONENT axis, not over the faces / cells -- a slice [a:b] with b >= 2 selects both components entirely (the whole array), where the scalar arrays select entries a..b" % (self.name.split("_")[0], getattr(interp_line(self.eng), "x", "?")),
                               "vec-one-index", {"C11", "C14", "C15", "C01", "C03", "C13", "C16"})
            raise e
        if isinstance(idx, tuple):
            raise AnalysisError("scalar layout array indexed with a tuple")
        return idx


class _Line:
    def __init__(self, x):
        self.x = x


def interp_line(eng):
    return _Line(getattr(eng.it.dom, "cur_line", "?"))


def _item(x, idx, interp):
    if hasattr(x, "_fd_getitem"):
        return x._fd_getitem(idx, interp)
    return x            # a scalar operand


class Lazy2:
    """element-wise expression over whole layout arrays (p - np.roll(p, 1)): one value per entry, obtained by subscripting"""
    def __init__(self, eng, role, vec, fn):
        self.eng, self.role, self.vec, self.fn = eng, role, vec, fn

    @property
    def ndim(self):
        return 2 if self.vec else 1

    def _fd_getitem(self, idx, interp):
        return self.fn(idx, interp)

    def _fd_binop(self, op, other, reflected, interp):
        a, b = (other, self) if reflected else (self, other)
        return Lazy2(self.eng, self.role, self.vec, lambda idx, it_: it_.binop(op, _item(a, idx, it_), _item(b, idx, it_)))


class Engine:
    def __init__(self, proj):
        self.proj = proj
        self.alg = A = Algebra(term_budget=40000, time_budget=40.0)
        A.fold_enabled = False
        self.dom = GvnDomain(A)
        self.it = Interp(proj, self.dom)
        # grid sizes are integers >= 2 here (the assumption every 2D check prints): strictly above 1
        self.nx, self.ny = A.sym("nx", positive=True, gt=1), A.sym("ny", positive=True, gt=1)
        self.loops = {}          # loop atom id -> (name, lo, hi)
        self.relations = []
        self.cur = "?"
        self.it.range_hook = self.range_hook
        self.it.np_hooks.update({"zeros_like": self.zeros_like, "arange": self.arange, "roll": self.roll, "builtin:slice": self.slice_table, "zeros": self.np_zeros, "repeat": lambda a, k: ("repeat", a[0], a[1]), "full": lambda a, k: ("repeat", a[1], a[0])})
        self.dir_stores = []
        self.events = []

    # ---- hooks
    def range_hook(self, args, target):
        A = self.alg
        vals = [self.it.lift(a) for a in args]
        lo, hi = (A.const(0), vals[0]) if len(vals) == 1 else (vals[0], vals[1])
        name = "%s_%d" % (target, len(self.loops))
        v = A.sym(name)
        self.loops[next(iter(A.atoms_of(v)))] = (name, lo, hi)
        return v

    def zeros_like(self, args, kwargs):
        a = args[0]
        if isinstance(a, A2):
            self.nres = getattr(self, "nres", 0) + 1
            return A2(self, "res_%d" % (self.nres - 1), a.role, a.vec, zero=True)
        return 0

    def arange(self, args, kwargs):
        if len(args) == 2 and not kwargs:
            a, b = self.it.lift(args[0]), self.it.lift(args[1])
            return Family(self.alg, self.alg.sub(b, a), self.alg.const(1), a)
        return Family(self.alg, self.it.lift(args[0]), self.alg.const(1), self.alg.const(0))

    def roll(self, args, kwargs):
        """np.roll(arr, k[, axis]) of a layout array: entry e of the result is entry e - k of arr IN THE FLAT (row by row) ORDER --
        the entry before the first cell of a row is the last cell of the PREVIOUS row (of the last row, for row 0)"""
        A = self.alg
        arr = args[0]
        if not isinstance(arr, (A2, Lazy2)) or len(args) < 2:
            raise AnalysisError("np.roll of an unsupported operand")
        k = self.it.lift(args[1])
        axis = args[2] if len(args) > 2 else kwargs.get("axis")
        if arr.vec and axis != 1 and axis != -1:
            e = AnalysisError("np.roll along the component axis of a vector field")
            e.violation = ("VEC-LAYOUT", self.cur, "np.roll(..., axis=%r) on a (2, n) vector field (line %s): axis 0 is the COMPONENT axis (a roll by an even count changes nothing, by an odd count it exchanges u and v), and without an axis the array is flattened -- the cells are along axis 1" % (axis, getattr(self.it.dom, "cur_line", "?")),
                           "roll-component-axis", {"C11", "C14", "C15", "C01", "C03", "C13"})
            raise e
        if not arr.vec and axis not in (None, 0, -1):
            raise AnalysisError("np.roll of a 1-D array along axis %r" % (axis,))
        eng = self

        def get(idx, interp):
            if isinstance(idx, tuple) and len(idx) == 2 and idx[0] is Ellipsis:
                idx = (slice(None, None, None), idx[1]) if arr.vec else idx[1]
            idx2 = idx[1] if (arr.vec and isinstance(idx, tuple)) else idx
            if isinstance(idx2, Family):
                new = Family(A, idx2.count, idx2.a, idx2.b - k)
            elif isinstance(idx2, slice):
                lift = lambda v: None if v is None else interp.lift(v)
                s, e_, st = lift(idx2.start), lift(idx2.stop), lift(idx2.step)
                s = s if s is not None else A.const(0)
                if st is not None:
                    # a column of the layout: the rolled column must lie in the SAME row for every row
                    for fam, base, W in eng.widths(arr.role):
                        if A.equal(st, W):
                            c = A.sub(A.sub(s, base), k)
                            if A.sign(c) not in ("+", ">=0", "0") or A.sign(A.sub(A.sub(W, c), A.const(1))) not in ("+", ">=0", "0"):
                                raise LayoutMismatch("line %s: np.roll by %s, then column %s of the rows (stride %s): the rolled entry of column %s is column %s of the SAME row only when 0 <= %s < %s -- here it is the %s cell of the %s row in the flat row-by-row order (and wraps to the other end of the array for the first / last row): the seam is closed with another row's cell"
                                                     % (getattr(interp.dom, "cur_line", 0), A.show(k), A.show(A.sub(s, base)), A.show(W), A.show(A.sub(s, base)), A.show(c), A.show(c), A.show(W), "last" if A.sign(c) == "-" else "first", "previous" if A.sign(c) == "-" else "next"))
                s2, e2 = A.sub(s, k), (None if e_ is None else A.sub(e_, k))
                if st is None and A.sign(s2) == "-" and (e2 is None or A.sign(e2) in ("-", "0", "<=0")):
                    # a block that lies entirely before the start of the rolled array: np.roll wraps it to the END
                    tot = eng.total_len(arr.role)
                    s2 = A.add(s2, tot)
                    e2 = None if (e2 is None or e2.is_zero()) else A.add(e2, tot)
                new = slice(s2, e2, idx2.step)
            else:
                raise AnalysisError("unsupported subscript of a rolled array")
            return arr._fd_getitem((idx[0], new) if (arr.vec and isinstance(idx, tuple)) else new, interp)
        return Lazy2(self, arr.role, arr.vec, get)

    def slice_table(self, args, kwargs):
        """slice(a, b) stored as an index table: the same faces as a + arange(b - a)"""
        if len(args) != 2:
            raise AnalysisError("slice object with a step or without a start as an index table")
        a, b = self.it.lift(args[0]), self.it.lift(args[1])
        return Family(self.alg, b - a, self.alg.const(1), a)

    def np_zeros(self, args, kwargs):
        a = args[0]
        if isinstance(a, (list, tuple)) and len(a) == 2 and a[0] == 2:
            dt = kwargs.get("dtype")
            n = self.it.lift(a[1])
            if self.alg.equal(n, self.nx) or self.alg.equal(n, self.ny):
                # per-boundary normal array (mesh2d.normal_of_bc): a vector field
                if dt is not None:
                    self.events.append(("normal-dtype", getattr(dt, "name", repr(dt))))
                return Vec(self.alg.const(0), self.alg.const(0))
            return DirArr(self, a[1], dt)
        return 0

    # ---- atoms
    def atom(self, name, fam, I, J):
        return self.alg.sym("%s|%s|%s|%s" % (name, fam, I, J))

    def widths(self, role):
        """[(family, base, width)] candidates for an array role"""
        nx, ny = self.nx, self.ny
        z = self.alg.const(0)
        if role == "cell":
            return [("cell", z, nx)]
        if role == "xi":
            return [("if", z, nx + 1)]
        if role == "yj":
            return [("jf", z, nx)]
        if role == "ff":
            return [("if", z, nx + 1), ("jf", ny * (nx + 1), nx)]
        raise AnalysisError("unknown array role %s" % role)

    def total_len(self, role):
        nx, ny = self.nx, self.ny
        return {"cell": nx * ny, "xi": ny * (nx + 1), "yj": nx * (ny + 1), "ff": ny * (nx + 1) + nx * (ny + 1)}[role]

    def cols(self, fam):
        """admissible absolute columns of a family"""
        nx = self.nx
        z = self.alg.const(0)
        return [("0", z), ("nx", nx)] if fam == "if" else [("0", z), ("nx-1", nx - 1)]

    def rows(self, fam):
        ny = self.ny
        z = self.alg.const(0)
        return [("0", z), ("ny", ny)] if fam == "jf" else [("0", z), ("ny-1", ny - 1)]

    def _const_int(self, rf):
        c = rf.const_value()
        if c is not None and c.denominator == 1:
            return int(c)
        return None

    def decode(self, arr, idx, interp):
        """-> (family, I-form, J-form, space)"""
        A = self.alg
        nx, ny = self.nx, self.ny
        if isinstance(idx, Family):
            return self.decode_family(arr, idx)
        if not isinstance(idx, slice):
            raise AnalysisError("unsupported index into layout array %s" % arr.name)
        lift = lambda v: None if v is None else interp.lift(v)
        s, e, st = lift(idx.start), lift(idx.stop), lift(idx.step)
        s = s if s is not None else A.const(0)
        loopids = [a for a in A.atoms_of(s) if a in self.loops]
        if st is not None:
            # strided: a column
            if loopids or e is not None:
                raise AnalysisError("unsupported strided slice of %s" % arr.name)
            hits = []
            for fam, base, W in self.widths(arr.role):
                if A.equal(st, W):
                    a = A.sub(s, base)
                    for nm, val in self.cols(fam):
                        if A.equal(a, val):
                            hits.append((fam, "=" + nm, "t", ("col", ny if fam != "jf" else ny + 1)))
            if not hits:
                # a column of the layout at a non-boundary position: keep it symbolic, the rules compare it
                for fam, base, W in self.widths(arr.role):
                    if A.equal(st, W):
                        a = A.sub(s, base)
                        if not any(x in self.loops for x in A.atoms_of(a)):
                            hits.append((fam, "=" + A.show(a).replace("|", "/"), "t", ("col", ny if fam != "jf" else ny + 1)))
            if len(hits) != 1:
                if not any(A.equal(st, W) for fam, base, W in self.widths(arr.role)):
                    raise LayoutMismatch("line %d: slice [%s::%s] of %s uses stride %s, but the rows of this array have width %s" % (getattr(interp.dom, "cur_line", 0), A.show(s), A.show(st), arr.name, A.show(st), " or ".join(A.show(W) for f_, b_, W in self.widths(arr.role))))
                raise AnalysisError("strided slice [%s::%s] of %s does not decode to one column of the layout (%d matches)" % (A.show(s), A.show(st), arr.name, len(hits)))
            return hits[0]
        if len(loopids) > 1:
            raise AnalysisError("slice depends on two loop variables")
        if loopids:
            lid = loopids[0]
            jv = A.atom_rf(A.atoms[lid])
            if e is None:
                raise AnalysisError("open slice inside a row loop")
            L = A.sub(e, s)
            if any(a in self.loops for a in A.atoms_of(L)):
                raise AnalysisError("slice length depends on the loop variable")
            hits = []
            for fam, base, W in self.widths(arr.role):
                for bj in (-1, 0, 1, 2):
                    r = A.sub(A.sub(s, base), (jv + bj) * W)
                    a = self._const_int(r)
                    if a is not None and -2 <= a <= 3:
                        hits.append((fam, "t%+d" % a, "j%+d" % bj, ("row", L, lid)))
            # a match with |a| small may exist for two bj when W is small: keep the canonical one 0 <= a <= W-ish
            hits = [h for h in hits if int(h[1][1:]) >= 0] or hits
            if len(hits) > 1:
                hits = [h for h in hits if int(h[1][1:]) <= 1] or hits
            if not hits:
                # does the slice advance by another row width than the array's own?
                per_row = A.sub(A.subst(s, {lid: jv + 1}), s)
                if not any(a in self.loops for a in A.atoms_of(per_row)):
                    ws = [W for fam, base, W in self.widths(arr.role)]
                    if not any(A.equal(per_row, W) for W in ws):
                        raise LayoutMismatch("line %d: slice [%s:%s] of %s advances by %s per row, but the rows of this array (%s) have width %s: writer and reader disagree on the layout, the stencil offset changes from row to row" % (
                            getattr(interp.dom, "cur_line", 0), A.show(s), A.show(e), arr.name, A.show(per_row), {"cell": "cells", "xi": "i-face block", "yj": "j-face block", "ff": "face array"}[arr.role], " or ".join(A.show(W) for W in ws)))
            if not hits:
                # right row width, but the start is displaced from every row start of that family by an
                # amount that depends on the grid size (a face-count / offset mix-up such as
                # nx*(ny+1) for ny*(nx+1)): correct only for particular (nx, ny)
                per_row = A.sub(A.subst(s, {lid: jv + 1}), s)
                for fam, base, W in self.widths(arr.role):
                    if A.equal(per_row, W):
                        off = A.sub(A.sub(s, base), jv * W)
                        if self._const_int(off) is None and not any(a in self.loops for a in A.atoms_of(off)):
                            raise LayoutMismatch("line %d: slice [%s:%s] of %s has the row width of the %s but starts %s entries away from the start of row j, an offset that depends on the grid size: it addresses the intended faces only for particular (nx, ny)" % (
                                getattr(interp.dom, "cur_line", 0), A.show(s), A.show(e), arr.name, {"cell": "cells", "if": "i-faces", "jf": "j-faces"}.get(fam, fam), A.show(off)))
            if len(hits) != 1:
                raise AnalysisError("row slice [%s:%s] of %s does not decode uniquely (%d matches)" % (A.show(s), A.show(e), arr.name, len(hits)))
            return hits[0]
        # contiguous slice outside loops spanning SEVERAL whole rows (a vectorised row loop): rows r0 .. r0+m-1 of one
        # family.  Decoded as the row slice of a synthetic loop J in [0, m) -- one loop per block height m, so that
        # blocks of equal height combine element-wise exactly as the statements of an explicit `for j` loop would
        blk = self._decode_block(arr, s, e)
        if blk is not None:
            return blk
        # contiguous slice outside loops: one row of the layout
        hits = []
        for fam, base, W in self.widths(arr.role):
            for nm, jr in self.rows(fam):
                if A.equal(A.sub(s, base), jr * W):
                    end = e if e is not None else (self.total_len(arr.role) if (arr.role != "ff" or fam == "jf") else None)
                    if end is None:
                        continue
                    L = A.sub(end, s)
                    if A.equal(L, W if fam != "if" else W):
                        hits.append((fam, "t", "=" + nm, ("rowabs", W)))
        if not hits:
            # a whole row of the layout at a non-boundary position (row 1, row ny-1 of the j-faces): kept symbolic, the
            # rules compare it (same treatment as a column at a non-boundary position)
            for fam, base, W in self.widths(arr.role):
                last = ny if fam == "jf" else ny - 1
                for jr in (A.const(1), A.const(2), last - 1, last - 2):
                    if A.equal(A.sub(s, base), jr * W) and e is not None and A.equal(A.sub(e, s), W):
                        hits.append((fam, "t", "=" + A.show(jr).replace("|", "/"), ("rowabs", W)))
        if not hits:
            # a contiguous slice that starts a grid-size-dependent number of entries into the array, which is not a
            # whole number of rows of this array for some grids: it pairs entries of different columns (a flat
            # shift by ny in an array whose rows have width nx is a neighbour relation only when nx == ny)
            for fam, base, W in self.widths(arr.role):
                off = A.sub(s, base)
                if off.const_value() is None and not any(a in self.loops for a in A.atoms_of(off)):
                    for vx, vy in ((7, 4), (4, 7), (9, 2)):
                        m = {next(iter(A.atoms_of(self.nx))): A.const(vx), next(iter(A.atoms_of(self.ny))): A.const(vy)}
                        o, w = A.subst(off, m).const_value(), A.subst(W, m).const_value()
                        if o is not None and w is not None and o.denominator == 1 and w != 0 and o % w != 0:
                            raise LayoutMismatch("line %d: slice [%s:%s] of %s starts %s entries into an array whose rows have width %s: not a whole number of rows (e.g. on a %dx%d grid), so the statement pairs entries of different columns -- it is the intended neighbour relation only for particular (nx, ny)" % (
                                getattr(interp.dom, "cur_line", 0), A.show(s), A.show(e) if e is not None else "", arr.name, A.show(off), A.show(W), vx, vy))
        if len(hits) != 1:
            raise AnalysisError("slice [%s:%s] of %s does not decode to one row of the layout (%d matches)" % (A.show(s), A.show(e) if e is not None else "", arr.name, len(hits)))
        return hits[0]

    def _decode_block(self, arr, s, e):
        A = self.alg
        ny = self.ny
        found = []
        for fam, base, W in self.widths(arr.role):
            if arr.role == "ff" and e is None and fam != "jf":
                continue
            total_rows = ny + 1 if fam == "jf" else ny
            end = e
            if end is None:
                end = base + total_rows * W
            elif A.sign(end) == "-":
                end = base + total_rows * W + end          # negative stop: counted from the end of the block
            off = A.sub(s, base)
            for r0 in (0, 1, 2):
                if not A.equal(off, A.const(r0) * W):
                    continue
                L = A.sub(end, s)
                for k in range(0, 4):
                    m = total_rows - k
                    if r0 + 0 > 2:
                        continue
                    if A.equal(L, m * W) and not A.equal(m, A.const(1)) and m.const_value() is None:
                        found.append((fam, r0, m, W))
        if len(found) != 1:
            return None
        fam, r0, m, W = found[0]
        key = A.key(m)
        self._block_loops = getattr(self, "_block_loops", {})
        if key not in self._block_loops:
            name = "J_%d" % len(self.loops)
            v = A.sym(name)
            lid = next(iter(A.atoms_of(v)))
            self.loops[lid] = (name, A.const(0), m)
            self._block_loops[key] = lid
        lid = self._block_loops[key]
        return (fam, "t+0", "j%+d" % r0, ("row", W, lid))

    def decode_family(self, arr, famidx):
        A = self.alg
        nx, ny = self.nx, self.ny
        hits = []
        for fam, base, W in self.widths(arr.role):
            b = A.sub(famidx.b, base)
            if A.equal(famidx.a, W):       # one entry per row: a column
                for nm, val in self.cols(fam):
                    if A.equal(b, val):
                        hits.append((fam, "=" + nm, "t", ("col", famidx.count)))
            if A.equal(famidx.a, A.const(1)):     # consecutive: a row
                for nm, jr in self.rows(fam):
                    if A.equal(b, jr * W):
                        hits.append((fam, "t", "=" + nm, ("rowabs", famidx.count)))
        if not hits:
            for fam, base, W in self.widths(arr.role):
                b = A.sub(famidx.b, base)
                if A.equal(famidx.a, W) and (A.sign(b) == "-" or A.sign(A.sub(b, W)) in ("+", ">=0", "0")):
                    raise LayoutMismatch("index table %s*k + (%s) into %s: one entry per row, but at column %s -- outside 0 .. %s-1, so entry k is NOT in row k: in the flat row-by-row order it is a cell of the %s row (for k = 0 a negative index wraps to the END of the array): the line is closed with another row's cells"
                                         % (A.show(famidx.a), A.show(famidx.b), arr.name, A.show(b), A.show(W), "previous" if A.sign(b) == "-" else "next"))
        if len(hits) != 1:
            raise AnalysisError("index table %s*k+%s does not decode to one boundary line of the layout (%d matches)" % (A.show(famidx.a), A.show(famidx.b), len(hits)))
        return hits[0]

    # ---- stores
    def store(self, arr, fam, I, J, space, expr, interp):
        A = self.alg
        kind = space[0]
        if kind == "row":
            aT, bT = int(I[1:]), int(J[1:])
            name, lo, hi = self.loops[space[2]]
            dom = dict(i=(A.const(aT), A.const(aT) + space[1]), j=(lo + bT, hi + bT))

            def ren(nm):
                m = ATOM.match(nm)
                if not m:
                    return None
                i, j = m.group("i"), m.group("j")
                if i.startswith("t") and j.startswith("j"):
                    return A.sym("%s|%s|%+d|%+d" % (m.group("name"), m.group("fam"), int(i[1:] or 0) - aT, int(j[1:]) - bT))
                return None
            expr = self.rename(expr, ren)
        elif kind == "col":
            dom = dict(i=I[1:], j=(A.const(0), space[1]))

            def ren(nm):
                m = ATOM.match(nm)
                if m and m.group("j") == "t":
                    return A.sym("%s|%s|%s|+0" % (m.group("name"), m.group("fam"), m.group("i")))
                return None
            expr = self.rename(expr, ren)
        elif kind == "rowabs":
            dom = dict(i=(A.const(0), space[1]), j=J[1:])

            def ren(nm):
                m = ATOM.match(nm)
                if m and m.group("i") == "t":
                    return A.sym("%s|%s|+0|%s" % (m.group("name"), m.group("fam"), m.group("j")))
                return None
            expr = self.rename(expr, ren)
        else:
            raise AnalysisError("unsupported iteration space %s" % kind)
        if kind in ("col", "rowabs"):
            expr = self.forward_lines(expr, kind, dom)
        r = Relation(arr.name, fam, kind, dom, expr, getattr(interp.dom, "cur_line", 0), self.cur)
        arr.rels.append(r)
        self.relations.append(r)

    def forward_lines(self, expr, kind, dom):
        """store-to-load forwarding on boundary lines: an entry `name|fam|=p|+0` read by a column relation is the value the
        latest earlier relation stored on that very line of `name` (`xgrad[nx::nx+1] = xgrad[::nx+1]` after
        `xgrad[::nx+1] = d[::nx] - d[nx-1::nx]`).  Only when that relation is found walking back over relations that provably
        do not touch the line; otherwise the entry stays the free atom it was."""
        A = self.alg
        axis, other = ("i", "j") if kind == "col" else ("j", "i")
        mp = {}
        for aid in A.atoms_of(expr):
            m = ATOM.match(A.atoms[aid].name)
            if not m or m.group(other) != "+0" or not m.group(axis).startswith("="):
                continue
            line = m.group(axis)[1:]
            for o in reversed(self.relations):
                if o.array != m.group("name"):
                    continue
                if o.fam != m.group("fam"):
                    break
                if o.kind == kind:
                    if o.dom[axis] == line:
                        if A.equal(o.dom[other][0], dom[other][0]) and A.equal(o.dom[other][1], dom[other][1]):
                            mp[aid] = o.expr
                        break
                    if isinstance(o.dom[axis], str) and {o.dom[axis], line} <= {"0", "nx", "ny", "nx-1", "ny-1"}:
                        continue                      # another boundary line
                    break
                if o.kind == "row" and isinstance(o.dom.get(axis), tuple):
                    lo, hi = A.show(o.dom[axis][0]), A.show(o.dom[axis][1])
                    if (line == "0" and lo == "1") or (line in ("nx", "ny") and hi == line):
                        continue                      # interior rows: the line is outside their range
                break
        return A.subst(expr, mp) if mp else expr

    def rename(self, expr, fn):
        A = self.alg
        mapping = {}
        for aid in A.atoms_of(expr):
            at = A.atoms[aid]
            if at.kind == "sym":
                new = fn(at.name)
                if new is not None:
                    mapping[aid] = new
        return A.subst(expr, mapping) if mapping else expr


class DirArr:
    """face-normal array built by calc_flux: np.zeros((2, nfaces)) with component stores"""
    def __init__(self, eng, n, dtype):
        self.eng, self.n, self.dtype = eng, n, dtype
        self.stores = []     # (component, lo, hi, value)

    def _fd_setitem(self, idx, value, interp):
        A = self.eng.alg
        if not (isinstance(idx, tuple) and len(idx) == 2 and isinstance(idx[0], int) and isinstance(idx[1], slice)):
            raise AnalysisError("unsupported store into the face-normal array")
        sl = idx[1]
        lo = interp.lift(sl.start) if sl.start is not None else A.const(0)
        hi = interp.lift(sl.stop) if sl.stop is not None else interp.lift(self.n)
        self.stores.append((idx[0], lo, hi, interp.lift(value)))


class Disc2D:
    """abstract fvm2dcart with mesh2d built by interpreting its constructor"""
    def _ctor_attr(self, param, default):
        """name of the attribute in which the constructor keeps its parameter `param` (private names may change)"""
        try:
            summ = self.proj.ctor_summary(self.proj.cls("modeldisc.fvm2dcart"))
        except AnalysisError:
            return default
        hits = [a for a, b in summ.items() if b == ("param", param)]
        return hits[0] if len(hits) == 1 else default

    def __init__(self, proj, neq_shapes=(1,), bctypes=None):
        self.proj = proj
        self.eng = E = Engine(proj)
        A = E.alg
        it = E.it
        self.mesh_cls = proj.cls("mesh2d.mesh2d")
        self.fvm_cls = proj.cls("modeldisc.fvm2dcart")
        self.lx, self.ly = A.sym("lx", positive=True), A.sym("ly", positive=True)
        self.mesh = SelfObj(self.mesh_cls, {})
        it.call_function(proj.resolve(self.mesh_cls, "__init__"), [self.mesh, E.nx, E.ny, self.lx, self.ly])
        self.shapes = list(neq_shapes)
        names = ["d%d" % i for i in range(len(self.shapes))]
        self.pdata = [A2(E, nm, "cell", vec=(sh == 2)) for nm, sh in zip(names, self.shapes)]
        bct = bctypes or {t: "per" for t in ("left", "right", "top", "bottom")}
        # the user's dictionary lists the boundaries in ITS order: any order is a valid input, so the analysis takes one in which
        # no tag stands where the mesh's own list of tags has it (a table built in mesh order and read by position in the
        # dictionary's order pairs every boundary with another one's faces)
        mtags = self.mesh.attrs.get("_bctags")
        order = list(bct)
        if isinstance(mtags, (list, tuple)) and sorted(map(str, mtags)) == sorted(order) and len(order) > 1:
            order = [str(t) for t in mtags][1:] + [str(mtags[0])]
        bclist = {t: {"type": bct[t], "tag": t} for t in order}

        def zero_datalist(newdim=None):
            nd = it.lift(newdim)
            role = None
            for r in ("xi", "yj", "ff"):
                if A.equal(nd, E.total_len(r)):
                    role = r
            if role is None:
                raise AnalysisError("zero_datalist(newdim=%s): not a face-block size of the layout" % A.show(nd))
            self.nalloc += 1
            if role == "ff":
                self.nff += 1
                base = "faL" if self.nff % 2 == 1 else "faR"
            else:
                base = {"xi": "xg", "yj": "yg"}[role]
            return [A2(E, "%s_%d" % (base, i), role, vec=(sh == 2), zero=True) for i, sh in enumerate(self.shapes)]
        self.nalloc = 0
        self.nff = 0
        self.field = ObjStub("field", {"zero_datalist": zero_datalist, "data": "FIELD-DATA"})
        self.model = ObjStub("model", {"shape": list(self.shapes)})
        self.so = SelfObj(self.fvm_cls, {"mesh": self.mesh, "neq": len(self.shapes), "nelem": E.nx * E.ny, "field": self.field,
                                         "pdata": self.pdata, "qdata": self.pdata, self._ctor_attr("bclist", "_bclist"): bclist, "model": self.model})
        # whatever else the constructor derives from its arguments (tables computed once from the mesh and the boundary list)
        ctor = proj.resolve(self.fvm_cls, "__init__")
        if ctor is not None and ctor.cls is self.fvm_cls and len(ctor.params) >= 5:
            env = dict(zip(ctor.params, [self.so, self.model, self.mesh, None, bclist] + [None] * (len(ctor.params) - 5)))
            for st in ctor.node.body:
                if isinstance(st, ast.Expr) and isinstance(st.value, ast.Call) and isinstance(st.value.func, ast.Attribute) and st.value.func.attr == "__init__":
                    continue
                def _stores_new(tree, sn):
                    return any(isinstance(n, ast.Attribute) and isinstance(n.ctx, ast.Store) and isinstance(n.value, ast.Name) and n.value.id == sn and n.attr not in self.so.attrs for n in ast.walk(tree))
                direct = _stores_new(st, ctor.params[0])
                # ... or through a method of the object the constructor calls (self._build_tables())
                via = False
                if isinstance(st, ast.Expr) and isinstance(st.value, ast.Call) and isinstance(st.value.func, ast.Attribute) and isinstance(st.value.func.value, ast.Name) and st.value.func.value.id == ctor.params[0]:
                    g = proj.resolve(self.fvm_cls, st.value.func.attr)
                    via = g is not None and g.has_self and _stores_new(g.node, g.params[0])
                if not direct and not via:
                    continue
                try:
                    it.exec_block([st], env, ctor, 0)
                except AnalysisError:
                    pass            # the attribute stays unknown: a later read reports it

    def fvm(self, name, *args):
        f = self.proj.resolve(self.fvm_cls, name)
        if f is None:
            raise AnalysisError("fvm2dcart.%s not found (anchor vanished?)" % name)
        self.eng.cur = f.qualname
        return self.eng.it.call_function(f, [self.so] + list(args))

    def recon(self, clsname):
        ci = self.proj.cls("xnum." + clsname)
        attrs = {}
        summ = self.proj.ctor_summary(ci)
        if summ.get("kprec", (None,))[0] == "param":
            attrs["kprec"] = self.eng.alg.sym("kappa")
        elif summ.get("kprec", (None,))[0] == "truthy":
            from .disc1d import KappaTruthiness
            raise KappaTruthiness(ci.name, summ["kprec"][1], summ["kprec"])
        return ci, SelfObj(ci, attrs)

    def interp_face(self, ci, num):
        f = self.proj.resolve(ci, "interp_face")
        self.eng.cur = f.qualname
        xg = self.so.attrs.get("xgrad", "none")
        yg = self.so.attrs.get("ygrad", "none")
        return self.eng.it.call_function(f, [num, self.mesh, self.pdata, self.field, len(self.shapes), xg, yg])


def rel_atoms(A, expr):
    out = []
    for aid in A.atoms_of(expr):
        m = ATOM.match(A.atoms[aid].name)
        if m:
            out.append((aid, m.group("name"), m.group("fam"), m.group("i"), m.group("j")))
    return out
