"""Rules evaluated on the abstract interpretation of timemodel._solve / solve / restart."""
import ast
from fractions import Fraction

from .driver import (Driver, State, FieldObj, ListObj, SeqSym, ArrSym, Opq, SelfRef, Lin, Con, CBool,
                     feasible, entails)
from .project import AnalysisError, unparse


class Result:
    def __init__(self):
        self.items = []      # (rule, status, text, lineno, key)

    def ok(self, rule, text, ln=0):
        self.items.append((rule, "ok", text, ln, None))

    def bad(self, rule, text, ln=0, key=None):
        self.items.append((rule, "violation", text, ln, key or text[:50]))

    def und(self, rule, text, ln=0):
        self.items.append((rule, "undecided", text, ln, None))


def find_main_loop(func):
    """the while loop whose body performs the main step (calls self.step and assigns self.Qn)"""
    cands = []
    for st in func.node.body:
        if isinstance(st, ast.While):
            has_step = any(isinstance(n, ast.Call) and isinstance(n.func, ast.Attribute) and n.func.attr == "step" for n in ast.walk(st))
            sets_qn = any(isinstance(n, ast.Assign) and any(isinstance(x, ast.Attribute) and x.attr == "Qn" and isinstance(x.ctx, ast.Store) for t in n.targets for x in ([t] if not isinstance(t, (ast.Tuple, ast.List)) else t.elts)) for n in ast.walk(st))
            if has_step and sets_qn:
                cands.append(st)
    if len(cands) != 1:
        raise AnalysisError("%s: main loop not identified (%d candidates)" % (func.qualname, len(cands)))
    return cands[0]


def initial_state(itstart=None):
    s = State()
    f = FieldObj("caller's initial field", Lin.sym("t_f"), Lin.sym("it_f"), caller=True)
    s.heap[f.id] = f
    s.attrs.update({"_cputime": Lin({}, 0), "_nit": Lin({}, 0), "_itstart": itstart if itstart is not None else Lin.sym("itstart"),
                    "monitors": Opq("self.monitors"), "modeldisc": Opq("modeldisc"), "mesh": Opq("mesh"),
                    "_monitordict": Opq("monitordict")})
    return s, f


def solve_args(f):
    # positional roles of the driver's parameters (after self)
    return [f, Opq("cfl"), SeqSym("tsave"), Opq("stop"), Opq("flush"), Opq("monitors"), Opq("directives")]


ROLE_NAMES = ("f", "condition", "tsave", "stop", "flush", "monitors", "directives")


def bind_params(func, f):
    vals = solve_args(f)
    names = func.params[1:]
    if sorted(names[:len(vals)]) == sorted(ROLE_NAMES) and list(names[:len(vals)]) != list(ROLE_NAMES):
        # the documented parameter names in another order: the NAME carries the role (callers pass them by keyword)
        vals = [vals[ROLE_NAMES.index(n)] for n in names[:len(vals)]]
    dfl = func.defaults()
    extra = names[len(vals):]
    if len(names) < len(vals) or any(n not in dfl for n in extra):
        raise AnalysisError("%s: expected %d parameters (f, condition, tsave, stop, flush, monitors, directives), found %s" % (func.qualname, len(vals), names))
    out = dict(zip(names, vals))
    for n in extra:
        # an optional parameter added since (a callback, a verbosity flag ...): the run the statement describes is
        # the one with its default
        d = dfl[n]
        if isinstance(d, ast.Constant):
            v = d.value
            out[n] = Lin({}, Fraction(repr(v))) if isinstance(v, (int, float)) and not isinstance(v, bool) else v
        else:
            out[n] = Opq("default:" + n)
    return out


def save_index_name(fsolve):
    """the local used as index into the save-time sequence (3rd parameter)"""
    tsave = fsolve.params[3]
    names = {}
    for n in ast.walk(fsolve.node):
        if isinstance(n, ast.Subscript) and isinstance(n.value, ast.Name) and n.value.id == tsave and isinstance(n.slice, ast.Name):
            names[n.slice.id] = names.get(n.slice.id, 0) + 1
    if not names:
        raise AnalysisError("%s: no index into the save-time list found" % fsolve.qualname)
    return max(names, key=names.get)


def run_prologue(proj, cls, fsolve):
    """interpret _solve from its entry to the head of the main loop"""
    drv = Driver(proj, cls)
    drv.main_loop = find_main_loop(fsolve)
    drv.isave_name = save_index_name(fsolve)
    s, f = initial_state()
    s.env = {fsolve.params[0]: SelfRef()}
    s.env.update(bind_params(fsolve, f))
    outs = drv.block(fsolve.node.body, [s], fsolve)
    heads = [o for o in outs if o.done == "loophead"]
    others = [o for o in outs if o.done != "loophead"]
    return drv, f, heads, others


def _tsave_at(s, idx):
    d = Driver.__new__(Driver)
    return Lin.sym(Driver.seq_symbol(d, s, "tsave", idx))


def check_invariant(s, strict, what, res, rule, isave_name="isave"):
    """Inv: isave < nsave  =>  tsave[isave] >= Qn.time   (strict: >)"""
    isave = s.env.get(isave_name)
    qn = s.attrs.get("Qn")
    if not isinstance(isave, Lin) or not isinstance(qn, FieldObj):
        res.und(rule, "%s: isave / Qn not tracked" % what)
        return False
    nsave = Lin.sym("len(tsave)")
    t = s.fork()
    t.add(Con(nsave - isave, ">"))
    if not t.ok():
        return True
    sv = _tsave_at(t, isave)
    goal = Con(sv - qn.time, ">" if strict else ">=")
    if entails(t.cons, goal):
        return True
    return False


def generic_iteration(drv, fsolve, head):
    """one generic iteration of the main loop from the invariant"""
    loop = drv.main_loop
    outs = []
    for case in ("A", "B"):
        g = head.fork()
        g.done = None
        g.events = []
        g.cons = []
        g.seqsyms = {}
        qn = FieldObj("Qn at loop head", Lin.sym("T"), Lin.sym("qn_it"))
        g.heap[qn.id] = qn
        g.attrs["Qn"] = qn
        g.attrs["_time"] = Lin.sym("T")
        g.attrs["_nit"] = Lin.sym("n")
        g.add(Con(Lin.sym("n"), ">="))
        g.env[drv.isave_name] = Lin.sym("i")
        g.add(Con(Lin.sym("i"), ">="))
        g.add(Con(Lin.sym("len(tsave)"), ">="))
        for k, v in list(g.env.items()):
            if isinstance(v, ListObj):
                v.items = []
                v.unknown_prefix = True
            if isinstance(v, FieldObj) and not v.caller:
                del g.env[k]
        # the flag tested by the loop is unknown history: drop decided checkend flags
        g.bools = {k: v for k, v in g.bools.items() if not k.startswith("checkend")}
        if case == "A":
            g.add(Con(Lin.sym("i") - Lin.sym("len(tsave)"), ">="))
        else:
            g.add(Con(Lin.sym("len(tsave)") - Lin.sym("i"), ">"))
            sv = _tsave_at(g, Lin.sym("i"))
            g.add(Con(sv - Lin.sym("T"), ">="))
        g.meta_qn_id = qn.id
        # enter the loop: its test must hold
        entered = []
        for s2, c in drv.evalf(loop.test, g, fsolve):
            entered.extend(drv.assume(s2, c, True))
        for e in entered:
            e.meta_qn_id = qn.id
            body_out = drv.block(loop.body, [e], fsolve)
            for o in body_out:
                o.meta_qn_id = qn.id
                o.meta_case = case
                outs.append(o)
    return outs


def _lin_eq(a, b, cons):
    if not (isinstance(a, Lin) and isinstance(b, Lin)):
        return False
    if a == b:
        return True
    return entails(cons, Con(a - b, "=="))


def analyse_legacy(proj, res):
    """The older public driver `solve_legacy` (no stop criteria, no monitors), interpreted by the same
    path-sensitive engine with its loops unrolled: every step it takes must be given a SCALAR time step
    -- the minimum over cells of a time-step array computed from the field's CURRENT state (no step in
    between), or a shorter positive step onto a save time.  (C18: "a solve uses the minimum over cells as
    its global step"; C01: "one global time step".)"""
    cls = proj.cls("integration.timemodel")
    f = proj.resolve(cls, "solve_legacy")
    if f is None:
        return
    names = f.params[1:]
    if names[:3] != ["f", "condition", "tsave"] and len(names) < 3:
        res.und("DRV-DT-MIN", "solve_legacy: parameters %s not recognised" % names, f.node.lineno)
        return
    drv = Driver(proj, cls)
    drv.main_loop = None
    s, fld = initial_state()
    vals = [fld, Opq("cfl"), SeqSym("tsave")] + [None] * (len(names) - 3)
    s.env = {f.params[0]: SelfRef()}
    s.env.update(dict(zip(names, vals)))
    try:
        outs = drv.block(f.node.body, [s], f)
    except AnalysisError as e:
        res.und("DRV-DT-MIN", "solve_legacy not interpretable: %s" % e, f.node.lineno)
        return
    nstep = 0
    bad_once = set()

    def bad(text, ln, key):
        if key not in bad_once:
            bad_once.add(key)
            res.bad("DRV-DT-MIN", "solve_legacy: " + text, ln, key)
    for o in outs:
        last_ts = None
        for ev in o.events:
            if ev[0] == "timestep":
                last_ts = ev
            elif ev[0] == "step":
                nstep += 1
                fid, dtv, cons, ln, nbefore = ev[1], ev[2], ev[3], ev[4], ev[6]
                if dtv[0] == "array":
                    bad("a step is given the per-cell time-step array `%s`: every cell advances by its own step although no local-time-step directive exists here (not one global step: the conserved integrals drift and the cells are at different times)" % dtv[1], ln, "legacy-array")
                    continue
                if last_ts is None:
                    bad("a step is taken before any time step was computed", ln, "legacy-nots")
                    continue
                if isinstance(dtv[1], Lin) and not entails(cons, Con(dtv[1], ">")):
                    bad("a step of length %r is taken on a path that does not make it POSITIVE (a truthiness test `if dt:` lets a NEGATIVE step through -- a save time already behind the field makes the integrator run backwards): p < 0 / NaN" % (dtv[1],), ln, "legacy-negative")
                    continue
                if last_ts[1] != fid or last_ts[2] != nbefore:
                    bad("the time step used by a step was computed from another state of the field (%s step(s) earlier): not CFL*dx/lambda of the current state" % (nbefore - last_ts[2] if last_ts[1] == fid else "another field,"), ln, "legacy-stale")
                    continue
                m = Lin.sym("min(%s)" % last_ts[3])
                reduces = [x for x in o.events if x[0] == "reduce" and x[2] == last_ts[3]]
                if any(x[1] != "min" for x in reduces):
                    bad("the global time step is the %s over cells, not the minimum" % reduces[0][1], reduces[0][3], "legacy-reduce")
                    continue
                if not (_lin_eq(dtv[1], m, cons) or (entails(cons, Con(m - dtv[1], ">=")))):
                    bad("step length %r is neither min(dt) of the current state nor a shorter step onto a save time" % (dtv[1],), ln, "legacy-notmin")
    if not bad_once:
        if nstep:
            res.ok("DRV-DT-MIN", "solve_legacy: on all %d explored paths every step gets a scalar: the minimum over cells of the time step of the current state, or a shorter step onto the save time" % len(outs), f.node.lineno)
        else:
            res.und("DRV-DT-MIN", "solve_legacy: no step found on the explored paths", f.node.lineno)


def analyse_solve(proj):
    """returns Result with all driver rules"""
    res = Result()
    cls = proj.cls("integration.timemodel")
    fsolve = proj.resolve(cls, "_solve")
    if fsolve is None:
        raise AnalysisError("integration.timemodel._solve not found")
    drv, f, heads, others = run_prologue(proj, cls, fsolve)
    if not heads:
        raise AnalysisError("_solve: main loop is never reached")
    info = {"prologue_paths": len(heads) + len(others), "heads": len(heads)}

    # ---------------- prologue obligations
    raised = [o for o in others if o.done == "raise"]
    # empty stop criteria raise: on paths with no tsave and stop None
    empty_raise = any(o.bools.get("stop is None") is True or o.bools.get("truth(stop)") is False for o in raised)
    if empty_raise:
        res.ok("DRV-STOP", "an empty criterion set raises (no tsave, stop None)")
    else:
        res.bad("DRV-STOP", "no exception on the path with no save time and no stop criterion (the loop would never end)", fsolve.node.lineno, "empty-criteria")
    for h in heads:
        qn = h.attrs.get("Qn")
        # caller purity and fresh ownership
        if not isinstance(qn, FieldObj) or qn.caller or qn.copy_of != (f.id, 0) or qn.steps:
            res.bad("DRV-CALLER-PURE", "self.Qn at the loop head is not a fresh copy of the caller's field (it is %s)" % (qn.origin if isinstance(qn, FieldObj) else qn), fsolve.node.lineno, "qn-alias")
            break
    else:
        res.ok("DRV-CALLER-PURE", "self.Qn := f.copy() before the loop on all %d prologue paths" % len(heads))
    # objects the caller passes as pure inputs (stop criteria, directives, save times) are not changed
    pm = {}
    for st in list(heads) + list(others):
        for ev in st.events:
            if ev[0] == "param-mutated":
                pm[(ev[1], ev[2], ev[3])] = ev
    for (pname, meth, ln) in sorted(pm):
        res.bad("DRV-CALLER-PURE", "the caller's `%s` argument is changed in place (%s, line %d): a later solve/restart with the same object inherits this call's value (a default stop time written into the caller's dictionary ends the next run early)" % (pname, meth, ln), ln, "param-" + pname)
    if not pm:
        res.ok("DRV-CALLER-PURE", "stop criteria, directives and save times are only read")
    for h in heads:
        if not _lin_eq(h.attrs.get("_time"), h.attrs["Qn"].time if isinstance(h.attrs.get("Qn"), FieldObj) else None, h.cons):
            res.bad("DRV-COUNT", "self._time != Qn.time at the loop head", fsolve.node.lineno, "time-head")
            break
    else:
        res.ok("DRV-COUNT", "self._time == Qn.time at the loop head")
    # invariant established (non-strict: a save time equal to the start time is kept)
    est = all(check_invariant(h, False, "prologue", res, "DRV-SIDESTEP-BOUNDS", drv.isave_name) for h in heads)
    if est:
        res.ok("DRV-SNAPSHOT", "prologue establishes tsave[isave] >= Qn.time (save times earlier than the start are skipped, a save time equal to the start is kept)")
    else:
        res.bad("DRV-SNAPSHOT", "prologue does not establish tsave[isave] >= Qn.time: a save time earlier than the start time can reach the side step", fsolve.node.lineno, "inv-prologue")
    # the skip keeps a save time equal to the start: no head state may have skipped an equal time
    kept = True
    for h in heads:
        isave = h.env.get(drv.isave_name)
        if isinstance(isave, Lin) and isave.is_const() and isave.k >= 1:
            # skipped entries tsave[0..k-1] must be strictly earlier than the start
            for j in range(int(isave.k)):
                key = ("tsave", Lin({}, j).key())
                sym = h.seqsyms.get(key)
                if sym is None or not entails(h.cons, Con(h.attrs["Qn"].time - Lin.sym(sym), ">")):
                    kept = False
    if kept:
        res.ok("DRV-SNAPSHOT", "only save times strictly earlier than the start time are skipped")
    else:
        res.bad("DRV-SNAPSHOT", "the prologue can skip a save time equal to the start time (no snapshot of the initial state)", fsolve.node.lineno, "skip-equal")
    # check_end evaluated once before the loop, monitors parsed once
    for h in heads:
        ce = [e for e in h.events if e[0] == "check_end"]
        if len(ce) != 1:
            res.bad("DRV-STOP", "stop criteria evaluated %d times before the loop (expected once)" % len(ce), fsolve.node.lineno, "pre-check")
            break
    else:
        res.ok("DRV-STOP", "stop criteria evaluated once before the loop")
    # default criterion
    dflt_ok = True
    for h in heads:
        ce = [e for e in h.events if e[0] == "check_end"]
        crit = ce[0][4] if ce else None
        if isinstance(crit, dict) and h.bools.get("stop is None") is True:
            tt = crit.get("tottime")
            last = h.seqsyms.get(("tsave", Lin({}, -1).key()))
            if not (isinstance(tt, Lin) and last is not None and tt == Lin.sym(last)):
                dflt_ok = False
    if dflt_ok:
        res.ok("DRV-STOP", "default criterion is tottime = tsave[-1]")
    else:
        res.bad("DRV-STOP", "default stop criterion is not tottime = tsave[-1]", fsolve.node.lineno, "default-crit")

    # ---------------- generic iteration
    # one representative head per configuration of flags
    seen = set()
    reps = []
    for h in heads:
        key = tuple(sorted((k, v) for k, v in h.bools.items() if not k.startswith("checkend")))
        if key not in seen:
            seen.add(key)
            reps.append(h)
    ends = []
    for h in reps:
        ends.extend(generic_iteration(drv, fsolve, h))
    info["iteration_paths"] = len(ends)
    info["configs"] = len(reps)
    live = [e for e in ends if not e.done]
    for e in ends:
        if e.done == "raise":
            res.bad("DRV-STOP", "an exception is raised inside the main loop", fsolve.node.lineno, "raise-in-loop")
    _iteration_rules(res, drv, fsolve, f, live)
    _epilogue_rules(res, drv, fsolve, f, live)
    analyse_legacy(proj, res)
    return res, info


def _iteration_rules(res, drv, fsolve, f, ends):
    ln0 = drv.main_loop.lineno
    if not ends:
        raise AnalysisError("_solve: no path through the main loop body")
    flags = {"side_bounds": 0, "snap": 0, "paths": len(ends)}
    bad_once = set()

    def bad(rule, text, ln, key):
        if (rule, key) in bad_once:
            return
        bad_once.add((rule, key))
        res.bad(rule, text, ln, key)
    n_side = 0
    n_snap = 0
    for e in ends:
        qn0 = e.meta_qn_id
        cons = e.cons
        n0, i0 = Lin.sym("n"), Lin.sym("i")
        steps = [ev for ev in e.events if ev[0] == "step"]
        tsev = [ev for ev in e.events if ev[0] == "timestep"]
        qn_end = e.attrs.get("Qn")
        if not isinstance(qn_end, FieldObj):
            bad("TS-FRESH-MAIN", "self.Qn is not a field at the end of the iteration", ln0, "qn-type")
            continue
        # ---- time step computed from the current state, this iteration
        if len(tsev) != 1 or tsev[0][1] != qn0 or tsev[0][2] != 0:
            bad("DRV-DT-MIN", "the time step is not recomputed once per iteration from the current state self.Qn", tsev[0][4] if tsev else ln0, "dt-stale")
            continue
        dtname = tsev[0][3]
        m = Lin.sym("min(%s)" % dtname)
        reduces = [ev for ev in e.events if ev[0] == "reduce" and ev[2] == dtname]
        if any(ev[1] != "min" for ev in reduces):
            bad("DRV-DT-MIN", "global time step is the %s over cells, not the minimum" % reduces[0][1], reduces[0][3], "dt-reduce")
        # ---- a guard of a step that exact arithmetic makes redundant
        red = [ev for ev in e.events if ev[0] == "redundant-step-guard"]
        if red:
            bad("DRV-SNAPSHOT", "the step at line %d is guarded by a comparison (%s) that the loop condition already implies in exact arithmetic: in floating point the two tests are different expressions (`t + dt >= s` and `s - t <= dt` disagree when t + dt rounds up to s), the guard can fail, the step is skipped and the snapshot is the previous state stamped as the save time's" % (red[0][2], red[0][1]), red[0][2], "fp-redundant-guard")
        # ---- a shallow copy that is stepped advances the arrays of its original as well
        shallow = {ev[2]: ev for ev in e.events if ev[0] == "shallow-copy"}
        hit = [ev for ev in steps if ev[1] in shallow]
        if hit:
            bad("TS-FRESH-MAIN", "the field advanced at line %d is a SHALLOW copy (copy.copy, line %d): a new object holding the SAME data arrays, which add_res updates in place -- the original (the state of the previous iteration, a snapshot already handed out) moves with it" % (hit[0][4], shallow[hit[0][1]][3]), hit[0][4], "shallow-copy")
        # ---- main step
        main = [ev for ev in steps if ev[1] == qn_end.id]
        side = [ev for ev in steps if ev[1] != qn_end.id]
        if qn_end.id == qn0 or qn_end.caller:
            bad("TS-FRESH-MAIN", "the main step is applied to self.Qn in place or to the caller's field", ln0, "inplace")
        if len(main) != 1:
            bad("TS-FRESH-MAIN", "the state stored in self.Qn received %d steps in one iteration (expected exactly 1)" % len(main), main[1][4] if len(main) > 1 else ln0, "main-count")
        else:
            ev = main[0]
            if ev[6] != 0 or ev[7] != (qn0, 0):
                bad("TS-FRESH-MAIN", "the main step is applied to an object that is not a fresh copy of self.Qn (copy_of=%s, %d earlier steps): the snapshot side step leaks into the trajectory" % (ev[7], ev[6]), ev[4], "main-notfresh")
            dtv = ev[2]
            # the directive is ON when its key is present in the caller's dictionary (the documented switch: `'dtlocal' in
            # directives`); a value test on top of it is a second, independent fact
            dtlocal = None
            for k, v in e.bools.items():
                if "dtlocal" in k:
                    dtlocal = v
            if dtv[0] == "array":
                if dtv[1] != dtname:
                    bad("DRV-DT-MIN", "main step uses a stale local time-step array", ev[4], "main-dt-array")
                if dtlocal is False:
                    bad("DRV-DT-MIN", "main step uses the per-cell array although the dtlocal directive is off", ev[4], "main-dt-global")
            else:
                if not _lin_eq(dtv[1], m, cons):
                    bad("DRV-DT-MIN", "main step length %r is not min(dtloc) of this iteration" % (dtv[1],), ev[4], "main-dt")
                if dtlocal is True:
                    bad("DRV-DT-MIN", "main step uses the global minimum although the dtlocal directive is on", ev[4], "main-dt-local")
        # new Qn time = T + m
        if not _lin_eq(qn_end.time, Lin.sym("T") + m, cons):
            bad("DRV-COUNT", "after the iteration Qn.time = %r, expected T + min(dtloc)" % (qn_end.time,), ln0, "qn-time")
        # ---- side steps
        for ev in side:
            n_side += 1
            dtv = ev[2]
            if ev[8]:
                bad("DRV-CALLER-PURE", "a step is applied to the caller's field", ev[4], "step-caller")
            if ev[6] != 0 or ev[7] != (qn0, 0):
                bad("DRV-SNAPSHOT", "snapshot side step starts from an object that is not a fresh copy of self.Qn (copy_of=%s, %d earlier steps)" % (ev[7], ev[6]), ev[4], "side-notfresh")
            if dtv[0] != "scalar":
                bad("DRV-SIDESTEP-BOUNDS", "snapshot side step uses a time-step array", ev[4], "side-array")
                continue
            d = dtv[1]
            if not entails(cons, Con(d, ">=")):
                bad("DRV-SIDESTEP-BOUNDS", "snapshot side step of length %r can be NEGATIVE (backward step from a later state) on a feasible path" % (d,), ev[4], "side-negative")
            elif not entails(cons, Con(d, ">")):
                bad("DRV-ZERO-DIV", "snapshot side step of length %r can be exactly 0: step -> solve_implicit divides by dtloc (NaN snapshot for implicit integrators)" % (d,), ev[4], "side-zero")
            if not entails(cons, Con(m - d, ">=")):
                bad("DRV-SIDESTEP-BOUNDS", "snapshot side step of length %r can exceed one CFL step min(dtloc)" % (d,), ev[4], "side-long")
        # ---- snapshots appended in this iteration
        apps = [ev for ev in e.events if ev[0] == "append"]
        snaps = []
        for ev in apps:
            snap = ev[2]
            if snap is None:
                bad("DRV-SNAPSHOT", "a non-field object is appended to the results", ev[3], "append-nonfield")
                continue
            if snap["id"] == qn_end.id:
                continue       # end-of-run state, see epilogue rules
            snaps.append(ev)
        for k, ev in enumerate(snaps):
            n_snap += 1
            snap, shot = ev[2], ev[4]
            isv = shot["isave"]
            if not (isinstance(isv, Lin) and isv == i0 + k):
                bad("DRV-SNAPSHOT", "snapshot %d of the iteration is taken with isave = %r (expected isave+%d): save index not advanced once per snapshot" % (k, isv, k), ev[3], "isave-step")
                continue
            if snap["caller"]:
                bad("DRV-CALLER-PURE", "the caller's field itself is appended to the results", ev[3], "append-caller")
            if snap["id"] == qn0:
                bad("DRV-SNAPSHOT", "self.Qn itself (not a copy) is appended as a snapshot and keeps being stepped", ev[3], "append-alias")
            ts = e.fork()
            sv = _tsave_at(ts, isv)
            if not _lin_eq(snap["time"], sv, ts.cons):
                bad("DRV-SNAPSHOT", "snapshot is stamped with time %r, not the requested tsave[isave]" % (snap["time"],), ev[3], "snap-time")
            want_it = shot["itstart"] + shot["nit"] if isinstance(shot["itstart"], Lin) and isinstance(shot["nit"], Lin) else None
            if not _lin_eq(snap["it"], want_it, cons):
                bad("DRV-IT-STAMP", "snapshot carries it = %r, expected itstart + nit" % (snap["it"],), ev[3], "snap-it")
            if len(snap["steps"]) > 1:
                bad("DRV-SNAPSHOT", "snapshot object was stepped %d times" % len(snap["steps"]), ev[3], "snap-steps")
        isave_end = e.env.get(drv.isave_name)
        if not (isinstance(isave_end, Lin) and isave_end == i0 + len(snaps)):
            bad("DRV-SNAPSHOT", "isave advances by %r over an iteration that appended %d snapshots" % ((isave_end - i0) if isinstance(isave_end, Lin) else isave_end, len(snaps)), ln0, "isave-count")
        # ---- counters and ordering
        nit_end = e.attrs.get("_nit")
        if not (isinstance(nit_end, Lin) and nit_end == n0 + 1):
            bad("DRV-COUNT", "_nit changes by %r per iteration (expected exactly +1)" % ((nit_end - n0) if isinstance(nit_end, Lin) else nit_end), ln0, "nit")
        ces = [ev for ev in e.events if ev[0] == "check_end"]
        mons = [ev for ev in e.events if ev[0] == "monitors"]
        if len(ces) != 1:
            bad("DRV-STOP", "stop criteria evaluated %d times per iteration (expected once, after the step)" % len(ces), ln0, "check-count")
        for ev in ces + mons:
            shot = ev[3] if ev[0] == "check_end" else ev[2]
            lnn = ev[2] if ev[0] == "check_end" else ev[1]
            what = "the stop test" if ev[0] == "check_end" else "the monitors"
            if shot["qn_id"] != qn_end.id:
                bad("DRV-COUNT", "%s run before self.Qn is replaced by the stepped state" % what, lnn, "order-qn-" + ev[0])
            if not (isinstance(shot["nit"], Lin) and shot["nit"] == n0 + 1):
                bad("DRV-COUNT", "%s see _nit = %r (expected the incremented counter)" % (what, shot["nit"]), lnn, "order-nit-" + ev[0])
            if not _lin_eq(shot["time"], shot["qn_time"], cons):
                bad("DRV-COUNT", "%s see self._time = %r but Qn.time = %r" % (what, shot["time"], shot["qn_time"]), lnn, "order-time-" + ev[0])
        if ces and mons and not (e.events.index(mons[-1]) < e.events.index(ces[-1])):
            pass
        # loop flag is this iteration's stop test
        tested = None
        for s2, c in drv.evalf(drv.main_loop.test, e.fork(), fsolve):
            tested = c
        names = _cbool_names(tested)
        if ces and ces[-1][1] not in names:
            bad("DRV-STOP", "the loop condition does not test the stop criteria evaluated after this step", ln0, "loop-flag")
        # ---- completeness: every save time <= current time consumed when the stop test runs
        if not check_invariant(e, True, "iteration end", res, "DRV-SNAPSHOT", drv.isave_name):
            bad("DRV-SNAPSHOT", "after an iteration a save time <= the new Qn.time can remain unconsumed: it is dropped when the run stops, or reached later by a backward side step (case %s)" % e.meta_case, ln0, "inv-iteration")
        # Qn.it stamp
        want = e.attrs["_itstart"] + nit_end if isinstance(e.attrs.get("_itstart"), Lin) and isinstance(nit_end, Lin) else None
        if not _lin_eq(qn_end.it, want, cons):
            bad("DRV-IT-STAMP", "self.Qn.it = %r after the iteration, expected itstart + nit: the field returned at the end of a run carries a stale iteration tag" % (qn_end.it,), ln0, "qn-it")
        # caller untouched
        for ev in e.events:
            if ev[0] == "caller-mutated":
                bad("DRV-CALLER-PURE", "the caller's field attribute %s is modified" % ev[1], ev[2], "caller-mutated")
    if not any(k[0] in ("DRV-SIDESTEP-BOUNDS",) for k in bad_once):
        res.ok("DRV-SIDESTEP-BOUNDS", "every snapshot side step has length in [0, min(dtloc)] on all %d paths (%d side steps examined)" % (len(ends), n_side))
    if not any(k[0] == "DRV-ZERO-DIV" for k in bad_once):
        res.ok("DRV-ZERO-DIV", "no side step of length 0 reaches step() (%d side steps examined)" % n_side)
    if not any(k[0] == "DRV-SNAPSHOT" for k in bad_once):
        res.ok("DRV-SNAPSHOT", "each snapshot is a fresh copy of Qn advanced to tsave[isave], appended once, isave += 1; the iteration re-establishes tsave[isave] > Qn.time (%d snapshots examined)" % n_snap)
    if not any(k[0] == "DRV-COUNT" for k in bad_once):
        res.ok("DRV-COUNT", "_nit += 1 once per iteration after the main step; _time := Qn.time before monitors and stop test")
    if not any(k[0] == "DRV-STOP" and k[1] in ("check-count", "loop-flag") for k in bad_once):
        res.ok("DRV-STOP", "stop criteria evaluated once after every step and tested by the loop")
    if not any(k[0] == "TS-FRESH-MAIN" for k in bad_once):
        res.ok("TS-FRESH-MAIN", "the main step receives a fresh copy of self.Qn on all %d paths; side-stepped copies only flow to the results" % len(ends))
    if not any(k[0] == "DRV-DT-MIN" for k in bad_once):
        res.ok("DRV-DT-MIN", "time step recomputed from self.Qn every iteration; global step = min over cells; main step gets the array iff dtlocal")
    if not any(k[0] == "DRV-IT-STAMP" for k in bad_once):
        res.ok("DRV-IT-STAMP", "snapshots and self.Qn carry it = itstart + nit")
    if not any(k[0] == "DRV-CALLER-PURE" and k[1] != "qn-alias" for k in bad_once):
        res.ok("DRV-CALLER-PURE", "no store through, and no step on, the caller's field in the loop")


def _cbool_names(c):
    from .driver import CNot, CAnd, COr
    out = set()
    if isinstance(c, CBool):
        out.add(c.name)
    elif isinstance(c, CNot):
        out |= _cbool_names(c.a)
    elif isinstance(c, (CAnd, COr)):
        out |= _cbool_names(c.a) | _cbool_names(c.b)
    return out


def _epilogue_rules(res, drv, fsolve, f, ends):
    """code after the loop: return value; the end-of-run append"""
    loop = drv.main_loop
    idx = fsolve.node.body.index(loop)
    tail = fsolve.node.body[idx + 1:]
    okret = True
    n = 0
    for e in ends[:40]:
        s = e.fork()
        outs = drv.block(tail, [s], fsolve)
        for o in outs:
            n += 1
            if o.done != "return" or not isinstance(o.retval, ListObj) or o.retval.name != "results":
                okret = False
    if okret and n:
        res.ok("DRV-SNAPSHOT", "_solve returns the result list on all %d epilogue paths" % n)
    else:
        res.bad("DRV-SNAPSHOT", "_solve does not return the result list on every path", fsolve.node.lineno, "return")
    # end-of-run append only when the stop test fired and nothing was saved
    for e in ends:
        for ev in e.events:
            if ev[0] == "append" and ev[2] is not None and ev[2]["id"] == e.attrs["Qn"].id:
                ce = [x for x in e.events if x[0] == "check_end"]
                if not ce or e.bools.get(ce[-1][1]) is not True:
                    res.bad("DRV-SNAPSHOT", "the current state is appended to the results although the run has not stopped", ev[3], "append-running")
                    return


class _CallerDict(dict):
    _caller_owned = True


def analyse_check_end(proj, res):
    """DRV-STOP for _check_end, decided over the ordering abstraction (minieval.py): the stop test touches
    the elapsed time and the iteration count only through comparisons with the limits, so its result is a
    function of (which criteria are present) x (time below / at / above its limit) x (count below / at /
    above its limit), and the function is evaluated on its syntax tree for every such combination.  It must
    be the disjunction of  _time >= tottime  and  _nit >= maxit  over the criteria present."""
    from .minieval import MiniEval, Ord, SelfRef
    cls = proj.cls("integration.timemodel")
    f = proj.resolve(cls, "_check_end")
    if f is None:
        raise AnalysisError("_check_end not found")
    if len(f.params) != 2:
        raise AnalysisError("_check_end does not take (self, stop)")
    crit = (("tottime", "_time", "time"), ("maxit", "_nit", "count"))
    names = {0: "<", 1: "==", 2: ">"}
    combos = [(), ("tottime",), ("maxit",), ("tottime", "maxit"), ("maxit", "tottime")]
    ncase, wrong, omega = 0, [], False
    for keys in combos:
        for rt in range(3):
            for rn in range(3):
                stop = _CallerDict()
                for k in keys:
                    fam = dict((c[0], c[2]) for c in crit)[k]
                    stop[k] = Ord(fam, 1)
                # _itstart: the iteration offset of a restarted run, a generic (arbitrarily large) count
                me = SelfRef(cls, {"_time": Ord("time", rt), "_nit": Ord("count", rn), "_itstart": Ord("count", (1, 0))})
                ev = MiniEval(proj)
                del Ord.omega_dependent[:]
                try:
                    got = ev.call(f, [me, stop])
                    got = ev.truth(got, f.node, f)
                except AnalysisError as e:
                    res.und("DRV-STOP", "_check_end could not be evaluated over the ordering abstraction (stop keys %s): %s" % (list(keys), e), f.node.lineno)
                    return
                want = ("tottime" in keys and rt >= 1) or ("maxit" in keys and rn >= 1)
                ncase += 1
                if got != want:
                    wrong.append((keys, rt, rn, got, want, bool(Ord.omega_dependent)))
                elif Ord.omega_dependent:
                    omega = True
    if not wrong and omega:
        res.und("DRV-STOP", "_check_end compares a quantity that includes the restart offset _itstart: outside the ordering abstraction", f.node.lineno)
        return
    if not wrong:
        res.ok("DRV-STOP", "_check_end evaluated over the ordering abstraction: on all %d combinations of (criteria present, _time <,==,> tottime, _nit <,==,> maxit) it returns exactly  (_time >= tottime) or (_nit >= maxit)  over the criteria present" % ncase, f.node.lineno)
        return
    # one report per criterion and kind of disagreement
    seen = set()
    for keys, rt, rn, got, want, om in wrong:
        if len(keys) == 1:
            k = keys[0]
            a = "_time" if k == "tottime" else "_nit"
            r = rt if k == "tottime" else rn
            key = "crit-%s-%s" % (a, names[r])
            text = "with stop = {%s}: self.%s %s %s  ->  _check_end returns %s, expected %s" % (k, a, names[r], k, got, want)
        else:
            key = "combine-%s" % ("+".join(sorted(keys)) or "empty")
            text = "with stop keys %s: _time %s tottime, _nit %s maxit  ->  _check_end returns %s, expected %s (the run stops at the first satisfied criterion)" % (list(keys), names[rt], names[rn], got, want)
            if any(w[0] and len(w[0]) == 1 for w in wrong):
                continue          # explained by a single-criterion report
        if key in seen:
            continue
        seen.add(key)
        if om:
            text += " on a restarted run whose iteration offset _itstart is large enough (the criterion counts the offset)"
        res.bad("DRV-STOP", text + (": the run does not stop at the first step that reaches the limit" if want else ": the run stops before the limit is reached"), f.node.lineno, key)


def _roles_in(v, seen=None):
    """the caller-argument roles a value is built from"""
    out = set()
    if isinstance(v, Opq):
        if v.name.split(".")[0].split("(")[0] in ROLE_NAMES or v.name == "cfl":
            out.add(v.name.split(".")[0].split("(")[0])
    elif isinstance(v, dict):
        for x in v.values():
            out |= _roles_in(x)
    elif isinstance(v, (list, tuple)):
        for x in v:
            out |= _roles_in(x)
    return out


def forwarded(res, name, fn, heads):
    """DRV-FORWARD: the dictionaries the caller gives to solve()/restart() reach the use the documentation gives them: `stop`
    -> the criteria _check_end tests, `monitors` -> the monitors _parse_monitors runs, `directives` -> the option switches.
    (two dictionaries exchanged in a positional call are type-correct, run, and silently ignore the caller's options)"""
    # (with stop=None only the default criterion is left: `stop` must arrive on SOME path and nothing else on any)
    if not any("stop" in _roles_in(e[4]) for h in heads for e in h.events if e[0] == "check_end"):
        res.bad("DRV-FORWARD", "%s: the criteria given to _check_end are never built from the caller's `stop` argument" % name, fn.node.lineno, name + "-stop")
        return False
    for h in heads:
        for e in h.events:
            if e[0] == "check_end":
                r = _roles_in(e[4])
                if isinstance(e[4], dict):
                    extra = [k for k, v in e[4].items() if not (k == "tottime" or (k.startswith("**") and isinstance(v, Opq) and v.name == "stop"))]
                    if extra:
                        res.bad("DRV-FORWARD", "%s: the criteria given to _check_end hold %s besides the last save time and the caller's `stop` entries: a criterion the caller did not ask for ends a run that needs longer before its last save time (the field list comes back short, without an error)" % (name, ", ".join(repr(k) for k in extra)), e[2], name + "-extra-criterion")
                        return False
                if isinstance(e[4], dict):
                    keys = list(e[4])
                    spread = [i for i, k in enumerate(keys) if k.startswith("**")]
                    if "tottime" in keys and spread and keys.index("tottime") > min(spread):
                        # the default is stored AFTER the caller's entries: it wins -- admissible only on the path where the caller
                        # has no such entry (a membership test, not a truthiness test: `tottime: 0` is an entry)
                        absent = any(k.startswith("tottime in ") and v is False for k, v in h.bools.items())
                        if not absent:
                            res.bad("DRV-FORWARD", "%s: the default stop time (the last save time) is stored over the caller's `stop` entries on a path that has not established that the caller gave no 'tottime' (a truthiness test -- `not stop.get('tottime')` -- takes a stop time of 0 for absent: the run goes on to the last save time)" % name, e[2], name + "-default-overrides")
                            return False
                if r - {"stop", "tsave"}:
                    res.bad("DRV-FORWARD", "%s: the criteria given to _check_end are built from %s, not from the caller's `stop` argument" % (name, sorted(r) or "no caller argument"), e[2], name + "-stop")
                    return False
            elif e[0] == "monitors":
                r = _roles_in(e[3])

                def _has_own(v):
                    if isinstance(v, Opq):
                        return v.name == "self.monitors"
                    if isinstance(v, dict):
                        return any(_has_own(x) for x in v.values())
                    if isinstance(v, (list, tuple)):
                        return any(_has_own(x) for x in v)
                    return False
                if "monitors" in r and not (r - {"monitors"}) and not _has_own(e[3]):
                    res.bad("DRV-FORWARD", "%s: the dictionary given to _parse_monitors holds the caller's `monitors` but NOT the monitors the solver was constructed with (self.monitors): `monitors or self.monitors` is one OR the other -- the constructor-level monitors record nothing in a run that is given call-level ones (the documented behaviour is the merge of both)" % name, e[1], name + "-own-monitors")
                    return False
                if "monitors" not in r or r - {"monitors"}:
                    res.bad("DRV-FORWARD", "%s: the dictionary given to _parse_monitors is built from %s, not from the caller's `monitors` argument (the caller's monitors never run; its run options are taken for monitors)" % (name, ["`%s`" % x for x in sorted(r)] or "no caller argument"), e[1], name + "-monitors")
                    return False
            elif e[0] == "self-mutated":
                r = _roles_in(e[4])
                if r:
                    res.bad("DRV-FORWARD", "%s: the caller's `%s` argument is merged INTO the solver's own `self.%s` (%s, line %d): what one call asks for stays in force for every later solve()/restart() of the object (a `dtlocal` given to a steady pre-computation makes the later time-accurate run use local time steps)" % (name, sorted(r)[0], e[1], e[2], e[3]), e[3], name + "-sticky-" + e[1])
                    return False
            elif e[0] == "switch":
                if e[1] in ROLE_NAMES and e[1] != "directives" and e[1] != "stop":
                    res.bad("DRV-FORWARD", "%s: the option switch %r is read from the caller's `%s` argument, not from `directives`" % (name, e[2], e[1]), e[3], name + "-switch")
                    return False
    return True


def analyse_entry_points(proj, res):
    """solve / restart: counters reset, itstart, delegation to _solve with the caller's arguments"""
    cls = proj.cls("integration.timemodel")
    for name in ("solve", "restart"):
        fn = proj.resolve(cls, name)
        if fn is None:
            raise AnalysisError("timemodel.%s not found" % name)
        drv = Driver(proj, cls)
        fsolve = proj.resolve(cls, "_solve")
        drv.main_loop = find_main_loop(fsolve)
        s = State()
        f = FieldObj("caller's initial field", Lin.sym("t_f"), Lin.sym("it_f"), caller=True)
        s.heap[f.id] = f
        s.attrs.update({"monitors": Opq("self.monitors"), "modeldisc": Opq("modeldisc"), "mesh": Opq("mesh"),
                        "_nit": Lin.sym("stale_nit"), "_itstart": Lin.sym("stale_itstart"), "_cputime": Opq("stale")})
        drv.isave_name = save_index_name(fsolve)
        s.env = {fn.params[0]: SelfRef()}
        s.env.update(bind_params(fn, f))
        outs = drv.block(fn.node.body, [s], fn)
        heads = [o for o in outs if o.done == "loophead"]
        if not heads:
            res.bad("DRV-RESET", "%s never reaches the main loop of _solve" % name, fn.node.lineno, name + "-noloop")
            continue
        okreset = True
        for h in heads:
            nit, its = h.attrs.get("_nit"), h.attrs.get("_itstart")
            if not (isinstance(nit, Lin) and nit.is_const() and nit.k == 0):
                res.bad("DRV-RESET", "%s does not reset the iteration counter (_nit = %r at the loop head)" % (name, nit), fn.node.lineno, name + "-nit")
                okreset = False
                break
            if name == "solve":
                if not (isinstance(its, Lin) and its.is_const() and its.k == 0):
                    res.bad("DRV-RESET", "solve starts numbering at %r, expected 0" % (its,), fn.node.lineno, "solve-itstart")
                    okreset = False
                    break
            else:
                mx = [e for e in h.events if e[0] == "max2"]
                good = False
                for e in mx:
                    a = e[2]
                    if isinstance(its, Lin) and its == Lin.sym(e[1]) and any(x == Lin.sym("it_f") for x in a) and any(x.is_const() and x.k == 0 for x in a):
                        good = True
                if not good:
                    res.bad("DRV-RESET", "restart starts numbering at %r, expected max(f.it, 0)" % (its,), fn.node.lineno, "restart-itstart")
                    okreset = False
                    break
            qn = h.attrs.get("Qn")
            root = qn
            hops = 0
            while isinstance(root, FieldObj) and root.copy_of is not None and root.copy_of[1] == 0 and root.id != f.id and hops < 8:
                root = h.heap.get(root.copy_of[0])          # a copy of a copy of ... the caller's field, none of them advanced
                hops += 1
            if not (isinstance(qn, FieldObj) and isinstance(root, FieldObj) and root.id == f.id and hops >= 1):
                res.bad("DRV-CALLER-PURE", "%s does not hand the caller's field to _solve" % name, fn.node.lineno, name + "-field")
                okreset = False
                break
            if not (isinstance(qn.time, Lin) and qn.time == Lin.sym("t_f")):
                res.bad("DRV-RESET", "%s starts the run at time %r, not at the time of the field it is given: a field that carries a time (the result of an earlier run) is advanced over the wrong interval and stamped as if it had covered the right one" % (name, qn.time), fn.node.lineno, name + "-time")
                okreset = False
                break
            cfl = [e for e in h.events if e[0] == "setattr" and e[1] == "condition"]
            if not cfl or not (isinstance(cfl[-1][2], Opq) and cfl[-1][2].name == "cfl"):
                res.bad("DRV-RESET", "%s does not pass its CFL argument to _solve" % name, fn.node.lineno, name + "-cfl")
                okreset = False
                break
        if okreset:
            okreset = forwarded(res, name, fn, heads)
            if okreset:
                res.ok("DRV-FORWARD", "%s: `stop` reaches _check_end (with the last save time as only addition), `monitors` reaches _parse_monitors, the option switches are read from this call's `directives`; nothing of the call is merged into the solver's own containers" % name)
        if okreset:
            res.ok("DRV-RESET", "%s resets _nit := 0, _itstart := %s and delegates to _solve with the caller's field, CFL, save times" % (name, "0" if name == "solve" else "max(f.it, 0)"))
