"""AFF — abstract interpretation of the integrators' `step` methods in an affine domain.

The statements of `step`, `add_res`, `calcrhs`, `solve_implicit`, `check`, `__init__` are
interpreted with Python's object semantics (object identity, aliasing, in-place operators)
over abstract values:

  S        scalar  c(dt) = sum_k c_k dt^k  with the provenance of dt (the step argument
           itself, its np.min, its np.max)
  AArr     array   = linear form over the basis  Q0[q], K_j[q] (j-th calcrhs call),
           X_n[q] (n-th linear solve), L[q] (stored previous increment), coefficients S
  AField   field   (time = t + S, data = [AArr]*neq)   copy() is deep (FIELD-DEEPCOPY, C07)
  Op       matrix  a(dt)*I + b*J
  Packed   packed vector with the interleaved layout  v[q::neq]

Every `calcrhs(f)` is recorded with the abstract field it was evaluated at, every
`calc_jacobian(f)` likewise, every linear solve with (matrix, right-hand side).  Loops run
over the literal tableaux of the concrete class, so they are unrolled exactly.  Anything
outside the supported subset raises AnalysisError (exit 2)."""
import ast
from fractions import Fraction

from .project import AnalysisError, const_eval, frac_of_constant, unparse

NEQ = 2   # two symbolic equations: per-equation index mistakes show up as mixed components


# ----------------------------------------------------------------------------- scalars
def _padd(a, b, s=1):
    r = dict(a)
    for k, c in b.items():
        v = r.get(k, 0) + s * c
        if v == 0:
            r.pop(k, None)
        else:
            r[k] = v
    return r


def _pmul(a, b):
    r = {}
    for k1, c1 in a.items():
        for k2, c2 in b.items():
            v = r.get(k1 + k2, 0) + c1 * c2
            if v == 0:
                r.pop(k1 + k2, None)
            else:
                r[k1 + k2] = v
    return r


class S:
    """scalar polynomial in dt with provenance kinds of the dt occurrences"""
    vec = None      # None: scalar / per-cell value ; "row": 1-D array over the packed unknowns (numpy broadcasts
                    # it along the last axis of a matrix: COLUMN scaling) ; "col": the same with [:, None] (ROW scaling)

    tiled = False   # a per-cell array expanded to the unknowns with np.tile (variable-major) instead of np.repeat
                    # (cell-major, the layout of the packed vectors): each cell then gets other cells' values

    def __init__(self, poly, kinds=frozenset(), vec=None, tiled=False):
        self.poly = {k: Fraction(c) for k, c in poly.items() if c != 0}
        self.kinds = frozenset(kinds)
        if vec is not None:
            self.vec = vec
        if tiled:
            self.tiled = True

    def as_vec(self, vec, tiled=None):
        return S(self.poly, self.kinds, vec, self.tiled if tiled is None else tiled)

    @staticmethod
    def lift(v):
        if isinstance(v, S):
            return v
        if isinstance(v, (int, Fraction)) and not isinstance(v, bool):
            return S({0: Fraction(v)})
        raise AnalysisError("expected a scalar, got %s" % type(v).__name__)

    def is_const(self):
        return all(k == 0 for k in self.poly)

    def const(self):
        return self.poly.get(0, Fraction(0))

    def __add__(self, o):
        o = S.lift(o)
        return S(_padd(self.poly, o.poly), self.kinds | o.kinds)

    __radd__ = __add__

    def __sub__(self, o):
        o = S.lift(o)
        return S(_padd(self.poly, o.poly, -1), self.kinds | o.kinds)

    def __rsub__(self, o):
        return S.lift(o) - self

    def __neg__(self):
        return S({k: -c for k, c in self.poly.items()}, self.kinds)

    def __mul__(self, o):
        if isinstance(o, (AArr, Op, Packed, JacMat)):
            return o.__rmul__(self)
        o = S.lift(o)
        return S(_pmul(self.poly, o.poly), self.kinds | o.kinds, self.vec or o.vec, self.tiled or o.tiled)

    __rmul__ = __mul__

    def __truediv__(self, o):
        o = S.lift(o)
        if len(o.poly) != 1:
            raise AnalysisError("division by a non-monomial scalar")
        (k, c), = o.poly.items()
        return S({a - k: b / c for a, b in self.poly.items()}, self.kinds | o.kinds, self.vec or o.vec, self.tiled or o.tiled)

    def __rtruediv__(self, o):
        return S.lift(o) / self

    def __eq__(self, o):
        if isinstance(o, (int, Fraction, S)):
            return self.poly == S.lift(o).poly
        return NotImplemented

    def __ne__(self, o):
        r = self.__eq__(o)
        return r if r is NotImplemented else not r

    def __hash__(self):
        return hash(tuple(sorted(self.poly.items())))

    def __repr__(self):
        if not self.poly:
            return "0"
        out = []
        for k in sorted(self.poly):
            c = self.poly[k]
            out.append("%s" % c if k == 0 else ("%s*dt" % c if k == 1 else "%s*dt^%d" % (c, k)))
        s = " + ".join(out)
        if self.kinds:
            s += "{%s}" % ",".join(sorted(self.kinds))
        return s


def _sc(v):
    """python number / S -> S"""
    return S.lift(v)


# ----------------------------------------------------------------------------- arrays
class AArr:
    """array = linear form over basis symbols; mutable, has identity"""
    def __init__(self, form=None, kinds=frozenset()):
        self.form = dict(form or {})     # basis -> dt-poly dict
        self.kinds = frozenset(kinds)

    def copy(self):
        return AArr({b: dict(p) for b, p in self.form.items()}, self.kinds)

    def _lin(self, o, s):
        if isinstance(o, AArr):
            r = {b: dict(p) for b, p in self.form.items()}
            for b, p in o.form.items():
                q = _padd(r.get(b, {}), p, s)
                if q:
                    r[b] = q
                else:
                    r.pop(b, None)
            return r, self.kinds | o.kinds
        if isinstance(o, (int, Fraction)) and o == 0:
            return {b: dict(p) for b, p in self.form.items()}, self.kinds
        raise AnalysisError("array combined with a non-array (%s)" % type(o).__name__)

    def __add__(self, o):
        f, k = self._lin(o, 1)
        return AArr(f, k)

    __radd__ = __add__

    def __sub__(self, o):
        f, k = self._lin(o, -1)
        return AArr(f, k)

    def __rsub__(self, o):
        return (-self).__add__(o)

    def __neg__(self):
        return AArr({b: {k: -c for k, c in p.items()} for b, p in self.form.items()}, self.kinds)

    def __iadd__(self, o):
        self.form, self.kinds = self._lin(o, 1)
        return self

    def __isub__(self, o):
        self.form, self.kinds = self._lin(o, -1)
        return self

    def _scale(self, s):
        s = S.lift(s)
        f = {}
        for b, p in self.form.items():
            q = _pmul(p, s.poly)
            if q:
                f[b] = q
        return f, self.kinds | s.kinds

    def __mul__(self, o):
        if isinstance(o, AArr):
            raise AnalysisError("product of two arrays in an integrator (non-linear)")
        f, k = self._scale(o)
        return AArr(f, k)

    __rmul__ = __mul__

    def __imul__(self, o):
        self.form, self.kinds = self._scale(o)
        return self

    def __truediv__(self, o):
        if isinstance(o, EpsVal):
            return FDQuot(self, o)
        f, k = self._scale(1 / S.lift(o))
        return AArr(f, k)

    def __itruediv__(self, o):
        self.form, self.kinds = self._scale(1 / S.lift(o))
        return self

    def __repr__(self):
        return " + ".join("%s*%s" % (S(p), "_".join(map(str, b))) for b, p in sorted(self.form.items(), key=lambda kv: str(kv[0]))) or "0"


class TimeVal:
    """t0 + S"""
    def __init__(self, s=None):
        self.s = s if s is not None else S({})

    def __iadd__(self, o):
        return TimeVal(self.s + S.lift(o))

    def __add__(self, o):
        return TimeVal(self.s + S.lift(o))

    __radd__ = __add__

    def __repr__(self):
        return "t0 + %r" % self.s


class AModel:
    def __init__(self):
        self.islinear = Sym("islinear")
        self.neq = NEQ
        self.shape = [1] * NEQ


class Sym:
    """opaque symbolic scalar (e.g. model.islinear); comparisons yield Cond"""
    def __init__(self, name):
        self.name = name

    def __mul__(self, o):
        return Sym("(%s*%s)" % (self.name, o))

    __rmul__ = __mul__

    def __eq__(self, o):
        return Cond("%s == %r" % (self.name, o))

    def __hash__(self):
        return hash(self.name)

    def __repr__(self):
        return self.name


class Cond:
    def __init__(self, text):
        self.text = text


class AField:
    def __init__(self, data, time=None, it=-1, model=None):
        self.data = data
        self.time = time if time is not None else TimeVal()
        self.it = it
        self.model = model or AModel()
        self.neq = NEQ
        self.nelem = Sym("nelem")
        self.mesh = Opaque("mesh")

    @staticmethod
    def initial():
        return AField([AArr({("Q0", q): {0: Fraction(1)}}) for q in range(NEQ)])

    def copy(self):
        return AField([d.copy() for d in self.data], TimeVal(self.time.s), self.it, self.model)

    def set(self, f):
        self.data = [d.copy() for d in f.data]
        self.time = TimeVal(f.time.s)
        self.it = f.it


class Opaque:
    def __init__(self, name):
        self.name = name

    def __repr__(self):
        return "<%s>" % self.name


class Op:
    """matrix  sum_k c_k D^k  +  b * D^rowp J D^colp   with D = diag(dt) (dt scalar or one value per
    cell): the identity part commutes with D, the Jacobian part does not for a local-time-step array"""
    tiled = False

    def __init__(self, ident=None, jac=None, jtag=None, rowp=0, colp=0):
        self.ident = dict(ident or {})    # dt-poly
        self.jac = Fraction(jac or 0)
        self.jtag = jtag
        self.rowp, self.colp = rowp, colp

    def _t(self, *others):
        if self.tiled or any(getattr(o, "tiled", False) for o in others):
            self.tiled = True
        return self

    def _same_scaling(self, o):
        if self.jac and o.jac and (self.rowp, self.colp) != (o.rowp, o.colp):
            raise AnalysisError("sum of Jacobian terms with different dt scalings")
        a = self if self.jac else o
        return a.rowp, a.colp

    def __add__(self, o):
        if isinstance(o, Op):
            r, c = self._same_scaling(o)
            return Op(_padd(self.ident, o.ident), self.jac + o.jac, self.jtag if self.jtag is not None else o.jtag, r, c)._t(self, o)
        raise AnalysisError("matrix + non-matrix")

    def __sub__(self, o):
        if isinstance(o, Op):
            r, c = self._same_scaling(o)
            return Op(_padd(self.ident, o.ident, -1), self.jac - o.jac, self.jtag if self.jtag is not None else o.jtag, r, c)._t(self, o)
        raise AnalysisError("matrix - non-matrix")

    def __neg__(self):
        return Op({k: -c for k, c in self.ident.items()}, -self.jac, self.jtag, self.rowp, self.colp)._t(self)

    def __rmul__(self, s):
        s = S.lift(s)
        if not self.jac or s.is_const():
            return Op(_pmul(self.ident, s.poly), self.jac * s.const() if s.is_const() else 0, self.jtag, self.rowp, self.colp)._t(self, s)
        if len(s.poly) != 1:
            raise AnalysisError("Jacobian scaled by a non-monomial dt-dependent factor")
        (k, c), = s.poly.items()
        if s.vec == "col":
            return Op(_pmul(self.ident, s.poly), self.jac * c, self.jtag, self.rowp + k, self.colp)._t(self, s)
        if s.vec == "row":
            return Op(_pmul(self.ident, s.poly), self.jac * c, self.jtag, self.rowp, self.colp + k)._t(self, s)
        raise AnalysisError("Jacobian scaled by a dt-dependent factor that is not an array over the unknowns")

    __mul__ = __rmul__

    def __repr__(self):
        return "(%r)*I + (%s)*D^%d J D^%d" % (S(self.ident), self.jac, self.rowp, self.colp)


class Packed:
    """packed vector with interleaved layout: slot q == v[q::neq]"""
    def __init__(self):
        self.slots = {q: AArr() for q in range(NEQ)}

    cols = False

    def __rmul__(self, s):
        p = Packed()
        p.slots = {q: a * s for q, a in self.slots.items()}
        return p

    __mul__ = __rmul__

    def __truediv__(self, s):
        p = Packed()
        p.slots = {q: a / s for q, a in self.slots.items()}
        return p

    def reshape(self, *shape):
        """v.reshape(-1, neq): a VIEW with one column per variable, column q == v[q::neq]"""
        if len(shape) == 1 and isinstance(shape[0], tuple):
            shape = shape[0]
        if tuple(shape) != (-1, NEQ):
            raise AnalysisError("packed vector reshaped to %r: not the (cells, variables) table" % (shape,))
        v = Packed()
        v.slots = self.slots          # shared: a view
        v.cols = True
        return v


class Idx:
    """symbolic loop index (for i in range(nelem)) with affine arithmetic a*i + b (+ sym: a
    symbolic offset such as q*nelem, kept as text: a variable-major position)"""
    def __init__(self, name, a=1, b=0, sym=""):
        self.name, self.a, self.b, self.sym = name, a, b, sym

    def __mul__(self, o):
        if isinstance(o, int) and not self.sym:
            return Idx(self.name, self.a * o, self.b * o)
        raise AnalysisError("non-affine index arithmetic")

    __rmul__ = __mul__

    def __add__(self, o):
        if isinstance(o, int):
            return Idx(self.name, self.a, self.b + o, self.sym)
        if isinstance(o, Sym):
            return Idx(self.name, self.a, self.b, (self.sym + " + " if self.sym else "") + o.name)
        raise AnalysisError("non-affine index arithmetic")

    __radd__ = __add__

    def __sub__(self, o):
        if isinstance(o, int):
            return Idx(self.name, self.a, self.b - o, self.sym)
        raise AnalysisError("non-affine index arithmetic")

    def __repr__(self):
        return "%d*%s+%d%s" % (self.a, self.name, self.b, (" + " + self.sym) if self.sym else "")


class IdxClamp:
    """index expression clamped with min/max (a band around the loop cell): absorbing"""
    def __init__(self, text="clamp"):
        self.text = text

    def _same(self, o):
        return IdxClamp(self.text)

    __add__ = __radd__ = __sub__ = __rsub__ = __mul__ = __rmul__ = _same


class PartArr:
    """part of an array selected by a cell-dependent slice"""
    def __init__(self, arr):
        self.arr = arr

    def __sub__(self, o):
        if isinstance(o, PartArr):
            return PartArr(self.arr - o.arr)
        raise AnalysisError("partial array combined with a full array")

    def __truediv__(self, o):
        if isinstance(o, EpsVal):
            q = FDQuot(self.arr, o)
            q.partial = True
            return q
        raise AnalysisError("unsupported operation on a partial array")


class SymRange:
    def __init__(self, name):
        self.name = name


class DataScale:
    """np.sum(np.abs(q)) of data component q (and the same divided by nelem)"""
    def __init__(self, comp, per_cell=False, absval=True):
        self.comp, self.per_cell, self.absval = comp, per_cell, absval


class EpsVal:
    """finite-difference step: rel * max(mean|data[comp]|, floor)   (floor None: no floor)"""
    def __init__(self, rel, comp, per_cell, absval=True, floor=None):
        self.rel, self.comp, self.per_cell, self.absval = Fraction(rel), comp, per_cell, absval
        self.floor = floor

    def with_floor(self, c):
        c = Fraction(c)
        if self.floor is not None:
            c = max(c, self.floor)
        return EpsVal(self.rel, self.comp, self.per_cell, self.absval, c)

    def __mul__(self, o):
        if isinstance(o, S) and o.is_const():
            o = o.const()
        if isinstance(o, (int, Fraction)):
            # rel*max(m, floor) * o  ==  (rel*o) * max(m, floor)
            return EpsVal(self.rel * o, self.comp, self.per_cell, self.absval, self.floor)
        raise AnalysisError("perturbation scaled by a non-constant")

    __rmul__ = __mul__

    def __truediv__(self, o):
        if isinstance(o, Sym) and o.name == "nelem" and not self.per_cell:
            if self.floor is not None:
                raise AnalysisError("perturbation floor applied before the division by the cell count")
            return EpsVal(self.rel, self.comp, True, self.absval)
        if isinstance(o, (int, Fraction)):
            return EpsVal(self.rel / o, self.comp, self.per_cell, self.absval, self.floor)
        raise AnalysisError("perturbation divided by an unsupported value")

    def __repr__(self):
        core = "%s|data[%d]|" % ("mean" if self.per_cell else "sum", self.comp)
        if self.floor is not None:
            core = "max(%s, %s)" % (core, float(self.floor))
        return "%s*%s" % (float(self.rel), core)


class Elem:
    """element arr[idx] (+ perturbation)"""
    def __init__(self, arr, idx, pert=None):
        self.arr, self.idx, self.pert = arr, idx, pert

    def __add__(self, o):
        if isinstance(o, EpsVal) and self.pert is None:
            return Elem(self.arr, self.idx, o)
        if isinstance(o, (int, Fraction)) and not isinstance(o, bool) and o != 0 and self.pert is None:
            e = EpsVal(o, -1, False, False)        # an ABSOLUTE perturbation (a literal), not relative to the data
            e.absolute = True
            return Elem(self.arr, self.idx, e)
        raise AnalysisError("unsupported element arithmetic")

    __radd__ = __add__
    __iadd__ = __add__


class FDQuot:
    """(array difference) / eps"""
    partial = False

    def __init__(self, arr, eps):
        self.arr, self.eps = arr, eps


class JacMat:
    def __init__(self):
        self.stores = []     # (row index, col index, value)

    def __rmul__(self, s):
        return Op({}, 1, -1).__rmul__(s)

    __mul__ = __rmul__


class ASelf:
    def __init__(self, cls):
        self.cls = cls
        self.attrs = {}


class BoundMethod:
    def __init__(self, selfobj, func):
        self.selfobj = selfobj
        self.func = func


class ClassRef:
    def __init__(self, ci):
        self.ci = ci


class NpRef:
    def __init__(self, name):
        self.name = name


class CArr:
    """constant numeric array (tableau row); mutable via item assignment"""
    def __init__(self, vals):
        self.vals = list(vals)

    @property
    def size(self):
        return len(self.vals)

    def __len__(self):
        return len(self.vals)

    def __iter__(self):
        return iter(self.vals)


class _Return(Exception):
    def __init__(self, v):
        self.value = v


class _Continue(Exception):
    pass


class _BreakLoop(Exception):
    pass


class CellWeight:
    """a per-cell array of the mesh (cell volumes ...) expanded to the packed unknowns; vec: 'row' = 1-D (numpy broadcasts it along
    the last axis of a matrix: column scaling), 'col' = with [:, None] (row scaling)"""
    def __init__(self, name, vec):
        self.name, self.vec = name, vec


class DataCond:
    """a condition on the VALUES of the data (np.any(residual), a norm compared with a tolerance ...): true for
    some inputs, false for others.  Its outcome is taken from the run's data policy; run_step explores every
    outcome vector and requires that all paths that return give the same abstract result"""
    def __init__(self, text):
        self.text = text


class _NeedPolicy(Exception):
    pass


class VarMajor:
    """per-equation arrays laid end to end (np.ravel / concatenate of the list): variable-major order"""
    def __init__(self, arrs, where):
        self.arrs, self.where = arrs, where

    def _scaled(self, o):
        return VarMajor(self.arrs, self.where)
    __mul__ = __rmul__ = __truediv__ = _scaled

    def __neg__(self):
        return self


class DataVal:
    """a scalar computed from the values of the data (a reduction of an array, of the Jacobian ...): opaque"""
    def __init__(self, text):
        self.text = text

    def _op(self, o):
        return DataVal(self.text)
    __add__ = __radd__ = __sub__ = __rsub__ = __mul__ = __rmul__ = __truediv__ = __rtruediv__ = _op

    def __neg__(self):
        return self

    def __abs__(self):
        return self


class DataDependentStep(AnalysisError):
    """the effect of a step depends on a condition on the data (a shortcut for special states)"""


class IdxCond:
    """condition on the generic loop index (i > 0, i == 0 ...): true for some iterations, false for
    others -- both outcomes are explored by re-running the generic iteration"""
    def __init__(self, text):
        self.text = text

    def __repr__(self):
        return "<%s>" % self.text


class ColCopy:
    """Jacobian columns filled by copying (np.roll / slicing) other columns of the matrix"""
    def __init__(self, how, path):
        self.how, self.path = how, path


class Trace:
    def __init__(self):
        self.K = []       # (time S of field, {q: AArr copy} data of field, loc)
        self.J = []       # (data forms of field, typestate note)
        self.solves = []  # (Op, {q: AArr} rhs)
        self.notes = []


class AffInterp:
    def __init__(self, project, cls):
        self.p = project
        self.cls = cls
        self.trace = Trace()
        self.selfobj = ASelf(cls)
        self.depth = 0
        self.inline_jacobian = False
        self.effects = None      # when a dict: {'written': set, 'carried': [(attr, where)]}
        self._mod_const_busy = set()

    # ------------------------------------------------------------------ construction
    def construct(self):
        init = self.p.resolve(self.cls, "__init__")
        if init is None:
            raise AnalysisError("no __init__ for %s" % self.cls.qualname)
        self.call(init, [self.selfobj, Opaque("mesh"), Opaque("modeldisc")], {})
        return self.selfobj

    def step(self, field, dt):
        f = self.p.resolve(self.cls, "step")
        if f is None:
            raise AnalysisError("no step for %s" % self.cls.qualname)
        return self.call(f, [self.selfobj, field, dt], {})

    # ------------------------------------------------------------------ calls
    def call(self, func, args, kwargs):
        if func.opaque_decorators:
            raise AnalysisError("%s is decorated with @%s: calling it is not calling its body (not modelled)" % (func.qualname, ", @".join(func.opaque_decorators)))
        self.depth += 1
        if self.depth > 12:
            raise AnalysisError("call depth exceeded in %s" % func.qualname)
        try:
            # summaries
            if func.name == "calc_jacobian" and func.cls is not None and not self.inline_jacobian:
                return self.summary_calc_jacobian(func, args)
            env = {}
            params = func.params
            defaults = func.defaults()
            for n, a in zip(params, args):
                env[n] = a
            for n in params[len(args):]:
                if n in kwargs:
                    env[n] = kwargs[n]
                elif n in defaults:
                    env[n] = self.eval(defaults[n], {}, func)
                else:
                    raise AnalysisError("missing argument %s in call of %s" % (n, func.qualname))
            for k in kwargs:
                if k not in params:
                    raise AnalysisError("unexpected keyword %s for %s" % (k, func.qualname))
            try:
                self.block(func.node.body, env, func)
            except _Return as r:
                return r.value
            return None
        finally:
            self.depth -= 1

    def summary_calc_jacobian(self, func, args):
        so, field = args[0], args[1]
        # the cache guard is analysed structurally by JAC-GUARD (C06); here: J := dR/dQ(field)
        self.trace.J.append(({q: field.data[q].copy() for q in range(NEQ)}, "has jacobian_use" if "jacobian_use" in so.attrs else "fresh"))
        so.attrs["jacobian"] = Op({}, 1, len(self.trace.J) - 1)
        so.attrs["jacobian_use"] = 0
        so.attrs["neq"] = NEQ
        so.attrs["dim"] = Sym("dim")
        # calc_jacobian leaves self.residual clobbered by its last calcrhs
        so.attrs["residual"] = [AArr({("CLOBBER", q): {0: Fraction(1)}}) for q in range(NEQ)]
        return so.attrs["jacobian"]

    # ------------------------------------------------------------------ statements
    def block(self, stmts, env, func):
        for st in stmts:
            self.stmt(st, env, func)

    def stmt(self, st, env, func):
        if isinstance(st, ast.Expr):
            if isinstance(st.value, ast.Constant):
                return
            self.eval(st.value, env, func)
        elif isinstance(st, ast.Assign):
            v = self.eval(st.value, env, func)
            for t in st.targets:
                self.assign(t, v, env, func)
        elif isinstance(st, ast.AugAssign):
            self.augassign(st, env, func)
        elif isinstance(st, ast.Return):
            raise _Return(self.eval(st.value, env, func) if st.value is not None else None)
        elif isinstance(st, ast.Pass):
            return
        elif isinstance(st, ast.If):
            tv = self.eval(st.test, env, func)
            if isinstance(tv, IdxCond):
                c = self._idx_choice(tv, st, func)
            else:
                c = self.truth(tv, st, func)
            self.block(st.body if c else st.orelse, env, func)
        elif isinstance(st, ast.Continue):
            raise _Continue()
        elif isinstance(st, ast.For):
            it = self.eval(st.iter, env, func)
            items = self.iterate(it, st, func)
            for x in items:
                if isinstance(x, Idx):
                    # generic iteration: conditions on the index are explored both ways
                    saved = (self._idx_policy, self._idx_used, self._idx_path)
                    pending = [[]]
                    runs = 0
                    while pending:
                        self._idx_policy, self._idx_used, self._idx_path = pending.pop(), [], []
                        runs += 1
                        if runs > 16:
                            raise AnalysisError("%s:%d too many index-dependent paths in a loop body" % (func.qualname, st.lineno))
                        self.assign(st.target, x, env, func)
                        try:
                            self.block(st.body, env, func)
                        except _Continue:
                            pass
                        for k in range(len(self._idx_policy), len(self._idx_used)):
                            pending.append(self._idx_used[:k] + [not self._idx_used[k]])
                    self._idx_policy, self._idx_used, self._idx_path = saved
                    continue
                self.assign(st.target, x, env, func)
                try:
                    self.block(st.body, env, func)
                except _Continue:
                    pass
                except _BreakLoop:
                    break          # over concrete items (tableau entries): python semantics
        elif isinstance(st, ast.Break):
            raise _BreakLoop()
        elif isinstance(st, ast.Raise):
            raise AnalysisError("%s:%d raise reached in abstract execution" % (func.qualname, st.lineno))
        else:
            raise AnalysisError("%s:%d unsupported statement %s" % (func.qualname, st.lineno, type(st).__name__))

    _idx_policy = None
    _idx_used = None
    _idx_path = None
    num_islinear = 0          # linearity of the reconstruction object of the abstract run
    rhs_owned = False         # C05 ("for every right-hand side"): providers may re-use their output buffers

    def _idx_choice(self, cond, st, func):
        if self._idx_used is None:
            raise AnalysisError("%s:%d branch on a loop index outside a generic iteration" % (func.qualname, st.lineno))
        k = len(self._idx_used)
        c = self._idx_policy[k] if k < len(self._idx_policy) else True
        self._idx_used.append(c)
        self._idx_path.append("%s is %s" % (cond.text, c))
        return c

    def iterate(self, it, st, func):
        if isinstance(it, (list, tuple, range)):
            return list(it)
        if isinstance(it, CArr):
            return list(it.vals)
        if isinstance(it, SymRange):
            return [Idx("i_" + it.name)]
        raise AnalysisError("%s:%d unsupported iterable" % (func.qualname, st.lineno))

    data_policy = None
    data_log = None

    def truth(self, v, st, func):
        if isinstance(v, bool):
            return v
        if isinstance(v, DataCond):
            if self.data_policy is None:
                raise AnalysisError("%s:%d branch on a data-dependent condition `%s`" % (func.qualname, getattr(st, "lineno", 0), v.text))
            # a test on the time-step ARGUMENT (scalar or array? all entries equal?) has one answer for the whole step
            memo = getattr(self, "_stable_conds", None)
            if memo is None:
                memo = self._stable_conds = {}
            if getattr(v, "stable", False) and v.text in memo:
                return memo[v.text]
            k = len(self.data_log)
            if k >= len(self.data_policy):
                raise _NeedPolicy()
            r = self.data_policy[k]
            if getattr(v, "stable", False):
                memo[v.text] = r
            self.data_log.append("%s:%d `%s` taken as %s" % (func.qualname, getattr(st, "lineno", 0), v.text[:60], r))
            if r and getattr(v, "all_equal", False):
                # (dt == min(dt)).all() holds: on this path the array and its reduction are the same values in every cell
                self.kinds_equal = True
            return r
        if v is None:
            return False
        if isinstance(v, (int, Fraction)):
            return v != 0
        if isinstance(v, S):
            if v.is_const():
                return v.const() != 0
        if isinstance(v, (list, dict, tuple)):
            return len(v) > 0
        raise AnalysisError("%s:%d branch on an abstract value %r" % (func.qualname, st.lineno, v))

    def assign(self, t, v, env, func):
        if isinstance(t, ast.Name):
            env[t.id] = v
        elif isinstance(t, (ast.Tuple, ast.List)):
            v = list(v)
            if len(v) != len(t.elts):
                raise AnalysisError("unpack mismatch")
            for a, b in zip(t.elts, v):
                self.assign(a, b, env, func)
        elif isinstance(t, ast.Attribute):
            o = self.eval(t.value, env, func)
            self.setattr(o, t.attr, v, func, t)
        elif isinstance(t, ast.Subscript):
            o = self.eval(t.value, env, func)
            idx = self.index(t.slice, env, func)
            self.setitem(o, idx, v, func, t)
        else:
            raise AnalysisError("unsupported assignment target")

    def setattr(self, o, name, v, func, node):
        if isinstance(o, ASelf):
            if self.effects is not None:
                self.effects["written"].add(name)
                self.effects["writes"].append((name, "%s:%d" % (func.qualname, node.lineno)))
            o.attrs[name] = v
        elif isinstance(o, AField) and name in ("time", "it", "data"):
            setattr(o, name, v)
        else:
            raise AnalysisError("%s:%d store to attribute .%s of %s" % (func.qualname, node.lineno, name, type(o).__name__))

    def setitem(self, o, idx, v, func, node):
        if isinstance(o, list) and isinstance(idx, int):
            o[idx] = v
        elif isinstance(o, CArr) and isinstance(idx, int):
            o.vals[idx] = v
        elif isinstance(o, Packed):
            q = self.slot(idx, func, node, o)
            if isinstance(v, AArr):
                o.slots[q] = v.copy()
            else:
                raise AnalysisError("%s:%d packed store of a non-array" % (func.qualname, node.lineno))
        elif isinstance(o, dict):
            o[idx] = v
        elif isinstance(o, tuple) and len(o) == 3 and o[0] == "jacview" and isinstance(o[1], tuple) and len(o[1]) == 2 and o[1][0] == slice(None, None, None) and isinstance(idx, slice):
            # column = J[:, c] (a view) ; column[rows] = v   ==   J[rows, c] = v
            self.setitem(o[2], (idx, o[1][1]), v, func, node)
        elif isinstance(o, AArr) and isinstance(idx, Idx) and isinstance(v, Elem) and v.arr is o and v.pert is not None:
            key = ("PERT", repr(idx), v.pert.comp, str(v.pert.rel), v.pert.per_cell, v.pert.absval)
            o.form[key] = _padd(o.form.get(key, {}), {0: Fraction(1)})
        elif isinstance(o, JacMat):
            if isinstance(v, tuple) and v and v[0] in ("jacview", "rolled"):
                v = ColCopy("np.roll of other columns" if v[0] == "rolled" else "a copy of other columns", "; ".join(self._idx_path or []))
            o.stores.append((idx, v, "%s:%d" % (func.qualname, node.lineno)))
        elif isinstance(o, AArr) and idx == slice(None, None, None) and isinstance(v, (int, Fraction)) and v == 0:
            o.form, o.kinds = {}, frozenset()            # arr[:] = 0 : the array object now holds zeros
        elif isinstance(o, AArr) and idx == slice(None, None, None) and isinstance(v, AArr):
            o.form, o.kinds = dict(v.form), v.kinds
        else:
            raise AnalysisError("%s:%d unsupported item store" % (func.qualname, node.lineno))

    def slot(self, idx, func, node, o=None):
        """interleaved layout v[q::neq] -> q   (table view v.reshape(-1, neq): [:, q] -> q)"""
        if getattr(o, "cols", False):
            if isinstance(idx, tuple) and len(idx) == 2 and idx[0] == slice(None, None, None) and isinstance(idx[1], int) and 0 <= idx[1] < NEQ:
                return idx[1]
            raise AnalysisError("%s:%d access to the (cells, variables) table is not a whole column [:, q]: %s" % (func.qualname, node.lineno, unparse(node)))
        if isinstance(idx, slice) and isinstance(idx.start, int) and idx.stop is None and idx.step == NEQ and 0 <= idx.start < NEQ:
            return idx.start
        raise AnalysisError("%s:%d packed-vector access is not the interleaved layout [q::neq]: %s" % (func.qualname, node.lineno, unparse(node)))

    def augassign(self, st, env, func):
        t = st.target
        rhs = self.eval(st.value, env, func)
        if isinstance(t, ast.Name):
            cur = env[t.id]
            env[t.id] = self.inplace(st.op, cur, rhs, func, st)
        elif isinstance(t, ast.Attribute):
            o = self.eval(t.value, env, func)
            cur = self.getattr(o, t.attr, func, t)
            self.setattr(o, t.attr, self.inplace(st.op, cur, rhs, func, st), func, t)
        elif isinstance(t, ast.Subscript):
            o = self.eval(t.value, env, func)
            idx = self.index(t.slice, env, func)
            if isinstance(o, Packed):
                q = self.slot(idx, func, t, o)
                o.slots[q] = self.inplace(st.op, o.slots[q], rhs, func, st)
                return
            cur = self.getitem(o, idx, func, t)
            self.setitem(o, idx, self.inplace(st.op, cur, rhs, func, st), func, t)
        else:
            raise AnalysisError("unsupported augmented assignment")

    def inplace(self, op, cur, rhs, func, st):
        if isinstance(cur, Packed) and isinstance(rhs, VarMajor) or isinstance(rhs, Packed) and isinstance(cur, VarMajor):
            vm = rhs if isinstance(rhs, VarMajor) else cur
            e = AnalysisError("%s:%d interleaved vector combined with a variable-major one" % (func.qualname, st.lineno))
            e.violation = ("LAYOUT-INTERLEAVE", func.qualname, "the packed vector of the linear system is interleaved (entry q + neq*i is variable q of cell i, as the stores [q::neq] say) but %s lays the per-equation arrays end to end (all cells of variable 0, then variable 1 ...): for neq > 1 every entry is added to the wrong unknown (scalar models are unaffected)" % vm.where,
                           "varmajor", {"C06", "C01", "C04", "C13", "C14"})
            raise e
        try:
            if isinstance(cur, AArr):
                if isinstance(op, ast.Add):
                    cur += rhs
                elif isinstance(op, ast.Sub):
                    cur -= rhs
                elif isinstance(op, ast.Mult):
                    cur *= rhs
                elif isinstance(op, ast.Div):
                    cur /= rhs
                else:
                    raise AnalysisError("unsupported in-place operator")
                return cur
            return self.binop(op, cur, rhs)
        except TypeError as e:
            raise AnalysisError("%s:%d unsupported in-place operation: %s" % (func.qualname, st.lineno, e))

    # ------------------------------------------------------------------ expressions
    def index(self, node, env, func):
        if isinstance(node, ast.Slice):
            return slice(self.eval(node.lower, env, func) if node.lower else None,
                         self.eval(node.upper, env, func) if node.upper else None,
                         self.eval(node.step, env, func) if node.step else None)
        if isinstance(node, ast.Tuple):
            return tuple(self.index(e, env, func) for e in node.elts)
        return self.eval(node, env, func)

    def eval(self, node, env, func):
        m = getattr(self, "e_" + type(node).__name__, None)
        if m is None:
            raise AnalysisError("%s:%d unsupported expression %s" % (func.qualname, getattr(node, "lineno", 0), type(node).__name__))
        return m(node, env, func)

    def e_Constant(self, node, env, func):
        v = node.value
        if isinstance(v, float):
            return frac_of_constant(v)
        return v

    def e_Name(self, node, env, func):
        if node.id in env:
            return env[node.id]
        mod = func.module
        if node.id in ("np", "math"):
            return NpRef("np")
        ci = self.p.resolve_class_expr(node, mod)
        if ci is not None:
            return ClassRef(ci)
        if node.id in ("hasattr", "getattr", "len", "range", "enumerate", "zip", "min", "max", "print", "isinstance", "abs", "float", "int", "any", "all", "reversed", "sum", "list", "tuple"):
            return NpRef("builtin." + node.id)
        if node.id in mod.imports or node.id in mod.from_imports:
            return Opaque(node.id)
        if node.id in mod.assigns:
            # module-level constant: its defining expression, when this evaluator can fold it
            expr = mod.assigns[node.id]
            if isinstance(expr, ast.expr) and node.id not in self._mod_const_busy:
                self._mod_const_busy.add(node.id)
                try:
                    v = self.eval(expr, {}, func)
                    if isinstance(v, (int, Fraction, S, EpsVal)):
                        return v
                except AnalysisError:
                    pass
                finally:
                    self._mod_const_busy.discard(node.id)
            return Opaque(node.id)
        raise AnalysisError("%s:%d unknown name %s" % (func.qualname, node.lineno, node.id))

    def getattr(self, o, a, func, node):
        if isinstance(o, ASelf):
            if a in o.attrs:
                if self.effects is not None and a not in self.effects["written"]:
                    self.effects["carried"].append((a, "%s:%d" % (func.qualname, node.lineno)))
                return o.attrs[a]
            c, expr = self.p.class_attr(o.cls, a)
            if expr is not None:
                try:
                    v = const_eval(expr, {})
                except AnalysisError:
                    raise AnalysisError("%s:%d class attribute %s is not a literal table" % (func.qualname, node.lineno, a))
                if isinstance(v, tuple) and v and isinstance(v[0], tuple):
                    return [CArr(r) for r in v]
                if isinstance(v, tuple):
                    return CArr(v)
                return v
            f = self.p.resolve(o.cls, a)
            if f is not None:
                if f.is_property:
                    return self.call(f, [o], {})
                return f if f.is_static else BoundMethod(o, f)
            if a == "__class__":
                return Opaque("class")
            raise AnalysisError("%s:%d self.%s read before assignment" % (func.qualname, node.lineno, a))
        if isinstance(o, AField):
            if a in ("data", "time", "it", "neq", "nelem", "model", "mesh"):
                return getattr(o, a)
            if a in ("copy", "set"):
                return getattr(o, a)
            raise AnalysisError("%s:%d field attribute .%s" % (func.qualname, node.lineno, a))
        if isinstance(o, AModel):
            return getattr(o, a)
        if isinstance(o, ClassRef):
            f = self.p.resolve(o.ci, a)
            if f is not None:
                return f
            raise AnalysisError("%s:%d %s.%s not found" % (func.qualname, node.lineno, o.ci.name, a))
        if isinstance(o, NpRef):
            return NpRef(o.name + "." + a)
        if isinstance(o, AArr) and a == "copy":
            return o.copy
        if isinstance(o, Packed) and a == "reshape":
            return o.reshape
        if isinstance(o, (DataVal, JacMat, Op)) and a in ("max", "min", "mean", "sum", "std"):
            return lambda *x, **k: DataVal("%s of the matrix" % a)
        if isinstance(o, tuple) and o and o[0] == "absarr" and a in ("max", "min", "mean", "sum"):
            return lambda *x, **k: DataVal("%s|data|" % a)
        if isinstance(o, (DataCond, bool)) and a in ("any", "all"):
            def _red(*x, **k):
                if isinstance(o, DataCond) and a == "all" and getattr(o, "eq_kinds", False):
                    c = DataCond(o.text + ".all()")
                    c.all_equal = True          # every cell satisfies the equality
                    c.stable = True
                    return c
                return o            # of a comparison that is one condition here: that condition
            return _red
        if isinstance(o, CArr) and a == "size":
            return o.size
        if isinstance(o, CArr) and a == "ndim":
            return 1
        if isinstance(o, CArr) and a == "shape":
            return (o.size,)
        if isinstance(o, list) and a == "append":
            return o.append
        if isinstance(o, Opaque):
            if (o.name + "." + a).endswith("num.islinear"):
                return self.num_islinear       # linearity declared by the reconstruction object (set per run)
            return Opaque(o.name + "." + a)
        if isinstance(o, dict) and a in ("keys", "items", "values", "get"):
            return getattr(o, a)
        raise AnalysisError("%s:%d unsupported attribute .%s on %s" % (func.qualname, node.lineno, a, type(o).__name__))

    def e_Attribute(self, node, env, func):
        return self.getattr(self.eval(node.value, env, func), node.attr, func, node)

    def getitem(self, o, idx, func, node):
        if isinstance(o, (list, tuple)):
            if isinstance(idx, int):
                try:
                    return o[idx]
                except IndexError:
                    raise AnalysisError("%s:%d index out of range" % (func.qualname, node.lineno))
            if isinstance(idx, slice):
                return o[idx]
        if isinstance(o, CArr) and isinstance(idx, int):
            try:
                return o.vals[idx]
            except IndexError:
                raise AnalysisError("%s:%d tableau index %d out of range" % (func.qualname, node.lineno, idx))
        if isinstance(o, CArr) and isinstance(idx, slice) and all(x is None or isinstance(x, int) for x in (idx.start, idx.stop, idx.step)):
            return CArr(o.vals[idx])
        if isinstance(o, Packed):
            return o.slots[self.slot(idx, func, node, o)].copy()
        if isinstance(o, dict):
            return o[idx]
        if isinstance(o, S) and isinstance(idx, tuple) and len(idx) == 2 and o.vec is not None:
            # v[:, None] (column vector: scales rows) / v[None, :] (row vector: scales columns)
            if idx[1] is None and isinstance(idx[0], slice):
                return o.as_vec("col")
            if idx[0] is None and isinstance(idx[1], slice):
                return o.as_vec("row")
        if isinstance(o, JacMat):
            return ("jacview", idx, o)
        if isinstance(o, AArr) and isinstance(idx, Idx):
            return Elem(o, idx)
        if isinstance(o, AArr) and isinstance(idx, slice) and any(isinstance(x, (Idx, IdxClamp)) for x in (idx.start, idx.stop)):
            return PartArr(o)
        raise AnalysisError("%s:%d unsupported subscript on %s" % (func.qualname, node.lineno, type(o).__name__))

    def e_Subscript(self, node, env, func):
        return self.getitem(self.eval(node.value, env, func), self.index(node.slice, env, func), func, node)

    def e_List(self, node, env, func):
        return [self.eval(e, env, func) for e in node.elts]

    def e_Tuple(self, node, env, func):
        return tuple(self.eval(e, env, func) for e in node.elts)

    def e_Dict(self, node, env, func):
        return {self.eval(k, env, func): self.eval(v, env, func) for k, v in zip(node.keys, node.values)}

    def e_GeneratorExp(self, node, env, func):
        return self.e_ListComp(node, env, func)       # consumed at once by any / all / sum in the code analysed here

    def e_ListComp(self, node, env, func):
        if len(node.generators) != 1 or node.generators[0].ifs:
            raise AnalysisError("unsupported comprehension")
        g = node.generators[0]
        out = []
        for x in self.iterate(self.eval(g.iter, env, func), node, func):
            e2 = dict(env)
            self.assign(g.target, x, e2, func)
            out.append(self.eval(node.elt, e2, func))
        return out

    def e_UnaryOp(self, node, env, func):
        v = self.eval(node.operand, env, func)
        if isinstance(node.op, ast.USub):
            return -v
        if isinstance(node.op, ast.Not):
            return not self.truth(v, node, func)
        raise AnalysisError("unsupported unary operator")

    def e_BoolOp(self, node, env, func):
        # short-circuit evaluation, as Python does
        is_and = isinstance(node.op, ast.And)
        res = is_and
        idxc = None
        for vn in node.values:
            v = self.eval(vn, env, func)
            if isinstance(v, IdxCond):
                # undetermined operand: the result is decided by the others if one of them is
                # absorbing, otherwise it is this condition
                idxc = v if idxc is None else IdxCond("%s %s %s" % (idxc.text, "and" if is_and else "or", v.text))
                continue
            if isinstance(v, Cond):
                raise AnalysisError("%s:%d symbolic condition reached in abstract execution" % (func.qualname, node.lineno))
            t = self.truth(v, node, func)
            if is_and and not t:
                return False
            if not is_and and t:
                return True
        return idxc if idxc is not None else res

    def e_Compare(self, node, env, func):
        if len(node.ops) != 1:
            raise AnalysisError("chained comparison")
        a = self.eval(node.left, env, func)
        b = self.eval(node.comparators[0], env, func)
        op = node.ops[0]
        if isinstance(a, S) and a.is_const():
            a = a.const()
        if isinstance(b, S) and b.is_const():
            b = b.const()
        if isinstance(op, (ast.Eq, ast.NotEq)) and (isinstance(a, Idx) or isinstance(b, Idx)) and not (isinstance(a, Idx) and isinstance(b, Idx)):
            return IdxCond(unparse(node))
        if isinstance(op, (ast.Eq, ast.NotEq)) and isinstance(a, S) and isinstance(b, S) and a.kinds != b.kinds and not (a.is_const() or b.is_const()):
            # the time-step array against a reduction of it (dt == min(dt)): true in some cells, false in others
            c = DataCond(unparse(node))
            c.eq_kinds = isinstance(op, ast.Eq)
            c.stable = True
            return c
        if isinstance(op, ast.Eq):
            return a == b
        if isinstance(op, ast.NotEq):
            r = a != b
            return r
        if isinstance(op, ast.In):
            return a in b
        if isinstance(op, ast.NotIn):
            return a not in b
        if isinstance(op, ast.Is):
            return a is b
        if isinstance(op, ast.IsNot):
            return a is not b
        if isinstance(a, (int, Fraction)) and isinstance(b, (int, Fraction)):
            return {ast.Lt: a < b, ast.LtE: a <= b, ast.Gt: a > b, ast.GtE: a >= b}[type(op)]
        if isinstance(a, Idx) or isinstance(b, Idx):
            return IdxCond(unparse(node))
        if all(isinstance(x, (S, int, Fraction, EpsVal, DataVal)) for x in (a, b)) and any(isinstance(x, (S, DataVal)) for x in (a, b)):
            c = DataCond(unparse(node))          # a quantity derived from the data (a norm, a time step) against a bound
            c.stable = any(isinstance(x, DataVal) and x.text.startswith("np.ndim of the time step") for x in (a, b))
            return c
        raise AnalysisError("%s:%d comparison of abstract values" % (func.qualname, node.lineno))

    def e_BinOp(self, node, env, func):
        a = self.eval(node.left, env, func)
        b = self.eval(node.right, env, func)
        try:
            return self.binop(node.op, a, b)
        except TypeError as e:
            raise AnalysisError("%s:%d unsupported operands: %s" % (func.qualname, node.lineno, e))

    def binop(self, op, a, b):
        if isinstance(a, CellWeight) or isinstance(b, CellWeight):
            w, o = (a, b) if isinstance(a, CellWeight) else (b, a)
            if isinstance(op, ast.Mult) and isinstance(o, (Op, JacMat)) and w.vec == "row":
                e = AnalysisError("a 1-D array over the unknowns multiplies the system matrix")
                e.violation = ("TH-SCHEME", "integration.implicitmodel.solve_implicit", "the system matrix is multiplied by the 1-D array `%s` (one entry per unknown): numpy broadcasts a 1-D array along the LAST axis, so `w * M` is M*diag(w) -- it scales the COLUMNS (the unknowns), not the rows (the equations); `w[:, None] * M` weights the equations.  With the right-hand side weighted as `w * r` the system solved is M diag(w) x = diag(w) r: another solution whenever the weights differ between cells (a non-uniform mesh)" % w.name,
                               "col-scaling", {"C01", "C06", "C13", "C14", "C04", "C03"})
                raise e
            raise AnalysisError("a per-cell weight array (%s) in the implicit system is not modelled" % w.name)
        if isinstance(op, ast.Mult) and ((isinstance(a, list) and isinstance(b, int)) or (isinstance(b, list) and isinstance(a, int))) and not isinstance(a, bool) and not isinstance(b, bool):
            # [x] * n: n references to the SAME object x (Python's semantics -- the abstract arrays are mutable objects here too,
            # so an element store through one entry shows through all of them)
            return a * b
        if isinstance(a, DataVal) or isinstance(b, DataVal):
            return a if isinstance(a, DataVal) else b
        if isinstance(a, TimeVal) or isinstance(b, TimeVal):
            if isinstance(op, ast.Add):
                return a + b
            raise AnalysisError("arithmetic on field time other than +")
        num = (int, Fraction)
        if isinstance(a, num) and isinstance(b, num) and not isinstance(a, bool) and not isinstance(b, bool):
            if isinstance(op, ast.Div):
                return Fraction(a) / Fraction(b)
            if isinstance(op, ast.Pow):
                return Fraction(a) ** int(b)
        if isinstance(a, str) or isinstance(b, str):
            if isinstance(op, ast.Add):
                return str(a) + str(b)
        if isinstance(a, num) and isinstance(b, S):
            a = S.lift(a)
        if isinstance(op, ast.Add):
            return a + b
        if isinstance(op, ast.Sub):
            return a - b
        if isinstance(op, ast.Mult):
            return a * b
        if isinstance(op, ast.Div):
            return a / b
        if isinstance(op, ast.Mod):
            return a % b
        raise AnalysisError("unsupported binary operator %s" % type(op).__name__)

    def e_Call(self, node, env, func):
        f = self.eval(node.func, env, func)
        args = [self.eval(a, env, func) for a in node.args]
        kwargs = {k.arg: self.eval(k.value, env, func) for k in node.keywords if k.arg}
        ln = node.lineno
        if isinstance(f, BoundMethod):
            if f.func.name == "calcrhs":
                pass
            return self.call(f.func, [f.selfobj] + args, kwargs)
        if hasattr(f, "node") and hasattr(f, "params"):     # FuncInfo: explicit Base.method(self, ...)
            return self.call(f, args, kwargs)
        if isinstance(f, NpRef):
            return self.builtin(f.name, args, kwargs, node, func)
        if isinstance(f, Opaque):
            return self.opaque_call(f, args, kwargs, node, func)
        if callable(f):
            try:
                return f(*args, **kwargs)
            except TypeError as e:
                raise AnalysisError("%s:%d bad call: %s" % (func.qualname, ln, e))
        raise AnalysisError("%s:%d unsupported call %s" % (func.qualname, ln, unparse(node.func)))

    def opaque_call(self, f, args, kwargs, node, func):
        if f.name == "modeldisc.rhs":
            fld = args[0]
            if not isinstance(fld, AField):
                raise AnalysisError("%s:%d rhs() of a non-field" % (func.qualname, node.lineno))
            j = len(self.trace.K)
            self.trace.K.append((fld.time.s, {q: fld.data[q].copy() for q in range(NEQ)}, "%s:%d" % (func.qualname, node.lineno)))
            # the arrays a right-hand side returns belong to it: a provider that writes its result
            # into preallocated buffers overwrites them at its next evaluation.  The very objects
            # returned last time (not their copies) therefore become stale now.
            if self.rhs_owned:
                for q, old in enumerate(getattr(self, "_rhs_owned", [])):
                    old.form = {("STALE", q): {0: Fraction(1)}}
                    old.kinds = set()
            out = [AArr({("K", j, q): {0: Fraction(1)}}) for q in range(NEQ)]
            self._rhs_owned = out
            return out
        return Opaque(f.name + "()")

    def builtin(self, name, args, kwargs, node, func):
        ln = node.lineno
        base = name.split(".")[-1]
        if name.startswith("builtin."):
            if base == "hasattr":
                o, a = args
                if isinstance(o, ASelf):
                    if self.effects is not None and a not in self.effects["written"] and self.p.class_attr(o.cls, a)[1] is None:
                        self.effects["carried"].append((a, "%s:%d (hasattr)" % (func.qualname, node.lineno)))
                    return a in o.attrs or self.p.class_attr(o.cls, a)[1] is not None
                raise AnalysisError("hasattr on non-self")
            if base == "getattr" and len(args) in (2, 3) and isinstance(args[1], str):
                o = args[0]
                if isinstance(o, Opaque):
                    if (o.name + "." + args[1]).endswith("num.islinear"):
                        return self.num_islinear
                    return Opaque(o.name + "." + args[1])
                if o is None and len(args) == 3:
                    return args[2]
                raise AnalysisError("%s:%d getattr on %s" % (func.qualname, ln, type(o).__name__))
            if base == "len":
                return len(args[0])
            if base == "range":
                if len(args) == 1 and isinstance(args[0], Sym):
                    return SymRange(args[0].name)
                if not all(isinstance(a, (int, Fraction)) and not isinstance(a, bool) and Fraction(a).denominator == 1 for a in args):
                    raise AnalysisError("%s:%d range() over bounds the analysis does not resolve to integers (%s)" % (func.qualname, ln, ", ".join(type(a).__name__ for a in args)))
                return range(*[int(a) for a in args])
            if base == "enumerate":
                return list(enumerate(self.iterate(args[0], node, func)))
            if base == "zip":
                return list(zip(*[self.iterate(a, node, func) for a in args]))
            if base == "max" and len(args) == 2 and any(isinstance(a, EpsVal) for a in args):
                e = args[0] if isinstance(args[0], EpsVal) else args[1]
                c = args[1] if e is args[0] else args[0]
                if isinstance(c, S) and c.is_const():
                    c = c.const()
                if isinstance(c, (int, Fraction)) and e.rel == 1:
                    return e.with_floor(c)
                raise AnalysisError("%s:%d unsupported floor of the perturbation" % (func.qualname, ln))
            if base in ("min", "max") and any(isinstance(a, (Idx, IdxClamp)) for a in args):
                return IdxClamp("%s(%s)" % (base, ", ".join(repr(a) for a in args)))
            if base == "min":
                return self.dtred("min", args[0])
            if base == "max":
                return self.dtred("max", args[0])
            if base == "print":
                return None
            if base == "abs":
                return self.builtin("np.abs", args, kwargs, node, func)
            if base in ("any", "all") and len(args) == 1:
                vals = list(self.iterate(args[0], node, func)) if not isinstance(args[0], (AArr, Packed, JacMat, Op)) else [DataCond(unparse(node))]
                if any(isinstance(v, (DataCond, AArr, DataVal)) for v in vals):
                    return DataCond(unparse(node))
                ts = [self.truth(v, node, func) for v in vals]
                return any(ts) if base == "any" else all(ts)
            if base == "reversed":
                return list(reversed(list(self.iterate(args[0], node, func))))
            if base in ("list", "tuple") and len(args) == 1 and isinstance(args[0], (list, tuple, CArr, range)):
                return list(self.iterate(args[0], node, func))                # a new list of the same elements (a shallow copy)
            if base in ("list", "tuple") and not args:
                return []
            if base == "float" and len(args) == 1 and isinstance(args[0], (int, Fraction, S)):
                return Fraction(args[0]) if isinstance(args[0], int) else args[0]       # exact in real arithmetic
            if base == "int" and len(args) == 1 and isinstance(args[0], int):
                return args[0]
            raise AnalysisError("%s:%d unsupported builtin %s" % (func.qualname, ln, base))
        if base == "reciprocal" and len(args) == 1 and isinstance(args[0], S):
            if args[0].poly == {1: Fraction(1)}:
                # the time step AS GIVEN by the caller: np.reciprocal keeps the dtype of its argument -- for a Python int, a numpy
                # integer or an integer array it is the INTEGER reciprocal (0 for every dt >= 2), where 1/dt and 1./dt are true division
                e = AnalysisError("%s:%d np.reciprocal of the caller's time step" % (func.qualname, ln))
                e.violation = ("DTYPE-INT-RECIPROCAL", func.qualname, "`%s` (line %d): np.reciprocal keeps the dtype of its argument -- an integer time step (dt = 2, an integer array of local steps) gives the INTEGER reciprocal 0, the division it replaces (`1/dt`, `x/dt`) is true division for every numeric type" % (unparse(node)[:50], ln),
                               "int-reciprocal", {"C06", "C01", "C03", "C04", "C05", "C07", "C13", "C14", "C18"})
                raise e
            return self.binop(ast.Div(), 1, args[0])
        if base in ("asarray", "asanyarray") and len(args) == 1 and not kwargs and isinstance(args[0], (S, AArr, Packed, CArr)):
            return args[0]              # the same values (a conversion with dtype= is not this)
        if base == "roll" and args and isinstance(args[0], tuple) and args[0] and args[0][0] == "jacview":
            return ("rolled", args[0])
        if base in ("any", "all", "count_nonzero", "allclose", "isclose", "array_equal") and args and any(isinstance(a, (AArr, Packed, JacMat, Op, DataVal, tuple)) for a in args):
            return DataCond(unparse(node))
        if base in ("any", "all") and len(args) == 1 and isinstance(args[0], (bool, DataCond)):
            return args[0]              # of one (scalar) comparison: that comparison
        if base in ("min", "amin", "max", "amax", "linalg.norm", "norm", "mean", "abs", "absolute") and args and isinstance(args[0], (JacMat, Op, DataVal)):
            return DataVal(unparse(node))           # magnitude of the matrix / of a data-derived scalar
        if base in ("ravel", "concatenate", "hstack") and args and isinstance(args[0], (list, tuple)) and args[0] and all(isinstance(x, AArr) for x in args[0]):
            return VarMajor(list(args[0]), "%s:%d `%s`" % (func.qualname, ln, unparse(node)[:50]))
        if base == "ndim" and len(args) == 1 and isinstance(args[0], S) and "arr" in args[0].kinds:
            return DataVal("np.ndim of the time step (a scalar, or an array of local steps)")
        if base in ("min", "amin"):
            return self.dtred("min", args[0])
        if base in ("max", "amax"):
            return self.dtred("max", args[0])
        if base == "sum":
            v = args[0]
            if isinstance(v, CArr):
                return sum(v.vals, Fraction(0))
            if isinstance(v, tuple) and v and v[0] == "absarr":
                return EpsVal(1, v[1], False, True)
            if isinstance(v, AArr):
                comp = self._data_comp(v)
                return EpsVal(1, comp, False, False)
            raise AnalysisError("%s:%d np.sum of a non-constant" % (func.qualname, ln))
        if base in ("abs", "absolute"):
            v = args[0]
            if isinstance(v, AArr):
                return ("absarr", self._data_comp(v))
            raise AnalysisError("%s:%d abs of unsupported value" % (func.qualname, ln))
        if base == "spacing":
            if args and args[0] == 1:
                return Fraction(1, 2 ** 52)
            raise AnalysisError("%s:%d np.spacing of a non-unit argument" % (func.qualname, ln))
        if base == "sqrt":
            v = args[0]
            if isinstance(v, (int, Fraction)):
                v = Fraction(v)
                from .algebra import _iroot
                rn, rd = _iroot(v.numerator, 2), _iroot(v.denominator, 2)
                if rn is not None and rd is not None:
                    return Fraction(rn, rd)
            raise AnalysisError("%s:%d sqrt of a non-square constant" % (func.qualname, ln))
        if base in ("zeros", "empty") and args and isinstance(args[0], Sym) and args[0].name == "nelem":
            return AArr({})         # one value per cell (np.empty: whatever it holds is overwritten before it is read, or the reads show)
        if base == "zeros":
            a = args[0]
            if isinstance(a, int):
                return CArr([Fraction(0)] * a)
            if isinstance(a, (list, tuple)) and len(a) == 2:
                return JacMat() if self.inline_jacobian else Op({}, 0)
            return Packed()      # np.zeros(self.dim): packed vector
        if base == "ones":
            return S({0: 1})
        if base == "repeat":
            v = args[0]
            if isinstance(v, Opaque) and len(args) >= 2:
                return CellWeight(v.name, "row")         # a per-cell array of the mesh (volumes ...) expanded to the packed unknowns
            return v.as_vec("row") if isinstance(v, S) else v      # one entry per packed unknown
        if base == "tile":
            v = args[0]
            return v.as_vec("row", tiled=True) if isinstance(v, S) else v
        if base == "diag":
            d = S.lift(args[0])
            op = Op(d.poly, 0)
            op.tiled = d.tiled
            return op
        if base in ("eye", "identity"):
            return Op({0: Fraction(1)}, 0)
        if base in ("round", "around") and args:
            v = args[0]
            nd = args[1] if len(args) > 1 else kwargs.get("decimals", 0)
            if isinstance(v, S) and v.is_const():
                v = v.const()
            if isinstance(v, (int, Fraction)) and isinstance(nd, int):
                return Fraction(round(Fraction(v), nd))       # exact decimal rounding of a literal-derived constant (half to even, as numpy)
            raise AnalysisError("%s:%d np.round of a non-constant" % (func.qualname, ln))
        if base == "solve":
            mat, rhs = args
            if not (isinstance(mat, Op) and isinstance(rhs, Packed)):
                raise AnalysisError("%s:%d linear solve of unsupported operands" % (func.qualname, ln))
            n = len(self.trace.solves)
            self.trace.solves.append((mat, {q: rhs.slots[q].copy() for q in range(NEQ)}))
            out = Packed()
            out.slots = {q: AArr({("X", n, q): {0: Fraction(1)}}) for q in range(NEQ)}
            return out
        if base == "array":
            return CArr(args[0])
        raise AnalysisError("%s:%d unsupported numpy function %s" % (func.qualname, ln, name))

    def _data_comp(self, arr):
        """which component of the unperturbed field data is this array?"""
        if len(arr.form) == 1:
            (b, p), = arr.form.items()
            if b[0] == "Q0" and p == {0: Fraction(1)}:
                return b[1]
        raise AnalysisError("perturbation scale is not taken from a component of the field data")

    def dtred(self, kind, v):
        v = S.lift(v)
        ks = set(v.kinds)
        if "arr" in ks:
            ks.discard("arr")
            ks.add(kind)
        elif not ks:
            pass
        else:
            ks.add(kind)
        return S(v.poly, ks)

    def e_Lambda(self, node, env, func):
        return Opaque("lambda")

    def e_JoinedStr(self, node, env, func):
        return "<fstring>"

    def e_IfExp(self, node, env, func):
        c = self.truth(self.eval(node.test, env, func), node, func)
        return self.eval(node.body if c else node.orelse, env, func)


# ----------------------------------------------------------------------------- driver
def dt_arg():
    """the dt argument of step: dt^1, provenance 'arr' (scalar or local-time-step array)"""
    return S({1: Fraction(1)}, {"arr"})


def _step_signature(out):
    sig = []
    for o in out:
        f = o["field"]
        sig.append((repr(f.time.s if hasattr(f.time, "s") else f.time), tuple(sorted((repr(k), tuple(sorted(v.items()))) for q in range(NEQ) for k, v in f.data[q].form.items())),
                    len(o["K"]), len(o["solves"]),
                    # which form of the time step multiplies the residuals (the argument itself: each cell's own step under a
                    # local-time-step array; a reduction of it: one value for all cells)
                    tuple(sorted({("arr" if o.get("kinds_equal") and k == "min" else k) for q in range(NEQ) for k in getattr(f.data[q], "kinds", ())}))))
    return tuple(sig)


def run_step(project, cls, nsteps=1, rhs_owned=False):
    """all outcome vectors of the data-dependent conditions a step meets (a shortcut for special states: a
    zero residual, a small Jacobian, a norm below a tolerance) are explored; every path that returns must give
    the same abstract result -- otherwise the step is not ONE formula for every right-hand side"""
    pending = [()]
    done = []
    while pending:
        pol = pending.pop(0)
        if len(pol) > 8:
            raise AnalysisError("%s: more than 8 data-dependent conditions in one step" % cls.qualname)
        try:
            ai, out = _run_step_path(project, cls, nsteps, rhs_owned, pol)
        except _NeedPolicy:
            pending.append(pol + (True,))
            pending.append(pol + (False,))
            continue
        except AnalysisError as e:
            if pol and "raise reached" in str(e):
                continue                     # an exception path (e.g. a NaN guard): not a result
            raise
        done.append((pol, ai, out, list(ai.data_log)))
    if not done:
        raise AnalysisError("%s: no path through step() returns" % cls.qualname)
    sigs = {}
    for pol, ai, out, log in done:
        sigs.setdefault(_step_signature(out), []).append((pol, log))
    if len(sigs) > 1:
        # the path on which no special case was taken is the reference; name the other one
        texts = sorted(("; ".join(l[1]) for ls in sigs.values() for l in ls if l[1]), key=len)
        e = DataDependentStep("%s.step takes a data-dependent shortcut: its update differs between the paths [%s]" % (cls.qualname, " | ".join(texts[:2])))
        e.violation = ("STEP-ONE-FORMULA", cls.qualname, "the effect of step() depends on a condition on the VALUES of the data (%s): on that path the update is not the same combination of right-hand-side evaluations -- the step is not one Runge-Kutta / theta-scheme formula for every right-hand side (a time-dependent right-hand side can vanish at the start of a step without vanishing at the later stages; a small Jacobian does not make the implicit step explicit)" % " | ".join(texts[:2]),
                       "data-dependent-step", {"C04", "C05", "C06"})
        e.paths = [(pol, out, log) for pol, ai, out, log in done]
        raise e
    return done[0][1], done[0][2]


def _run_step_path(project, cls, nsteps, rhs_owned, policy):
    """construct an abstract integrator of class `cls`, run `nsteps` steps (each on a fresh
    initial field) and return [(field_after, trace_slice)] plus the interpreter"""
    ai = AffInterp(project, cls)
    ai.rhs_owned = rhs_owned
    ai.data_policy, ai.data_log = list(policy), []
    ai.construct()
    out = []
    for n in range(nsteps):
        k0, j0, s0 = len(ai.trace.K), len(ai.trace.J), len(ai.trace.solves)
        f = AField.initial()
        had = sorted(a for a in ai.selfobj.attrs if a.startswith("_last"))
        # stored increment of a previous step is a fresh symbol L (its own history)
        for a in had:
            if isinstance(ai.selfobj.attrs[a], (S, int, Fraction, EpsVal)):
                # a SCALAR kept from the previous step (its time step ...): that step's own value -- another number, which
                # nothing makes equal to this step's (a nominally constant step recomputed as t[k+1] - t[k] differs by rounding)
                ai.selfobj.attrs[a] = Opaque("value of %s left by the previous step" % a)
                continue
            ai.selfobj.attrs[a] = [AArr({("L", q): {0: Fraction(1)}}) for q in range(NEQ)]
        ai.step(f, dt_arg())
        out.append(dict(field=f, K=ai.trace.K[k0:], J=ai.trace.J[j0:], solves=ai.trace.solves[s0:], k0=k0, s0=s0, kinds_equal=getattr(ai, "kinds_equal", False),
                        typestate="history" if had else "no history",
                        stored={a: v for a, v in ai.selfobj.attrs.items() if a.startswith("_last")}))
    return ai, out


def run_jacobian(project, cls, islinear=0):
    """abstract interpretation of calc_jacobian itself (finite-difference structure) on a fresh
    solver object (no cached Jacobian), for a nonlinear (default) or a linear model"""
    ai = AffInterp(project, cls)
    ai.construct()
    ai.inline_jacobian = True
    f = AField.initial()
    f.model.islinear = islinear
    ai.num_islinear = islinear      # 'linear' runs: model and reconstruction both linear
    func = project.resolve(cls, "calc_jacobian")
    if func is None:
        raise AnalysisError("no calc_jacobian for %s" % cls.qualname)
    ai.call(func, [ai.selfobj, f], {})
    jm = ai.selfobj.attrs.get("jacobian")
    return ai, f, jm


def step_effects(project, cls, islinear, nsteps=None):
    import os
    if nsteps is None:
        nsteps = 5 if os.environ.get("FDCHECK_TIER") == "thorough" else 3
    """attributes of the solver object that a step reads before writing (state carried in
    from before the call) and attributes it writes, for consecutive steps 1..nsteps on one
    object.  calc_jacobian is executed for real (both sides of its cache guard are reached
    through islinear / step number)."""
    # a step may test its arguments (a guard that raises for a non-positive time step): every path that returns is walked, the
    # effects of a step number are the union over the paths (a path that ends in `raise` is not a step)
    pending, done = [()], []
    while pending:
        pol = pending.pop(0)
        if len(pol) > 8:
            raise AnalysisError("%s: more than 8 data-dependent conditions in %d steps" % (cls.qualname, nsteps))
        ai = AffInterp(project, cls)
        ai.construct()
        ai.inline_jacobian = True
        if pol:
            ai.data_policy, ai.data_log = list(pol), []
        config = set(ai.selfobj.attrs)
        out = []
        try:
            for n in range(nsteps):
                f = AField.initial()
                f.model.islinear = islinear
                ai.num_islinear = islinear
                ai.effects = {"written": set(), "carried": [], "writes": []}
                ai.step(f, dt_arg())
                eff = ai.effects
                ai.effects = None
                out.append(eff)
        except _NeedPolicy:
            pending.append(pol + (True,))
            pending.append(pol + (False,))
            continue
        except AnalysisError as e:
            if not pol and "branch on a data-dependent condition" in str(e):
                pending.append((True,))
                pending.append((False,))
                continue
            if pol and "raise reached" in str(e):
                continue
            raise
        done.append((config, out))
    if not done:
        raise AnalysisError("%s: no path through %d steps returns" % (cls.qualname, nsteps))
    config, out = done[0]
    for c2, o2 in done[1:]:
        config |= c2
        for e1, e2 in zip(out, o2):
            e1["written"] |= e2["written"]
            e1["carried"] = list(e1["carried"]) + [x for x in e2["carried"] if x not in e1["carried"]]
            e1["writes"] = list(e1["writes"]) + [x for x in e2["writes"] if x not in e1["writes"]]
    return config, out
