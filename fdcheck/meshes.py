"""Abstract construction of the 1D mesh classes: the constructor chain is interpreted with
symbolic sizes; every assignment to `self.xf` creates a new *version* of the face array so
that quantities derived from an older version (stale centres, cached sizes) are visible."""
from fractions import Fraction

from .algebra import Algebra, RF
from .interp import Interp, GvnDomain, SelfObj, OpaqueFn
from .project import AnalysisError
from .stencil import Stn, SArr, NLin

N = NLin(1, 0)
MESH_CLASSES = ["mesh1d", "unimesh", "refinedmesh", "morphedmesh"]


class FaceSeq:
    """arithmetic sequence of faces (np.linspace) or concatenation of such"""
    def __init__(self, count, first, last, spacing, parts=None):
        self.count, self.first, self.last, self.spacing, self.parts = count, first, last, spacing, parts or []


class Round:
    def __init__(self, x):
        self.x = x


class MeshBuild:
    def __init__(self, proj, clsname, host=None):
        self.proj = proj
        self.cls = proj.cls("mesh." + clsname)
        if host is not None:
            self.alg = A = host.alg
            self.dom, self.it, self.stn = host.dom, host.interp, host.stn
        else:
            self.alg = A = Algebra()
            A.fold_enabled = False
            self.dom = GvnDomain(A)
            self.it = Interp(proj, self.dom)
            self.stn = Stn(A)
            self.it.stn = self.stn
        self.versions = []          # (input name, value assigned to xf)
        self.nlin = 0
        self.it.on_setattr = self.on_setattr
        self.it.np_hooks = {"linspace": self.linspace, "append": self.append, "concatenate": self.concatenate, "hstack": self.concatenate, "builtin:int": self.int_, "builtin:round": self.round_, "arange": self.arange}
        self.ncell_atom = A.sym("ncell", positive=True)
        self.it.size_atom = self.ncell_atom
        self.params = {}
        self.obj = SelfObj(self.cls, {})
        self.int_events = []
        init = proj.resolve(self.cls, "__init__")
        if init is None:
            raise AnalysisError("%s has no constructor" % self.cls.qualname)
        args = [self.obj]
        for pn in init.params[1:]:
            if pn == "ncell":
                v = N
            elif pn == "morph":
                v = OpaqueFn("morph")
            else:
                v = A.sym(pn, positive=pn in ("length", "ratio", "nratioa", "nratiob"))
            self.params[pn] = v
            args.append(v)
        self.init = init
        self.it.call_function(init, args)
        if host is not None:
            self.it.on_setattr = None
            self.it.size_atom = None

    # ---- hooks
    def size_rf(self, v):
        """size as ring element (ncell atom)"""
        A = self.alg
        if isinstance(v, NLin):
            return self.ncell_atom * v.a + v.b
        if isinstance(v, int):
            return A.const(v)
        if isinstance(v, RF):
            return v
        raise AnalysisError("unsupported size %r" % (v,))

    def num(self, v):
        """python number / NLin / RF in arithmetic with the mesh size"""
        return v

    def linspace(self, args, kwargs):
        A = self.alg
        args = list(args)
        for i_, k_ in enumerate(("start", "stop", "num")):
            if k_ in kwargs and len(args) == i_:
                args.append(kwargs[k_])
        if len(args) < 3:
            raise AnalysisError("np.linspace without an explicit number of points")
        a, b, num = args[0], args[1], args[2]
        endpoint = kwargs.get("endpoint", True)
        a = self.it.lift(a) if not isinstance(a, RF) else a
        b = self.it.lift(b) if not isinstance(b, RF) else b
        cnt = self.size_rf(num)
        spacing = (b - a) / (cnt - 1 if endpoint else cnt)
        last = b if endpoint else b - spacing
        seq = FaceSeq(cnt, a, last, spacing)
        if isinstance(num, (NLin, int)):
            self.nlin += 1
            name = "lin%d" % self.nlin
            self.it.ev.linspaces[name] = seq
            arr = self.stn.input(name, num)
            arr.faceseq = seq
            return arr
        return seq

    def arange(self, args, kwargs):
        """np.arange over integers is an index range; with a non-integer start / stop / step the NUMBER of
        entries is ceil((stop-start)/step) evaluated in floating point -- decided by rounding (numpy's own
        documentation: "the length of the output might not be numerically stable")"""
        from .interp import RangeSym
        if len(args) == 1 and isinstance(args[0], NLin) and not kwargs:
            return RangeSym(args[0])
        if all(isinstance(a, (int, NLin)) for a in args) and not kwargs:
            if all(isinstance(a, int) for a in args):
                return list(range(*args))
            raise AnalysisError("np.arange over an unsupported integer range")
        e = AnalysisError("mesh.%s: np.arange with a non-integer step" % self.cls.name)
        e.violation = ("MESH-COUNT", self.cls.qualname, "the face array is built by np.arange with non-integer arguments: its number of entries is ceil((stop-start)/step) evaluated in floating point, i.e. decided by rounding -- for some (ncell, length) there is one face too many (ncell+2 faces, the last beyond x0+length) or one too few; np.linspace(start, stop, ncell+1) fixes the count",
                       "float-arange", {"C20", "C03", "C01", "C04", "C11", "C13"})
        raise e

    def append(self, args, kwargs):
        a, b = args
        if isinstance(a, FaceSeq) and isinstance(b, FaceSeq):
            return FaceSeq(a.count + b.count, a.first, b.last, None, parts=[a, b])
        raise AnalysisError("np.append of unsupported operands")

    def concatenate(self, args, kwargs):
        seqs = args[0] if args else None
        if isinstance(seqs, (list, tuple)) and len(seqs) == 2 and not kwargs:
            return self.append(list(seqs), {})       # np.concatenate((a, b)) of two 1-D sequences == np.append(a, b)
        raise AnalysisError("np.concatenate of unsupported operands")

    def round_(self, args, kwargs):
        return Round(args[0])

    def int_(self, args, kwargs):
        A = self.alg
        x = args[0]
        rounded = isinstance(x, Round)
        if rounded:
            x = x.x
        if isinstance(x, (int, Fraction)):
            return int(x)
        if isinstance(x, NLin):
            return x
        # the mesh size enters arithmetic as an atom
        name = "nint%d" % (len(self.int_events) + 1)
        at = A.sym(name, positive=True)
        self.int_events.append(dict(atom=at, expr=x, rounded=rounded))
        return at

    def on_setattr(self, obj, attr, v):
        if obj is self.obj and attr == "xf":
            name = "xf_v%d" % (len(self.versions) + 1)
            self.versions.append((name, v))
            return self.stn.input(name, N + 1)
        return v

    # ---- queries
    def final_xf(self):
        if not self.versions:
            raise AnalysisError("%s never assigns self.xf" % self.cls.qualname)
        return self.versions[-1][0]

    def call(self, name):
        f = self.proj.resolve(self.cls, name)
        if f is None:
            raise AnalysisError("%s.%s not found" % (self.cls.qualname, name))
        return self.it.call_function(f, [self.obj])

    def seq_of(self, v):
        """FaceSeq description (count, first, last, spacing) of a value assigned to xf"""
        A = self.alg
        if isinstance(v, FaceSeq):
            return v
        if isinstance(v, SArr):
            if len(v.segs) != 1:
                raise AnalysisError("face array built from several pieces")
            val = v.segs[0][2]

            def sub(idx):
                x = self.stn.absolutize(val, idx)

                def fn(name):
                    from .stencil import ABS
                    m = ABS.match(name)
                    if m and m.group("name") in self.it.ev.linspaces:
                        seq = self.it.ev.linspaces[m.group("name")]
                        a, b = int(m.group("a")), int(m.group("b"))
                        k = self.ncell_atom * a + b
                        return seq.first + seq.spacing * k
                    if m and any(m.group("name") == nm for nm, _ in self.versions):
                        # an entry of an EARLIER version of xf (the faces the base constructor built, re-used here):
                        # that version's own description, entry a*ncell + b
                        prev = self.seq_of(dict(self.versions)[m.group("name")])
                        if prev.spacing is None:
                            raise AnalysisError("face array derived from an earlier two-zone face array")
                        a, b = int(m.group("a")), int(m.group("b"))
                        k = self.ncell_atom * a + b
                        return prev.first + prev.spacing * k
                    return None
                return self.stn._map_atoms(x, fn)
            first = sub(NLin(0, 0))
            last = sub(v.length - 1)
            second = sub(NLin(0, 1))
            return FaceSeq(self.size_rf(v.length), first, last, second - first)
        raise AnalysisError("unsupported face array value %r" % type(v).__name__)
