"""GVN — algebraic value numbering in a commutative ring of generalised rational functions.

Values are rational functions  num / (prod of interned irreducible-ish factors^mult)  where
`num` is a Laurent-Puiseux polynomial (dict monomial -> Fraction) over *atoms*:

  sym      free input symbol (may be declared positive, or a unit  d*d = 1)
  base     B stands for a positive non-monomial expression E; B^e with integer part n of e
           is rewritten E^n * B^(e-n), so sqrt(E)^2 == E
  ind      idempotent indicator W = [C >= 0] of a sign-normalised condition polynomial C
           (W*W == W; [C <= 0] is 1-W: measure-zero ties are identified)
  defined  name for a larger sub-expression (hierarchical value numbering); carries its
           definition and is expanded on demand by `equal` (iterative deepening)
  opaque   uninterpreted pure function application f(args)

Exponents are ints / Fractions, or elements of Q(gamma) (class QExp) for positive atoms.
Equality of two values is decided by cross-multiplication, never by heuristic
simplification.  No input is ever chosen; the float `fingerprint` is only a hash used to
pre-select which exact identities are attempted when interning `defined` atoms.
"""
from fractions import Fraction
import decimal
import math
import time
from decimal import Decimal

DCTX = decimal.Context(prec=70, Emax=999999999, Emin=-999999999)

from .project import AnalysisError


class Budget(AnalysisError):
    pass


# ----------------------------------------------------------------------------- exponents

class QExp:
    """element of Q(g): reduced univariate rational function, used as symbolic exponent."""
    __slots__ = ("num", "den", "_h")

    def __init__(self, num, den=(Fraction(1),)):
        num, den = _uq_reduce(tuple(num), tuple(den))
        self.num, self.den = num, den
        self._h = hash((num, den))

    def __hash__(self):
        return self._h

    def __eq__(self, o):
        o = _as_q(o)
        return self.num == o.num and self.den == o.den

    def is_number(self):
        return len(self.num) <= 1 and len(self.den) == 1

    def number(self):
        return (self.num[0] if self.num else Fraction(0)) / self.den[0]

    def __repr__(self):
        def s(p):
            return "+".join("%s*g^%d" % (c, i) for i, c in enumerate(p) if c != 0) or "0"
        return "(%s)/(%s)" % (s(self.num), s(self.den))

    def value(self, g):
        n = sum(float(c) * g ** i for i, c in enumerate(self.num))
        d = sum(float(c) * g ** i for i, c in enumerate(self.den))
        return n / d


def _up_trim(p):
    p = list(p)
    while p and p[-1] == 0:
        p.pop()
    return tuple(p)


def _up_add(a, b):
    n = max(len(a), len(b))
    return _up_trim([(a[i] if i < len(a) else 0) + (b[i] if i < len(b) else 0) for i in range(n)])


def _up_mul(a, b):
    if not a or not b:
        return ()
    r = [Fraction(0)] * (len(a) + len(b) - 1)
    for i, x in enumerate(a):
        for j, y in enumerate(b):
            r[i + j] += x * y
    return _up_trim(r)


def _up_divmod(a, b):
    a = list(a)
    q = [Fraction(0)] * max(0, len(a) - len(b) + 1)
    while len(a) >= len(b) and a:
        c = a[-1] / b[-1]
        k = len(a) - len(b)
        q[k] = c
        for i, y in enumerate(b):
            a[i + k] -= c * y
        a = list(_up_trim(a))
    return _up_trim(q), _up_trim(a)


def _up_gcd(a, b):
    a, b = _up_trim(a), _up_trim(b)
    while b:
        _, r = _up_divmod(a, b)
        a, b = b, r
    if a:
        a = tuple(c / a[-1] for c in a)
    return a


def _uq_reduce(num, den):
    num = _up_trim([Fraction(c) for c in num])
    den = _up_trim([Fraction(c) for c in den])
    if not den:
        raise AnalysisError("zero denominator in exponent")
    if not num:
        return (), (Fraction(1),)
    g = _up_gcd(num, den)
    if len(g) > 1:
        num, _ = _up_divmod(num, g)
        den, _ = _up_divmod(den, g)
    lc = den[-1]
    return tuple(c / lc for c in num), tuple(c / lc for c in den)


def _as_q(e):
    if isinstance(e, QExp):
        return e
    return QExp((Fraction(e),))


def enorm(e):
    """normalise an exponent: int when integral, Fraction when numeric, QExp otherwise"""
    if isinstance(e, QExp):
        if e.is_number():
            e = e.number()
        else:
            return e
    if isinstance(e, int):
        return e
    if e.denominator == 1:
        return int(e.numerator)
    return e


def eadd(a, b):
    if isinstance(a, QExp) or isinstance(b, QExp):
        a, b = _as_q(a), _as_q(b)
        return enorm(QExp(_up_add(_up_mul(a.num, b.den), _up_mul(b.num, a.den)), _up_mul(a.den, b.den)))
    return enorm(Fraction(a) + Fraction(b)) if not (isinstance(a, int) and isinstance(b, int)) else a + b


def emul(a, b):
    if isinstance(a, QExp) or isinstance(b, QExp):
        a, b = _as_q(a), _as_q(b)
        return enorm(QExp(_up_mul(a.num, b.num), _up_mul(a.den, b.den)))
    return enorm(Fraction(a) * Fraction(b)) if not (isinstance(a, int) and isinstance(b, int)) else a * b


def eneg(a):
    return emul(a, -1)


def eis_num(e):
    return not isinstance(e, QExp)


def ekey(e):
    if isinstance(e, QExp):
        return (1, repr(e))
    return (0, Fraction(e))


# ----------------------------------------------------------------------------- atoms

class Atom:
    __slots__ = ("id", "name", "kind", "positive", "unit", "idem", "defn", "cond", "args", "sign", "fp", "cval", "fname")

    def __init__(self, id, name, kind, positive=False, unit=False, idem=False):
        self.id = id
        self.name = name
        self.kind = kind
        self.positive = positive
        self.unit = unit
        self.idem = idem
        self.defn = None    # base: RF/poly E ; defined: RF
        self.cond = None    # ind: condition polynomial (frozen)
        self.args = None
        self.sign = None    # known sign of a defined atom: '+', '-', '>=0', '<=0'
        self.fp = None
        self.cval = None    # value of a positive-constant atom  #c
        self.fname = None   # opaque: the function name

    def __repr__(self):
        return self.name


ONE_MONO = ()


def mono_key(m):
    return tuple((a, ekey(e)) for a, e in m)


# ----------------------------------------------------------------------------- RF value

WIDE_K = 1000000


class RF:
    """num / prod(factor_i ^ mult_i).  num: dict mono->Fraction.  den: tuple of (fid, mult)
    sorted by fid, fid indexes Algebra.factors."""
    __slots__ = ("alg", "num", "den")

    def __init__(self, alg, num, den=()):
        self.alg = alg
        self.num = num
        self.den = den

    # arithmetic sugar
    def __add__(self, o):
        return self.alg.add(self, self.alg.lift(o))

    __radd__ = __add__

    def __sub__(self, o):
        return self.alg.sub(self, self.alg.lift(o))

    def __rsub__(self, o):
        return self.alg.sub(self.alg.lift(o), self)

    def __mul__(self, o):
        return self.alg.mul(self, self.alg.lift(o))

    __rmul__ = __mul__

    def __truediv__(self, o):
        return self.alg.div(self, self.alg.lift(o))

    def __rtruediv__(self, o):
        return self.alg.div(self.alg.lift(o), self)

    def __neg__(self):
        return self.alg.neg(self)

    def __pow__(self, e):
        return self.alg.pow(self, e)

    def is_zero(self):
        return not self.num

    def is_const(self):
        return not self.den and all(m == ONE_MONO for m in self.num)

    def const_value(self):
        if not self.is_const():
            return None
        return self.num.get(ONE_MONO, Fraction(0))

    def nterms(self):
        n = len(self.num)
        for fid, mult in self.den:
            n += len(self.alg.factors[fid])
        return n

    def __repr__(self):
        return self.alg.show(self)


class Algebra:
    def __init__(self, term_budget=20000, time_budget=20.0):
        self.atoms = []
        self.by_name = {}
        self.root_rules = []     # [(radicand RF, root RF)]: sqrt(radicand) := root (root >= 0 stated by the caller)
        self.point_pattern_hooks = []   # [(compiled regex on the atom name, fn(match, k, h in [0,1)) -> value)]
        self.point_hooks = {}    # atom name -> value at witness point k (dependent atoms, e.g. unit normals)
        self.factors = []        # fid -> poly dict (primitive, content-free, lc=1)
        self.factor_index = {}   # frozen key -> fid
        self.bases = []          # base atoms
        self.inds = {}           # frozen cond -> atom
        self.defined = []        # defined atoms in creation order
        self.opaques = {}
        self.term_budget = term_budget
        self.time_budget = time_budget
        self._t0 = None
        self.lower_bounds = {}   # atom id -> Fraction  (atom > bound)
        self.facts_pos = []      # polys known > 0
        self.facts_nonneg = []
        self.gamma = None        # atom used as the variable of QExp exponents
        self.fold_threshold = 6
        self.stats = {"mul_terms": 0, "folds": 0, "deepen": 0, "equal_calls": 0, "opaque": 0}
        self.fold_enabled = True
        self.ranges = {}         # sym name -> (lo, hi) range for witness search
        self.opaque_rules = {}   # fname -> rule(args) -> RF or None (axioms of an uninterpreted function)
        self.integer_atoms = set()      # ids of symbols that stand for positive INTEGERS (n > 0 means n >= 1)
        self.threshold_hints = {}       # symbol name -> literals it is compared with through max / min (sampled on both sides)
        self.numeric_functions = {}     # fname -> fn(Decimal ...) -> Decimal: at witness points the atom takes the function's TRUE value
                                        # (needed where magnitudes matter: error bounds; identity tests do not need it)
        self._radicands = []     # (RF, fingerprint) of forms raised to fractional powers
        self.deep_facts = False  # allow the remainder of a fact division to use one more fact
        self._memo = {}

    # ------------------------------------------------------------------ budget
    def start_clock(self):
        self._t0 = time.time()

    def _tick(self, n=0):
        if n > self.term_budget:
            raise Budget("term budget exceeded (%d terms)" % n)
        if self._t0 is not None and time.time() - self._t0 > self.time_budget:
            raise Budget("time budget exceeded")

    # ------------------------------------------------------------------ atoms
    def _new_atom(self, name, kind, **kw):
        a = Atom(len(self.atoms), name, kind, **kw)
        self.atoms.append(a)
        return a

    def sym(self, name, positive=False, unit=False, gt=None):
        if name in self.by_name:
            return self.atom_rf(self.by_name[name])
        a = self._new_atom(name, "sym", positive=positive, unit=unit)
        self.by_name[name] = a
        if gt is not None:
            self.lower_bounds[a.id] = Fraction(gt)
            if Fraction(gt) >= 0:
                a.positive = True
        # deterministic pseudo-random fingerprint value
        h = (hash_str(name) % 9973) / 9973.0
        if unit:
            a.fp = 1.0 if h > 0.5 else -1.0
        elif a.positive:
            a.fp = 0.6 + 1.7 * h + (float(gt) if gt else 0.0)
        else:
            a.fp = (0.5 + 1.9 * h) * (1.0 if hash_bit(name + "#") else -1.0)
        return self.atom_rf(a)

    def atom_rf(self, a, e=1):
        return RF(self, {((a.id, e),): Fraction(1)})

    def const(self, c):
        c = Fraction(c)
        return RF(self, {ONE_MONO: c} if c != 0 else {})

    def lift(self, v):
        if isinstance(v, RF):
            return v
        if isinstance(v, (int, Fraction)):
            return self.const(v)
        if isinstance(v, float):
            return self.const(Fraction(repr(v)))
        raise AnalysisError("cannot lift %r into the ring" % (v,))

    def opaque(self, fname, args, positive=False):
        """uninterpreted pure function application; interned semantically (equal arguments
        give the same atom)"""
        args = [self.expand_all(a) if isinstance(a, RF) and self.atoms_of(a, "defined") else a for a in args]
        rule = self.opaque_rules.get(fname)
        if rule is not None:
            r = rule(args)
            if r is not None:
                return r
        key = (fname, tuple(self.key(a) if isinstance(a, RF) else repr(a) for a in args))
        if key in self.opaques:
            return self.atom_rf(self.opaques[key])
        for (fn2, k2), at in list(self.opaques.items()):
            if fn2 != fname or len(at.args) != len(args):
                continue
            try:
                if all(isinstance(x, RF) and isinstance(y, RF) and self.equal(x, y, 4000) for x, y in zip(args, at.args)):
                    self.opaques[key] = at
                    return self.atom_rf(at)
            except Budget:
                continue
        a = self._new_atom("%s(%s)" % (fname, ",".join(self.show(x, 40) if isinstance(x, RF) else repr(x) for x in args)), "opaque", positive=positive)
        a.args = args
        a.fname = fname
        a.fp = 0.7 + (hash_str(repr(key)) % 7919) / 7919.0
        if not positive and hash_bit(repr(key) + "s"):
            a.fp = -a.fp
        self.opaques[key] = a
        self.stats["opaque"] += 1
        return self.atom_rf(a)

    # ------------------------------------------------------------------ monomials / polys
    def mono_mul(self, m1, m2):
        """multiply two monomials; returns (mono, extra) where extra is None or an RF factor
        produced by rewriting (base-atom integer parts)."""
        if not m1:
            return m2
        if not m2:
            return m1
        out = []
        i = j = 0
        n1, n2 = len(m1), len(m2)
        atoms = self.atoms
        while i < n1 and j < n2:
            a1, e1 = m1[i]
            a2, e2 = m2[j]
            if a1 == a2:
                at = atoms[a1]
                if at.idem:
                    out.append((a1, 1))
                else:
                    e = e1 + e2 if (type(e1) is int and type(e2) is int) else eadd(e1, e2)
                    if at.unit and type(e) is int:
                        e = e % 2
                    if e != 0:
                        out.append((a1, e))
                i += 1
                j += 1
            elif a1 < a2:
                out.append(m1[i])
                i += 1
            else:
                out.append(m2[j])
                j += 1
        if i < n1:
            out.extend(m1[i:])
        if j < n2:
            out.extend(m2[j:])
        return tuple(out)

    def mono_pow(self, m, e):
        out = []
        for a, x in m:
            at = self.atoms[a]
            if at.idem:
                if not (eis_num(e) and e > 0):
                    raise AnalysisError("non-positive power of an indicator")
                out.append((a, 1))
                continue
            y = emul(x, e)
            if at.unit and type(y) is int:
                y = y % 2
            if y != 0:
                out.append((a, y))
        return tuple(out)

    @staticmethod
    def padd(p, q, s=1):
        r = dict(p)
        for m, c in q.items():
            v = r.get(m, 0) + s * c
            if v == 0:
                r.pop(m, None)
            else:
                r[m] = v
        return r

    def pmul(self, p, q):
        if not p or not q:
            return {}
        n = len(p) * len(q)
        self.stats["mul_terms"] += n
        self._tick(n if n > 4000 else 0)
        if len(p) == 1:
            (m1, c1), = p.items()
            if m1 == ONE_MONO:
                return {m: c * c1 for m, c in q.items()}
        r = {}
        mm = self.mono_mul
        for m1, c1 in p.items():
            for m2, c2 in q.items():
                m = mm(m1, m2)
                v = r.get(m, 0) + c1 * c2
                if v == 0:
                    r.pop(m, None)
                else:
                    r[m] = v
        self._tick(len(r))
        return r

    def needs_rewrite(self, p):
        """does polynomial p contain base atoms with |exponent| >= 1 or negative (to be
        rewritten through their definition), or constant atoms #c with an integer exponent
        (to be folded back into the coefficient)?"""
        atoms = self.atoms
        for m in p:
            for a, e in m:
                at = atoms[a]
                if at.kind == "base" and eis_num(e) and (e >= 1 or e < 0):
                    return True
                if at.cval is not None and eis_num(e) and (e >= 1 or e < 0):
                    return True
        return False

    def rewrite_bases(self, rf):
        """B^(n+f) -> E^n * B^f  with 0 <= f < 1 ;  (#c)^(n+f) -> c^n * (#c)^f"""
        if not self.needs_rewrite(rf.num):
            return rf
        atoms = self.atoms
        total = None
        for m, c in rf.num.items():
            rest = []
            extra = None
            for a, e in m:
                at = atoms[a]
                if at.kind == "base" and eis_num(e) and (e >= 1 or e < 0):
                    n = math.floor(e)
                    f = enorm(Fraction(e) - n)
                    if f != 0:
                        rest.append((a, f))
                    t = self.pow(at.defn, n)
                    extra = t if extra is None else self.mul(extra, t)
                elif at.cval is not None and eis_num(e) and (e >= 1 or e < 0):
                    n = math.floor(e)
                    f = enorm(Fraction(e) - n)
                    if f != 0:
                        rest.append((a, f))
                    c = c * at.cval ** n
                else:
                    rest.append((a, e))
            term = RF(self, {tuple(rest): c})
            if extra is not None:
                term = self.mul(term, extra)
            total = term if total is None else self.add(total, term)
        res = RF(self, total.num if total else {}, total.den if total else ())
        if rf.den:
            res = self._mk(res.num, self._den_merge(res.den, rf.den))
        return res

    # ------------------------------------------------------------------ factor handling
    def _order_key(self, m):
        """sparse key: only a deterministic total order (display, tie-breaking)"""
        return tuple((a, ekey(e)) for a, e in m)

    def _lexkey(self, *polys):
        """admissible (multiplication-compatible) lexicographic monomial order over the atoms
        of the given polynomials: dense exponent vectors, lowest atom id most significant"""
        ids = sorted({a for p in polys for m in p for a, e in m})
        pos = {a: i for i, a in enumerate(ids)}
        n = len(ids)
        zero = (0, Fraction(0))

        def key(m):
            v = [zero] * n
            for a, e in m:
                v[pos[a]] = ekey(e)
            return tuple(v)
        return key

    def _content_split(self, p):
        """p = c * mono * q with q content-free (min exponent 0 for every atom with numeric
        exponents appearing in all terms...), leading coefficient 1.  Returns (c, mono, q)."""
        # monomial content: for each atom, min exponent across terms (numeric exponents only,
        # atom must appear in every term or min is 0 with sign considered)
        atoms_in = {}
        nterm = len(p)
        for m in p:
            for a, e in m:
                atoms_in.setdefault(a, []).append(e)
        content = []
        for a, es in atoms_in.items():
            at = self.atoms[a]
            if at.idem or at.unit:
                continue
            if not all(eis_num(e) for e in es):
                # symbolic exponents: only factor out when identical in all terms
                if len(es) == nterm and all(e == es[0] for e in es):
                    content.append((a, es[0]))
                continue
            mn = min(es)
            if len(es) < nterm:
                mn = min(mn, 0)
            if mn != 0:
                content.append((a, mn))
        content = tuple(sorted(content))
        if content:
            inv = self.mono_pow(content, -1)
            q = {}
            for m, c in p.items():
                q[self.mono_mul(m, inv)] = c
        else:
            q = dict(p)
        lead = max(q, key=self._lexkey(q))
        c = q[lead]
        if c != 1:
            q = {m: v / c for m, v in q.items()}
        return c, content, q

    def _factor_id(self, q):
        key = frozenset(q.items())
        fid = self.factor_index.get(key)
        if fid is None:
            fid = len(self.factors)
            self.factors.append(q)
            self.factor_index[key] = fid
        return fid

    @staticmethod
    def _den_merge(d1, d2):
        if not d1:
            return d2
        if not d2:
            return d1
        r = dict(d1)
        for f, m in d2:
            r[f] = r.get(f, 0) + m
        return tuple(sorted((f, m) for f, m in r.items() if m))

    def try_divide(self, p, f):
        """exact division p / f in the polynomial ring, or None.  Both dict polys, numeric
        exponents required; f content-free with leading coefficient 1."""
        if not p:
            return {}
        for poly in (p, f):
            for m in poly:
                for a, e in m:
                    if not eis_num(e):
                        return None
        if len(f) > len(p) * 4 + 4:
            pass
        # bring p to content-free form w.r.t. negative exponents: multiply by monomial so
        # that all exponents >= 0 (f is already content-free with min exponent 0)
        mins = {}
        for m in p:
            for a, e in m:
                if e < mins.get(a, 0):
                    mins[a] = e
        shift = tuple(sorted((a, -e) for a, e in mins.items()))
        if shift:
            p = {self.mono_mul(m, shift): c for m, c in p.items()}
        key = self._lexkey(p, f)
        lf = max(f, key=key)
        lfinv = self.mono_pow(lf, -1)
        rem = dict(p)
        quo = {}
        steps = 0
        limit = 4 * (len(p) + 4) * (len(f) + 1)
        while rem:
            steps += 1
            if steps > limit:
                return None
            lm = max(rem, key=key)
            qm = self.mono_mul(lm, lfinv)
            if any((eis_num(e) and e < 0) for a, e in qm if not self.atoms[a].unit):
                return None
            qc = rem[lm]
            quo[qm] = quo.get(qm, 0) + qc
            for m, c in f.items():
                mm = self.mono_mul(qm, m)
                v = rem.get(mm, 0) - qc * c
                if v == 0:
                    rem.pop(mm, None)
                else:
                    rem[mm] = v
        if shift:
            inv = self.mono_pow(shift, -1)
            quo = {self.mono_mul(m, inv): c for m, c in quo.items()}
        return quo

    def _has_special(self, p):
        atoms = self.atoms
        for m in p:
            for a, e in m:
                if atoms[a].idem or atoms[a].unit:
                    return True
        return False

    def _mk(self, num, den):
        """build a normalised RF: cancel denominator factors that divide num exactly"""
        if not num:
            return RF(self, {}, ())
        if den:
            newden = []
            for fid, mult in den:
                f = self.factors[fid]
                special = self._has_special(f) or self._has_special(num)
                while mult > 0 and not special:
                    q = self.try_divide(num, f)
                    if q is None:
                        break
                    num = q
                    mult -= 1
                if mult:
                    newden.append((fid, mult))
            den = tuple(newden)
        return RF(self, num, den)

    def den_poly(self, rf):
        """expanded denominator polynomial"""
        d = {ONE_MONO: Fraction(1)}
        for fid, mult in rf.den:
            for _ in range(mult):
                d = self.pmul(d, self.factors[fid])
        return d

    # ------------------------------------------------------------------ ring operations
    def neg(self, a):
        return RF(self, {m: -c for m, c in a.num.items()}, a.den)

    def add(self, a, b, s=1):
        if not b.num:
            return a
        if not a.num:
            return b if s == 1 else self.neg(b)
        if a.den == b.den:
            return self._mk(self.padd(a.num, b.num, s), a.den)
        da, db = dict(a.den), dict(b.den)
        common = {}
        for f in set(da) | set(db):
            common[f] = max(da.get(f, 0), db.get(f, 0))
        na = a.num
        for f, mx in common.items():
            for _ in range(mx - da.get(f, 0)):
                na = self.pmul(na, self.factors[f])
        nb = b.num
        for f, mx in common.items():
            for _ in range(mx - db.get(f, 0)):
                nb = self.pmul(nb, self.factors[f])
        r = self._mk(self.padd(na, nb, s), tuple(sorted(common.items())))
        if self.needs_rewrite(r.num):
            r = self.rewrite_bases(r)     # products with denominator factors may complete a square root
        return r

    def sub(self, a, b):
        return self.add(a, b, -1)

    def mul(self, a, b):
        if not a.num or not b.num:
            return RF(self, {}, ())
        num = self.pmul(a.num, b.num)
        r = self._mk(num, self._den_merge(a.den, b.den))
        if self.needs_rewrite(r.num):
            r = self.rewrite_bases(r)
        return r

    def inv(self, a):
        if not a.num:
            raise AnalysisError("division by an identically zero expression")
        # numerator becomes denominator factor(s)
        c, mono, q = self._content_split(a.num)
        numm = self.mono_pow(mono, -1)
        den = ()
        if len(q) == 1:
            (qm, qc), = q.items()
            for at, e in qm:
                if self.atoms[at].idem:
                    raise AnalysisError("division by an indicator")
            numm = self.mono_mul(numm, qm)      # unit atoms: 1/d == d
        else:
            den = self._peel_factors(q)
        num = {numm: Fraction(1) / c}
        # old denominator goes to numerator
        for fid, mult in a.den:
            for _ in range(mult):
                num = self.pmul(num, self.factors[fid])
        r = self._mk(num, den)
        if self.needs_rewrite(r.num):
            r = self.rewrite_bases(r)
        return r

    def _peel_factors(self, q):
        """denominator factor list for the content-free polynomial q: already interned
        factors that divide q exactly are peeled off so that factor identity is kept"""
        if self._has_special(q) or len(q) < 3:
            return ((self._factor_id(q), 1),)
        qatoms = {a for m in q for a, e in m}
        out = {}
        changed = True
        rounds = 0
        while changed and len(q) > 1 and rounds < 6:
            changed = False
            rounds += 1
            for fid, f in enumerate(self.factors):
                if len(f) > len(q) or len(f) < 2 or self._has_special(f):
                    continue
                if not {a for m in f for a, e in m} <= qatoms:
                    continue
                if frozenset(f.items()) == frozenset(q.items()):
                    continue
                r = self.try_divide(q, f)
                if r is None:
                    continue
                c, mono, r2 = self._content_split(r)
                if mono or c != 1:
                    # quotient must stay content-free with unit leading coefficient
                    if mono:
                        continue
                out[fid] = out.get(fid, 0) + 1
                q = r2
                changed = True
                break
        if len(q) > 1:
            fid = self._factor_id(q)
            out[fid] = out.get(fid, 0) + 1
        return tuple(sorted(out.items()))

    def _is_unit_poly(self, q):
        return False

    def div(self, a, b):
        c = b.const_value()
        if c is not None:
            if c == 0:
                raise AnalysisError("division by literal zero")
            return RF(self, {m: v / c for m, v in a.num.items()}, a.den)
        return self.mul(a, self.inv(b))

    def pow(self, a, e):
        """a ** e ; e int/Fraction/QExp or an RF in gamma only"""
        if isinstance(e, RF):
            e = self.exp_of(e)
        e = enorm(e)
        if e == 0:
            return self.const(1)
        if e == 1:
            return a
        if type(e) is int:
            if e < 0:
                return self.pow(self.inv(a), -e)
            r = None
            base = a
            n = e
            while n:
                if n & 1:
                    r = base if r is None else self.mul(r, base)
                n >>= 1
                if n:
                    base = self.mul(base, base)
            return r
        # non-integer power: a must be a product of positive things
        return self._frac_pow(a, e)

    def exp_of(self, rf):
        """convert a ring element depending only on the gamma atom into an exponent"""
        c = rf.const_value()
        if c is not None:
            return enorm(c)
        if self.gamma is None:
            raise AnalysisError("symbolic exponent without a declared gamma atom")
        gid = self.gamma.id

        def up(p):
            out = {}
            for m, c in p.items():
                if m == ONE_MONO:
                    k = 0
                elif len(m) == 1 and m[0][0] == gid and type(m[0][1]) is int and m[0][1] >= 0:
                    k = m[0][1]
                else:
                    raise AnalysisError("exponent is not a rational function of gamma: %s" % self.show(rf))
                out[k] = c
            n = max(out) + 1 if out else 0
            return tuple(out.get(i, Fraction(0)) for i in range(n))
        # numerator may have negative powers of gamma: multiply through
        mins = 0
        for m in rf.num:
            for a, e in m:
                if a == gid and type(e) is int and e < mins:
                    mins = e
        num = rf.num
        den = self.den_poly(rf)
        if mins < 0:
            sh = ((gid, -mins),)
            num = {self.mono_mul(m, sh): c for m, c in num.items()}
            den = {self.mono_mul(m, sh): c for m, c in den.items()}
        return enorm(QExp(up(num), up(den)))

    def _frac_pow(self, a, e):
        if not a.num:
            if eis_num(e) and Fraction(e) > 0:
                return self.const(0)           # 0**(1/2) = 0
            raise AnalysisError("fractional power of zero")
        if self.atoms_of(a, "defined"):
            a = self.expand_all(a)      # let sqrt see through named sub-expressions
        # declared perfect squares: (radicand, non-negative root) pairs stated by the caller; the
        # rule applies only when the radicand met here is ring-equal to the declared one
        if self.root_rules and eis_num(e) and Fraction(e) == Fraction(1, 2):
            for rad, root in self.root_rules:
                try:
                    if self.equal(a, rad, 8000):
                        return root
                except Budget:
                    pass
        # semantic interning of radicands: a rational form equal (in the ring) to one that was
        # powered before is decomposed exactly like it
        if a.den or len(a.num) > 1:
            fpa = self.fingerprint(a)
            for a0, fp0 in self._radicands:
                if fpa is not None and fp0 is not None and _close(fpa, fp0) and a0 is not a:
                    try:
                        if self.key(a0) != self.key(a) and self.equal(a, a0, 8000):
                            a = a0
                            break
                    except Budget:
                        pass
            else:
                self._radicands.append((a, fpa))
        c, mono, q = self._content_split(a.num)
        res = None
        # constant
        if c < 0:
            if len(q) > 1:
                # leading coefficient is negative only by term order: E = (-c)*mono*(-q)
                c = -c
                q = {m: -v for m, v in q.items()}
            else:
                raise AnalysisError("fractional power of a negative expression %s" % self.show(a))
        res = self._const_pow(c, e)
        # monomial part: atoms must be positive
        posmono = []
        for at, x in mono:
            A = self.atoms[at]
            if A.positive or A.kind == "base" or A.sign == "+":
                posmono.append((at, x))
                continue
            y = emul(x, e)
            if eis_num(x) and type(x) is int and x % 2 == 0 and type(y) is int:
                # (x^(2k))^e = |x|^(2k e)
                t = RF(self, {((at, y),): Fraction(1)})
                if y % 2:
                    t = self.mul(t, self.signfn(self.atom_rf(A)))
                res = self.mul(res, t)
                continue
            raise AnalysisError("fractional power of sign-indefinite atom %s" % A.name)
        mono = tuple(posmono)
        res = self.mul(res, RF(self, {self.mono_pow(mono, e): Fraction(1)}))
        if len(q) > 1:
            res = self.mul(res, self._base_pow(q, e))
        for fid, mult in a.den:
            y = enorm(emul(e, -mult))
            if type(y) is int and y % 2 and eis_num(e) and Fraction(e).denominator % 2 == 0:
                # (F^(2k))^(1/2) = |F|^k : a denominator factor of even multiplicity leaves the root as an ODD power,
                # which is F^k only where F > 0 (sqrt(1/F^2) = 1/|F|)
                F = RF(self, dict(self.factors[fid]))
                if self.sign(F) not in ("+",):
                    res = self.mul(res, self.pow(self.abs(F), y))
                    continue
            res = self.mul(res, self._base_pow(self.factors[fid], emul(e, -mult)))
        return res

    def _const_pow(self, c, e):
        if c == 1:
            return self.const(1)
        if eis_num(e):
            e = Fraction(e)
            # exact rational root?
            n, d = e.numerator, e.denominator
            rn = _iroot(c.numerator, d)
            rd = _iroot(c.denominator, d)
            if rn is not None and rd is not None:
                return self.const(Fraction(rn, rd) ** n)
        # atom for the positive constant
        name = "#%s" % c
        if name not in self.by_name:
            a = self._new_atom(name, "sym", positive=True)
            a.fp = float(c)
            a.cval = Fraction(c)
            self.by_name[name] = a
        return RF(self, {((self.by_name[name].id, enorm(e)),): Fraction(1)})

    def _base_pow(self, q, e):
        """(content-free non-monomial polynomial q) ** e"""
        e = enorm(e)
        if type(e) is int:
            return self.pow(RF(self, dict(q)), e)
        b = self._base_atom(q)
        r = RF(self, {((b.id, e),): Fraction(1)})
        if self.needs_rewrite(r.num):
            r = self.rewrite_bases(r)
        return r

    def _base_atom(self, q):
        key = frozenset(q.items())
        for b in self.bases:
            if b.cond == key:
                return b
        b = self._new_atom("B%d[%s]" % (len(self.bases), self.show_poly(q, 60)), "base", positive=True)
        b.defn = RF(self, dict(q))
        b.cond = key
        self.bases.append(b)
        return b

    def sqrt(self, a):
        return self.pow(a, Fraction(1, 2))

    # ------------------------------------------------------------------ signs
    def sign(self, rf):
        """'+', '-', '0', '>=0', '<=0' or None.  Uses atom positivity, lower bounds (by the
        shift x = bound + x'), known facts."""
        if not rf.num:
            return "0"
        if self.integer_atoms and not rf.den and len(rf.num) == 2 and rf.num.get(ONE_MONO) == -1:
            # n - 1 for a POSITIVE INTEGER n (a grid size, a count): n >= 1
            (m, c), = [(m, c) for m, c in rf.num.items() if m != ONE_MONO]
            if c == 1 and len(m) == 1 and m[0][1] == 1 and m[0][0] in self.integer_atoms and self.atoms[m[0][0]].positive:
                return ">=0"
        inds = sorted(self.atoms_of(rf, "ind"))
        if inds and len(inds) <= 4 and rf.den:
            # Shannon split of the whole quotient (numerator and denominator jointly)
            w = inds[0]
            cond = self.atoms[w].cond
            res = []
            for val, fact in ((1, dict(cond)), (0, {m: -c for m, c in cond.items()})):
                self.facts_nonneg.append(fact)
                try:
                    num = self._subst_atom_const(rf.num, w, val)
                    r = RF(self, num)
                    bad = False
                    for fid, mult in rf.den:
                        fp = self._subst_atom_const(self.factors[fid], w, val)
                        if not fp:
                            bad = True
                            break
                        r = self.div(r, self.pow(RF(self, fp), mult))
                    res.append(None if bad else self.sign(r))
                finally:
                    self.facts_nonneg.pop()
            if None in res:
                return None
            if res[0] == res[1]:
                return res[0]
            both = set(res)
            if both <= {"+", ">=0", "0"}:
                return ">=0"
            if both <= {"-", "<=0", "0"}:
                return "<=0"
            return None
        s = self._sign_poly(rf.num)
        if s is None:
            return None
        for fid, mult in rf.den:
            fs = self._sign_poly(self.factors[fid])
            if fs not in ("+", "-"):
                if mult % 2 == 0 and fs is not None:
                    continue
                if mult % 2 == 0:
                    continue
                return None
            if fs == "-" and mult % 2 == 1:
                s = _flip(s)
        return s

    def _term_sign(self, m, c):
        s = 1 if c > 0 else -1
        strict = True
        for a, e in m:
            at = self.atoms[a]
            if at.positive or at.kind == "base":
                continue
            if at.idem:
                strict = False
                continue
            if at.sign is not None:
                if at.sign in ("+", "-"):
                    if at.sign == "-" and eis_num(e) and Fraction(e).denominator == 1 and int(e) % 2:
                        s = -s
                    elif at.sign == "-" and not (eis_num(e) and Fraction(e).denominator == 1):
                        return None
                    continue
                if at.sign in (">=0", "<=0"):
                    strict = False
                    if at.sign == "<=0":
                        if eis_num(e) and Fraction(e).denominator == 1:
                            if int(e) % 2:
                                s = -s
                        else:
                            return None
                    continue
            if eis_num(e) and Fraction(e).denominator == 1 and int(e) % 2 == 0:
                strict = False
                continue
            return None
        return (s, strict)

    def _sign_poly(self, p, depth=0):
        if not p:
            return "0"
        # shift atoms with lower bounds
        if self.lower_bounds and depth == 0:
            used = set(a for m in p for a, e in m)
            for aid, lb in self.lower_bounds.items():
                if aid in used and lb != 0:
                    ok = all(type(e) is int and e >= 0 for m in p for a, e in m if a == aid)
                    if not ok:
                        # try after clearing negative integer powers (multiply by positive monomial)
                        mn = min([e for m in p for a, e in m if a == aid and type(e) is int] or [0])
                        if all(type(e) is int for m in p for a, e in m if a == aid) and mn < 0:
                            sh = ((aid, -mn),)
                            p = {self.mono_mul(m, sh): c for m, c in p.items()}
                        else:
                            continue
                    # substitute x = lb + x  (x then ranges over positives)
                    x = RF(self, {((aid, 1),): Fraction(1), ONE_MONO: lb})
                    tot = {}
                    for m, c in p.items():
                        k = 0
                        rest = []
                        for a, e in m:
                            if a == aid:
                                k = e
                            else:
                                rest.append((a, e))
                        t = {tuple(rest): c}
                        if k:
                            t = self.pmul(t, self.pow(x, k).num)
                        tot = self.padd(tot, t)
                    p = tot
                    if not p:
                        return "0"
        # Shannon split over indicator atoms: a sign common to every branch is the sign
        inds = sorted({a for m in p for a, e in m if self.atoms[a].idem})
        if inds and len(inds) <= 5 and depth < 3:
            w = inds[0]
            cond = self.atoms[w].cond
            # inside each branch the indicator's own condition is a fact
            self.facts_nonneg.append(dict(cond))
            try:
                s1 = self._sign_poly(self._subst_atom_const(p, w, 1), depth)
            finally:
                self.facts_nonneg.pop()
            if s1 is None:
                return None
            self.facts_nonneg.append({m: -c for m, c in cond.items()})
            try:
                s0 = self._sign_poly(self._subst_atom_const(p, w, 0), depth)
            finally:
                self.facts_nonneg.pop()
            if s0 is None:
                return None
            if s1 == s0:
                return s1
            both = {s1, s0}
            if both <= {"+", ">=0", "0"}:
                return ">=0"
            if both <= {"-", "<=0", "0"}:
                return "<=0"
            return None
        pos = neg = 0
        spos = sneg = False
        for m, c in p.items():
            r = self._term_sign(m, c)
            if r is None:
                pos = neg = -1
                break
            s, strict = r
            if s > 0:
                pos += 1
                spos = spos or strict
            else:
                neg += 1
                sneg = sneg or strict
        if pos >= 0:
            if neg == 0:
                return "+" if spos else ">=0"
            if pos == 0:
                return "-" if sneg else "<=0"
        # facts: p == c*mono*F  or  p - q*F has a sign
        if depth < 3:
            for F, strictF in [(f, True) for f in self.facts_pos] + [(f, False) for f in self.facts_nonneg]:
                r = self._match_fact(p, F, strictF, depth)
                if r is not None:
                    return r
        return None

    def _match_fact(self, p, F, strictF, depth):
        """p == Q*F + rem with Q a polynomial whose terms all have one definite sign and rem
        of trivially known compatible sign (division of p by the fact F, lex order)."""
        self._tick()
        if len(p) > 300 or len(F) > 300:
            return None
        key = self._lexkey(p, F)
        lf = max(F, key=key)
        lfinv = self.mono_pow(lf, -1)
        rem = dict(p)
        qsign = 0
        qstrict = False
        stuck = {}
        steps = 0
        while rem and steps < 3 * len(p) + 8:
            steps += 1
            tm = max(rem, key=key)
            tc = rem[tm]
            qm = self.mono_mul(tm, lfinv)
            qc = tc / F[lf]
            ts = self._term_sign(qm, qc)
            if ts is None or (qsign and ts[0] != qsign):
                stuck[tm] = rem.pop(tm)
                continue
            qsign = ts[0]
            qstrict = qstrict or ts[1]
            for m, c in F.items():
                mm = self.mono_mul(qm, m)
                v = rem.get(mm, 0) - qc * c
                if v == 0:
                    rem.pop(mm, None)
                else:
                    rem[mm] = v
            # stop as soon as what is left has a trivially known compatible sign
            left = dict(stuck)
            for m, c in rem.items():
                left[m] = left.get(m, 0) + c
            left = {m: c for m, c in left.items() if c != 0}
            # the remainder may itself need one more fact (b = (b-a) + a with b-a >= 0, a >= 0)
            rs0 = self._sign_poly(left, 2 if (self.deep_facts and depth == 0) else 3) if left else "0"
            if rs0 is not None:
                if qsign > 0 and rs0 in ("+", ">=0", "0"):
                    return "+" if ((qstrict and strictF) or rs0 == "+") else ">=0"
                if qsign < 0 and rs0 in ("-", "<=0", "0"):
                    return "-" if ((qstrict and strictF) or rs0 == "-") else "<=0"
        if not qsign:
            return None
        for m, c in rem.items():
            stuck[m] = stuck.get(m, 0) + c
        stuck = {m: c for m, c in stuck.items() if c != 0}
        if len(stuck) >= len(p):
            return None
        rs = "0"
        if stuck:
            rs = self._sign_poly(stuck, 3)      # term signs only
            if rs is None:
                return None
        if qsign > 0 and rs in ("+", ">=0", "0"):
            return "+" if ((qstrict and strictF) or rs == "+") else ">=0"
        if qsign < 0 and rs in ("-", "<=0", "0"):
            return "-" if ((qstrict and strictF) or rs == "-") else "<=0"
        return None

    def assume_pos(self, rf):
        """record the fact rf > 0 (rf must have a trivial or positive denominator)"""
        self.facts_pos.append(self._cond_poly(rf)[0])

    def assume_nonneg(self, rf):
        self.facts_nonneg.append(self._cond_poly(rf)[0])

    # ------------------------------------------------------------------ indicators
    def _cond_poly(self, rf):
        """polynomial C with sign(C) == sign(rf) up to a known sign flip.  Returns (C, flip)."""
        p = rf.num
        for fid, mult in rf.den:
            fs = self._sign_poly(self.factors[fid])
            if fs == "+":
                continue
            if fs == "-":
                if mult % 2:
                    p = {m: -c for m, c in p.items()}
                continue
            if mult % 2:
                p = self.pmul(p, self.factors[fid])
        return p, False

    def _normalize_cond(self, p):
        """strip positive content; sign-normalise; returns (C frozen, flipped)"""
        c, mono, q = self._content_split(p)
        flip = c < 0
        # monomial content: positive atoms dropped, sign-indefinite atoms with odd power kept
        keep = []
        for a, e in mono:
            at = self.atoms[a]
            if at.positive or at.kind == "base":
                continue
            if at.sign == "+":
                continue
            if at.sign == "-" and eis_num(e) and Fraction(e).denominator == 1:
                if int(e) % 2:
                    flip = not flip
                continue
            if eis_num(e) and Fraction(e).denominator == 1:
                if int(e) % 2 == 0:
                    continue     # x^2 >= 0 (tie at x == 0 identified)
                keep.append((a, 1))
            else:
                raise AnalysisError("condition on fractional power of indefinite atom")
        if keep:
            q = self.pmul(q, {tuple(keep): Fraction(1)})
            # re-normalise leading coefficient
            lead = max(q, key=self._lexkey(q))
            if q[lead] < 0:
                q = {m: -v for m, v in q.items()}
                flip = not flip
        return q, flip

    def indicator(self, rf):
        """[rf >= 0] as a ring element (ties identified with [rf > 0])"""
        s = self.sign(rf)
        if s in ("+", ">=0", "0"):
            return self.const(1)
        if s == "-":
            return self.const(0)
        if s == "<=0":
            return self.const(0)   # tie identified
        p, _ = self._cond_poly(rf)
        if self.needs_rewrite(p):
            r = self.rewrite_bases(RF(self, p))
            p, _ = self._cond_poly(r)
        # Shannon expansion over indicator atoms contained in the condition
        for m in p:
            for a, e in m:
                if self.atoms[a].idem:
                    w = self.atom_rf(self.atoms[a])
                    wc = self.atoms[a].cond
                    p1 = self._subst_atom_const(p, a, 1)
                    p0 = self._subst_atom_const(p, a, 0)
                    # inside each branch the selecting indicator's own condition is a fact
                    self.facts_nonneg.append(dict(wc))
                    try:
                        i1 = self.indicator(RF(self, p1))
                    finally:
                        self.facts_nonneg.pop()
                    self.facts_nonneg.append({m: -c for m, c in wc.items()})
                    try:
                        i0 = self.indicator(RF(self, p0))
                    finally:
                        self.facts_nonneg.pop()
                    return self.add(self.mul(w, i1), self.mul(self.sub(self.const(1), w), i0))
        s = self._sign_poly(p)
        if s in ("+", ">=0", "0"):
            return self.const(1)
        if s in ("-", "<=0"):
            return self.const(0)
        q, flip = self._normalize_cond(p)
        s = self._sign_poly(q)
        if s is None and (self.facts_pos or self.facts_nonneg) and self.atoms_of(RF(self, q), "defined"):
            # regime facts are stated over input atoms: look through named sub-expressions
            try:
                ex = self.expand_all(RF(self, q))
                pe, _ = self._cond_poly(ex)
                s = self._sign_poly(pe)
            except Budget:
                s = None
        if s is not None:
            v = 1 if s in ("+", ">=0", "0") else 0
            return self.const(1 - v if flip else v)
        key = frozenset(q.items())
        a = self.inds.get(key)
        if a is None:
            a = self._new_atom("W[%s>=0]" % self.show_poly(q, 60), "ind", idem=True)
            a.cond = q
            self.inds[key] = a
        w = self.atom_rf(a)
        return self.sub(self.const(1), w) if flip else w

    def _subst_atom_const(self, p, aid, val):
        r = {}
        for m, c in p.items():
            if any(a == aid for a, e in m):
                if val == 0:
                    continue
                m = tuple((a, e) for a, e in m if a != aid)
            v = r.get(m, 0) + c
            if v == 0:
                r.pop(m, None)
            else:
                r[m] = v
        return r

    def abs(self, a):
        s = self.sign(a)
        if s in ("+", ">=0", "0"):
            return a
        if s in ("-", "<=0"):
            return self.neg(a)
        w = self.indicator(a)
        return self.mul(self.sub(self.mul(self.const(2), w), self.const(1)), a)

    def signfn(self, a):
        w = self.indicator(a)
        return self.sub(self.mul(self.const(2), w), self.const(1))

    def maximum(self, a, b):
        w = self.indicator(self.sub(a, b))
        return self.add(self.mul(w, a), self.mul(self.sub(self.const(1), w), b))

    def minimum(self, a, b):
        w = self.indicator(self.sub(a, b))
        return self.add(self.mul(w, b), self.mul(self.sub(self.const(1), w), a))

    def where(self, c, a, b):
        return self.add(self.mul(c, a), self.mul(self.sub(self.const(1), c), b))

    def cmp(self, op, a, b):
        """comparison -> indicator ring element; strict / non-strict identified"""
        d = self.sub(a, b) if op in (">", ">=") else self.sub(b, a)
        if op in (">", ">=", "<", "<="):
            if d.is_zero():
                # identically equal operands: not a measure-zero tie, the comparison is decided
                return self.const(1 if op in (">=", "<=") else 0)
            return self.indicator(d)
        raise AnalysisError("unsupported comparison %s on values" % op)

    # ------------------------------------------------------------------ defined atoms
    def atoms_of(self, rf, kind=None):
        ids = set()
        for m in rf.num:
            for a, e in m:
                ids.add(a)
        for fid, mult in rf.den:
            for m in self.factors[fid]:
                for a, e in m:
                    ids.add(a)
        if kind:
            ids = {a for a in ids if self.atoms[a].kind == kind}
        return ids

    def fold(self, rf, hint="v"):
        """hierarchical value numbering: name a large form by a `defined` atom, re-using an
        existing atom when the definitions are provably equal up to sign."""
        if not self.fold_enabled or not isinstance(rf, RF):
            return rf
        if rf.nterms() <= self.fold_threshold:
            return rf
        fp = self.fingerprint(rf)
        for d in reversed(self.defined):
            if d.fp is None or fp is None:
                continue
            try:
                if _close(fp, d.fp):
                    if self.equal(rf, d.defn, 6000):
                        return self.atom_rf(d)
                elif _close(fp, -d.fp):
                    if self.equal(rf, self.neg(d.defn), 6000):
                        return self.neg(self.atom_rf(d))
            except Budget:
                continue
        a = self._new_atom("%s%d" % (hint, len(self.defined)), "defined")
        a.defn = rf
        a.fp = fp
        # sign of the folded value: a convenience for later sign certificates, so it gets a small
        # budget of its own (2 s) and "unknown" when that runs out
        saved = (self._t0, self.time_budget)
        self._t0, self.time_budget = time.time(), 2.0
        try:
            s = self.sign(rf)
        except Budget:
            s = None
        finally:
            self._t0, self.time_budget = saved
        if s in ("+", "-", ">=0", "<=0"):
            a.sign = s
            if s == "+":
                a.positive = True
        self.defined.append(a)
        self.stats["folds"] += 1
        return self.atom_rf(a)

    def expand_atom(self, rf, aid):
        """substitute the definition of defined atom aid in rf"""
        at = self.atoms[aid]
        d = at.defn

        def sub_poly(p):
            # p = plain + sum_k P_k * atom^k : one product per power instead of one per monomial
            plain = {}
            bypow = {}
            for m, c in p.items():
                k = None
                for a, e in m:
                    if a == aid:
                        k = e
                if k is None:
                    plain[m] = c
                    continue
                rest = tuple((a, e) for a, e in m if a != aid)
                if not (type(k) is int):
                    raise AnalysisError("fractional power of a defined atom")
                bypow.setdefault(k, {})[rest] = c
            r = RF(self, plain)
            for k in sorted(bypow):
                r = self.add(r, self.mul(RF(self, bypow[k]), self.pow(d, k)))
            return r
        num = sub_poly(rf.num)
        if not rf.den:
            return num
        res = num
        keep = []
        for fid, mult in rf.den:
            f = self.factors[fid]
            if any(a == aid for m in f for a, e in m):
                res = self.div(res, self.pow(sub_poly(f), mult))
            else:
                keep.append((fid, mult))      # untouched factors keep their identity
        if keep:
            res = self._mk(res.num, self._den_merge(res.den, tuple(keep)))
        return res

    def expand_all(self, rf, limit=200):
        n = 0
        while True:
            ids = self.atoms_of(rf, "defined")
            if not ids:
                return rf
            rf = self.expand_atom(rf, max(ids))
            n += 1
            if n > limit:
                raise Budget("too many expansions")

    def equal(self, a, b, term_budget=None):
        """decide a == b in the ring; defined atoms are expanded most-recent-first only
        while the difference is non-zero (iterative deepening).  True = proved identity.
        False = the fully expanded difference is a non-zero ring element.  Raises Budget."""
        self.stats["equal_calls"] += 1
        saved = self.term_budget
        if term_budget is not None:
            self.term_budget = term_budget
        try:
            d = self.sub(a, b)
            n = 0
            while True:
                if not d.num:
                    return True
                ids = self.atoms_of(RF(self, d.num), "defined")
                if not ids:
                    return False
                d = self.expand_atom(RF(self, d.num), max(ids))
                self.stats["deepen"] += 1
                n += 1
                if n > 400:
                    raise Budget("equality deepening limit")
        finally:
            self.term_budget = saved

    # ------------------------------------------------------------------ random interpretation
    def point_value(self, at, k):
        """deterministic pseudo-random admissible value of a sym/opaque atom at point k"""
        hook = self.point_hooks.get(at.name)
        if hook is not None:
            return hook(k)
        for rx, fn in self.point_pattern_hooks:
            m = rx.match(at.name)
            if m:
                return fn(m, k, (hash_str("%s|%d" % (at.name, k)) % 100003) / 100003.0)
        h = (hash_str("%s|%d" % (at.name, k)) % 100003) / 100003.0
        th = self.threshold_hints.get(at.name)
        if th and k % 3 == 1:
            # every third point: just BELOW (in magnitude) one of the literals this symbol meets in a max / min
            c = th[(k // 3) % len(th)]
            v = c * (0.05 + 0.9 * h)
            if not at.positive or v > float(self.lower_bounds.get(at.id, 0)):
                return v
        # sign bit: a HIGH bit of the hash (the lowest bit of FNV-1a is the parity of the characters' low bits,
        # which made the signs of `uL` and `uR` equal at every point: opposite-sign pairs were never sampled)
        h2 = hash_bit("%s#%d" % (at.name, k))
        if k >= WIDE_K and not at.unit:
            # escalation stage of the witness search: log-uniform magnitudes over three decades,
            # caller's ranges ignored (marginal / strongly sheared / strongly stratified states)
            lb = float(self.lower_bounds.get(at.id, 0))
            mag = 10.0 ** (-1.5 + 3.0 * h)
            if at.positive:
                return lb + mag
            return mag if h2 else -mag
        rng = self.ranges.get(at.name)
        if rng is not None:
            return rng[0] + (rng[1] - rng[0]) * h
        if at.unit:
            return 1.0 if h2 else -1.0
        lb = float(self.lower_bounds.get(at.id, 0))
        if at.positive:
            return lb + 0.3 + 2.7 * h
        return (0.2 + 2.8 * h) * (1.0 if h2 else -1.0)

    def evalf(self, rf, k, memo=None):
        """value of rf at pseudo-random point k in 70-digit decimal arithmetic (robust against
        the cancellation of large expanded forms); None if not evaluable"""
        if memo is None:
            memo = self._memo.setdefault(k, {})
        try:
            v = self._ev_poly(rf.num, k, memo)
            for fid, mult in rf.den:
                v = DCTX.divide(v, DCTX.power(self._ev_poly(self.factors[fid], k, memo), mult))
            return v
        except (ZeroDivisionError, ValueError, OverflowError, TypeError, decimal.DecimalException):
            return None

    def evalf_raise(self, rf, k, memo):
        v = self._ev_poly(rf.num, k, memo)
        for fid, mult in rf.den:
            v = DCTX.divide(v, DCTX.power(self._ev_poly(self.factors[fid], k, memo), mult))
        return v

    def _ev_atom(self, aid, k, memo):
        if aid in memo:
            return memo[aid]
        at = self.atoms[aid]
        fnum = self.numeric_functions.get(getattr(at, "fname", None)) if (at.kind == "opaque" and self.numeric_functions) else None
        if fnum is not None and all(isinstance(x, RF) for x in at.args):
            v = fnum(*[self.evalf_raise(x, k, memo) for x in at.args])
        elif at.kind in ("sym", "opaque"):
            if at.name.startswith("#"):
                fr = Fraction(at.name[1:])
                v = DCTX.divide(Decimal(fr.numerator), Decimal(fr.denominator))
            else:
                v = Decimal(repr(self.point_value(at, k)))
        elif at.kind in ("base", "defined"):
            v = self._ev_poly(at.defn.num, k, memo)
            for fid, mult in at.defn.den:
                v = DCTX.divide(v, DCTX.power(self._ev_poly(self.factors[fid], k, memo), mult))
        elif at.kind == "ind":
            v = Decimal(1) if self._ev_poly(at.cond, k, memo) >= 0 else Decimal(0)
        else:
            v = Decimal(1)
        memo[aid] = v
        return v

    def _ev_poly(self, p, k, memo):
        g = None
        tot = Decimal(0)
        for m, c in p.items():
            t = DCTX.divide(Decimal(c.numerator), Decimal(c.denominator))
            for a, e in m:
                v = self._ev_atom(a, k, memo)
                if isinstance(e, QExp):
                    if g is None:
                        g = self._ev_atom(self.gamma.id, k, memo) if self.gamma is not None else Decimal("1.4")
                    n = sum((DCTX.multiply(Decimal(cc.numerator) / Decimal(cc.denominator), DCTX.power(g, i)) for i, cc in enumerate(e.num)), Decimal(0))
                    d = sum((DCTX.multiply(Decimal(cc.numerator) / Decimal(cc.denominator), DCTX.power(g, i)) for i, cc in enumerate(e.den)), Decimal(0))
                    ee = DCTX.divide(n, d)
                elif type(e) is int:
                    ee = e
                else:
                    ee = DCTX.divide(Decimal(e.numerator), Decimal(e.denominator))
                if type(ee) is not int and v <= 0:
                    raise ValueError("non-positive base of fractional power")
                t = DCTX.multiply(t, DCTX.power(v, ee))
            tot = DCTX.add(tot, t)
        return tot

    def admissible(self, k):
        memo = self._memo.setdefault(k, {})
        try:
            for f in self.facts_pos:
                if not self._ev_poly(f, k, memo) > 0:
                    return False
            for f in self.facts_nonneg:
                if not self._ev_poly(f, k, memo) >= 0:
                    return False
        except (ZeroDivisionError, ValueError, OverflowError, decimal.DecimalException):
            return False
        return True

    def witness(self, a, b, npoints=None, tries=None, rtol=1e-12, k0=0):
        import os
        deep = os.environ.get("FDCHECK_TIER") == "thorough"
        npoints = npoints or (24 if deep else 6)
        tries = tries or (4000 if deep else 600)
        """search an admissible point where a and b differ.  Returns (status, info):
        'differ' with the witness, 'agree' if a and b agree at npoints admissible points,
        'nopoint' if too few admissible points were found."""
        found = 0
        tol = Decimal(repr(rtol))
        for k in range(k0, k0 + tries):
            if not self.admissible(k):
                continue
            va, vb = self.evalf(a, k), self.evalf(b, k)
            if va is None or vb is None or va.is_nan() or vb.is_nan():
                continue
            found += 1
            if abs(va - vb) > tol * max(Decimal(1), abs(va), abs(vb)):
                pt = {}
                memo = self._memo.get(k, {})
                for aid, v in sorted(memo.items()):
                    at = self.atoms[aid]
                    if at.kind == "sym" and not at.name.startswith("#"):
                        pt[at.name] = round(float(v), 6)
                return "differ", {"point": pt, "lhs": float(va), "rhs": float(vb)}
            if found >= npoints:
                return "agree", {"points": found}
        return "nopoint", {"points": found}

    def decide_equal(self, a, b, term_budget=None):
        """three-valued decision.  ('proved', None): exact ring identity (tried first).
        ('refuted', w): an admissible witness point where the extracted values differ
        (random interpretation of the value graph in 70-digit arithmetic).
        ('undecided', why) otherwise."""
        exact = None
        why = ""
        # each decision has its own time budget: a proof attempt that runs out must not starve
        # the refutation (witness evaluation is not budgeted) nor the decisions that follow
        had_clock = self._t0 is not None
        if had_clock:
            self._t0 = time.time()
        try:
            exact = self.equal(a, b, term_budget)
        except Budget as e:
            why = "exact proof exceeded its budget (%s)" % e
        if exact is True:
            if had_clock:
                self._t0 = time.time()
            return "proved", None
        self._t0 = None
        try:
            st, info = self.witness(a, b)
            if st == "agree" and exact is False:
                # the normal forms differ, so the values differ somewhere unless indicators are
                # dependent: the region may be small (a selector that flips only for marginal
                # states) -- sample much more before giving up
                st, info = self.witness(a, b, npoints=200, tries=3000)
                if st != "differ":
                    st2, info2 = self.witness(a, b, npoints=400, tries=30000, k0=WIDE_K)
                    if st2 == "differ":
                        st, info = st2, info2
                    else:
                        info = {"points": info.get("points", 0) + info2.get("points", 0)}
        finally:
            self._t0 = time.time() if had_clock else None
        if st == "differ":
            return "refuted", info
        if exact is False:
            return "undecided", "ring difference is non-zero but values agree on %s sampled points (dependent indicators?)" % info.get("points")
        if st == "agree":
            return "undecided", "%s; values agree at %s sampled points" % (why, info.get("points"))
        return "undecided", "%s; no admissible evaluation point found" % why

    def diff(self, a, b):
        """fully expanded numerator of a-b (for reports)"""
        d = self.sub(a, b)
        d = self.expand_all(d)
        return d

    # ------------------------------------------------------------------ substitution of symbols
    def subst(self, rf, mapping):
        """substitute sym atoms (by atom id) with RFs; other atoms kept (base/ind atoms whose
        definitions mention substituted atoms are re-built)."""
        cache = {}

        def sub_atom(aid, e):
            at = self.atoms[aid]
            if aid in mapping:
                return self.pow(mapping[aid], e)
            if at.kind == "base":
                key = aid
                if key not in cache:
                    cache[key] = self.subst(at.defn, mapping)
                return self.pow(cache[key], e)
            if at.kind == "ind":
                key = aid
                if key not in cache:
                    cache[key] = self.indicator(self.subst(RF(self, dict(at.cond)), mapping))
                return cache[key]
            if at.kind == "defined":
                key = aid
                if key not in cache:
                    cache[key] = self.fold(self.subst(at.defn, mapping), "s")
                return self.pow(cache[key], e)
            if at.kind == "opaque":
                key = aid
                if key not in cache:
                    nm = at.name.split("(")[0]
                    cache[key] = self.opaque(nm, [self.subst(x, mapping) for x in at.args], positive=at.positive)
                return self.pow(cache[key], e)
            return RF(self, {((aid, e),): Fraction(1)})

        def sub_poly(p):
            tot = self.const(0)
            for m, c in p.items():
                t = self.const(c)
                for a, e in m:
                    t = self.mul(t, sub_atom(a, e))
                tot = self.add(tot, t)
            return tot
        res = sub_poly(rf.num)
        for fid, mult in rf.den:
            res = self.div(res, self.pow(sub_poly(self.factors[fid]), mult))
        return res

    # ------------------------------------------------------------------ fingerprints / display
    def fingerprint(self, rf):
        try:
            return self._fp_rf(rf, {})
        except (ZeroDivisionError, ValueError, OverflowError):
            return None

    def _fp_atom(self, aid, memo):
        if aid in memo:
            return memo[aid]
        at = self.atoms[aid]
        if at.kind in ("sym", "opaque"):
            v = at.fp
        elif at.kind == "base":
            v = self._fp_rf(at.defn, memo)
        elif at.kind == "ind":
            v = 1.0 if self._fp_poly(at.cond, memo) >= 0 else 0.0
        elif at.kind == "defined":
            v = self._fp_rf(at.defn, memo)
        else:
            v = 1.0
        memo[aid] = v
        return v

    def _fp_poly(self, p, memo):
        g = None
        tot = 0.0
        for m, c in p.items():
            t = float(c)
            for a, e in m:
                v = self._fp_atom(a, memo)
                if isinstance(e, QExp):
                    if g is None:
                        g = self._fp_atom(self.gamma.id, memo) if self.gamma is not None else 1.4
                    ee = e.value(g)
                else:
                    ee = e if type(e) is int else float(e)
                if v < 0 and type(ee) is not int:
                    raise ValueError
                t *= v ** ee
            tot += t
        return tot

    def _fp_rf(self, rf, memo):
        v = self._fp_poly(rf.num, memo)
        for fid, mult in rf.den:
            v /= self._fp_poly(self.factors[fid], memo) ** mult
        return v

    def key(self, rf):
        return (frozenset((mono_key(m), c) for m, c in rf.num.items()), rf.den)

    def show_mono(self, m):
        parts = []
        for a, e in m:
            n = self.atoms[a].name
            parts.append(n if e == 1 else "%s^%s" % (n, e if not isinstance(e, QExp) else repr(e)))
        return "*".join(parts)

    def show_poly(self, p, maxlen=400):
        if not p:
            return "0"
        out = []
        for m in sorted(p, key=self._order_key):
            c = p[m]
            ms = self.show_mono(m)
            if ms:
                cs = "" if c == 1 else ("-" if c == -1 else "%s*" % c)
                out.append(cs + ms)
            else:
                out.append(str(c))
        s = " + ".join(out).replace("+ -", "- ")
        if len(s) > maxlen:
            s = s[:maxlen] + "...(%d terms)" % len(p)
        return s

    def show(self, rf, maxlen=400):
        s = self.show_poly(rf.num, maxlen)
        if rf.den:
            d = "*".join("(%s)%s" % (self.show_poly(self.factors[f], 80), "" if m == 1 else "^%d" % m) for f, m in rf.den)
            s = "(%s)/(%s)" % (s, d)
        return s


def _flip(s):
    return {"+": "-", "-": "+", ">=0": "<=0", "<=0": ">=0", "0": "0"}[s]


def _close(a, b):
    if a is None or b is None:
        return False
    if a != a or b != b:
        return False
    return abs(a - b) <= 1e-9 * max(1.0, abs(a), abs(b))


def _iroot(n, d):
    """exact integer d-th root of n >= 0 or None"""
    if n < 0:
        return None
    if d == 1:
        return n
    r = round(n ** (1.0 / d))
    for c in (r - 1, r, r + 1):
        if c >= 0 and c ** d == n:
            return c
    return None


def hash_bit(s):
    """one well-mixed bit of a string (FNV's bits are linear in the characters: the signs of similarly named
    atoms came out equal -- or opposite -- at EVERY point)"""
    import hashlib
    return hashlib.md5(s.encode()).digest()[0] & 1


def hash_str(s):
    h = 2166136261
    for ch in s.encode():
        h = ((h ^ ch) * 16777619) & 0xFFFFFFFF
    return h
