"""Enumeration and calling conventions of the numerical-flux kernels of every model."""
import ast

from .interp import Vec
from .models import Ctx, MODELS, flat
from .project import AnalysisError

# names the property statements quantify over (model key -> registered names)
STATED = {
    "shallowwater": ["centered", "rusanov", "hll"],
    "euler1d": ["centered", "centeredmassflow", "hlle", "hllc"],
    "euler2d": ["centered", "hlle"],
}
UPWIND = {"convection": ["numflux"], "burgers": ["numflux"], "shallowwater": ["hll"],
          "euler1d": ["hlle", "hllc"], "euler2d": ["hlle"]}


def flux_kernels(proj, key):
    """[(FuncInfo, [registered names])] of the numerical fluxes of model `key`.  For 2D only
    the functions defined for the 2D model (the two 1D-only fluxes reachable from the 2D
    registry are outside the statements)."""
    cls = proj.cls(MODELS[key]["cls"])
    reg = proj.instance_registry(cls, "_numfluxdict")
    out = []
    if reg:
        seen = {}
        for name, f in reg.items():
            seen.setdefault(f.qualname, (f, []))[1].append(name)
        for f, names in seen.values():
            if key == "euler2d" and f.cls.name != "euler2d":
                continue
            out.append((f, names))
    else:
        f = proj.resolve(cls, "numflux")
        if f is None or f.cls.name == "model" and f.module.tail == "base":
            raise AnalysisError("model %s has no numerical flux" % key)
        out.append((f, ["numflux"]))
    return out


def call_flux(ctx, f, L, R, dirv=None):
    """call flux kernel f with the calling convention of its model"""
    if ctx.key in ("convection", "burgers"):
        return ctx.call(f, None, L, R)
    if ctx.key == "euler2d":
        return ctx.call(f, L, R, dirv)
    return ctx.call(f, L, R, None)


def mirror_state(ctx, W):
    """sigma on a 1D primitive state: negate reflection-odd components"""
    out = []
    for v, par in zip(W, ctx.spec["parity"]):
        if isinstance(v, Vec):
            out.append(v)
        else:
            out.append(-v if par == "odd" else v)
    return out


def mirror_eps(key):
    """sign of each flux component under the reflection"""
    return {"convection": [-1], "burgers": [1], "shallowwater": [-1, 1], "euler1d": [-1, 1, -1],
            "nozzle": [-1, 1, -1], "euler2d": [-1, -1, -1, -1]}[key]


def comp_names(key):
    return {"convection": ["q"], "burgers": ["u"], "shallowwater": ["h", "hu"],
            "euler1d": ["rho", "rhou", "rhoE"], "nozzle": ["rho", "rhou", "rhoE"],
            "euler2d": ["rho", "rhoux", "rhouy", "rhoE"]}[key]
