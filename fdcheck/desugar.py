"""Normalisation of reflective attribute idioms, applied to every module tree when the project is
loaded, so that all engines see ONE spelling of an attribute access:

    vars(X)                          ->  X.__dict__
    X.__dict__.get('a')              ->  getattr(X, 'a', None)
    X.__dict__.get('a', d)           ->  getattr(X, 'a', d)
    'a' in X.__dict__                ->  hasattr(X, 'a')          (not in: not hasattr)
    X.__dict__['a']                  ->  X.a                       (load, store, del)
    getattr(X, 'a')                  ->  X.a
    setattr(X, 'a', v)   (statement) ->  X.a = v
    delattr(X, 'a')      (statement) ->  del X.a
    for n in ('a', 'b'): BODY        ->  BODY[n:='a'] ; BODY[n:='b']      only when BODY uses n as the
                                         NAME in getattr / setattr / hasattr / delattr / __dict__ access,
                                         does not rebind n and has no break / continue / else

The rewriting preserves the meaning (attribute names that are identifiers; an instance without
__slots__ or properties of that name, which the library does not use) and the line numbers.

A second pass (`Inert`) removes what does not take part in the results the properties speak about,
so that ordinary maintenance of the library does not put a function outside the interpreters:

    x: T = e                          ->  x = e            (x: T alone: dropped)
    assert c, msg                     ->  dropped           (python -O drops them too; a failing assert is
                                                             an exception, not a wrong result)
    log.debug(...) / logging.info(...) / warnings.warn(...) / print(...)   as statements, when their
        arguments call nothing but str/repr/len/format/type/float/int/round -> dropped
        (`log` = a module-level name bound to logging.getLogger(...))
    with np.errstate(...) / warnings.catch_warnings() / contextlib.nullcontext(): BODY   ->  BODY
    try: BODY  except ...: <inert statements> ; raise        (no else / finally)          ->  BODY
    if <test with isinstance / callable / issubclass>: raise ...    (no else)             ->  dropped
        (argument-type validation: the properties quantify over inputs of the documented types)"""
import ast
import copy


def _is_str(n):
    return isinstance(n, ast.Constant) and isinstance(n.value, str) and n.value.isidentifier()


def _is_dunder_dict(n):
    return isinstance(n, ast.Attribute) and n.attr == "__dict__"


class _Subst(ast.NodeTransformer):
    def __init__(self, name, value):
        self.name, self.value = name, value

    def visit_Name(self, n):
        if n.id == self.name and isinstance(n.ctx, ast.Load):
            return ast.copy_location(ast.Constant(value=self.value), n)
        return n


class _SubstMany(ast.NodeTransformer):
    """name -> a copy of a side-effect-free atom (constant or name)"""
    def __init__(self, m):
        self.m = m

    def visit_Name(self, n):
        if n.id in self.m and isinstance(n.ctx, ast.Load):
            return ast.copy_location(copy.deepcopy(self.m[n.id]), n)
        return n


def _uses_as_attr_name(body, name):
    for st in body:
        for n in ast.walk(st):
            if isinstance(n, ast.Call) and isinstance(n.func, ast.Name) and n.func.id in ("getattr", "setattr", "hasattr", "delattr") and len(n.args) >= 2 and isinstance(n.args[1], ast.Name) and n.args[1].id == name:
                return True
            if isinstance(n, ast.Subscript) and _is_dunder_dict(n.value) and isinstance(n.slice, ast.Name) and n.slice.id == name:
                return True
            if isinstance(n, ast.Call) and isinstance(n.func, ast.Attribute) and n.func.attr in ("get", "setdefault") and _is_dunder_dict(n.func.value) and n.args and isinstance(n.args[0], ast.Name) and n.args[0].id == name:
                return True
    return False


def _rebinds(body, name):
    for st in body:
        for n in ast.walk(st):
            if isinstance(n, ast.Name) and n.id == name and isinstance(n.ctx, (ast.Store, ast.Del)):
                return True
            if isinstance(n, (ast.Break, ast.Continue, ast.FunctionDef, ast.Lambda, ast.ListComp, ast.GeneratorExp, ast.DictComp, ast.SetComp)):
                return True
    return False


class Desugar(ast.NodeTransformer):
    def __init__(self):
        self.count = 0
        self._cls = []          # enclosing classes: {name: tuple node} of class-level literal tuples never rebound in the module
        self._tree = None

    def visit_Module(self, node):
        self._tree = node
        self.generic_visit(node)
        return node

    def visit_ClassDef(self, node):
        consts = {}
        for st in node.body:
            if isinstance(st, ast.Assign) and len(st.targets) == 1 and isinstance(st.targets[0], ast.Name) and isinstance(st.value, ast.Tuple) \
                    and st.value.elts and all(isinstance(e, ast.Constant) or (isinstance(e, ast.Tuple) and e.elts and all(isinstance(y, ast.Constant) for y in e.elts)) for e in st.value.elts):
                consts[st.targets[0].id] = st.value
        if consts and self._tree is not None:
            for n in ast.walk(self._tree):
                if isinstance(n, ast.Attribute) and n.attr in consts and isinstance(n.ctx, (ast.Store, ast.Del)):
                    consts.pop(n.attr, None)
            cnt = {}
            for st in node.body:
                for t in (st.targets if isinstance(st, ast.Assign) else [getattr(st, "target", None)] if isinstance(st, (ast.AugAssign, ast.AnnAssign)) else []):
                    if isinstance(t, ast.Name):
                        cnt[t.id] = cnt.get(t.id, 0) + 1
            for k in [k for k in consts if cnt.get(k, 0) != 1]:
                consts.pop(k)
        self._cls.append((node.name, consts))
        try:
            self.generic_visit(node)
        finally:
            self._cls.pop()
        return node

    def _seq(self, e):
        """the elements of a statically known finite sequence expression, or None"""
        atom = lambda x: isinstance(x, (ast.Constant, ast.Name)) or (isinstance(x, (ast.Tuple, ast.List)) and x.elts and all(isinstance(y, ast.Constant) for y in x.elts))
        if isinstance(e, (ast.Tuple, ast.List)) and e.elts and all(atom(x) for x in e.elts):
            return list(e.elts)
        if isinstance(e, ast.Attribute) and isinstance(e.value, ast.Name) and self._cls:
            cname, consts = self._cls[-1]
            if e.value.id in ("self", "cls", cname) and e.attr in consts:
                return list(consts[e.attr].elts)
        return None

    def _comp_bindings(self, node):
        """[{name: atom}] for a comprehension with one generator over a statically known finite sequence, no filter"""
        if len(node.generators) != 1 or node.generators[0].ifs or getattr(node.generators[0], "is_async", 0):
            return None
        g = node.generators[0]
        seq = self._seq(g.iter)
        if seq is None:
            return None
        out = []
        for x in seq:
            if isinstance(g.target, ast.Name):
                if isinstance(x, (ast.Tuple, ast.List)):
                    return None
                out.append({g.target.id: x})
            elif isinstance(g.target, ast.Tuple) and all(isinstance(t, ast.Name) for t in g.target.elts) and isinstance(x, (ast.Tuple, ast.List)) and len(x.elts) == len(g.target.elts):
                out.append({t.id: y for t, y in zip(g.target.elts, x.elts)})
            else:
                return None
        return out

    def visit_DictComp(self, node):
        b = self._comp_bindings(node)
        if b is None or not self._cls:
            self.generic_visit(node)
            return node
        if not any(isinstance(g.iter, ast.Attribute) for g in node.generators):
            self.generic_visit(node)
            return node
        self.count += 1
        d = ast.Dict(keys=[_SubstMany(m).visit(copy.deepcopy(node.key)) for m in b], values=[_SubstMany(m).visit(copy.deepcopy(node.value)) for m in b])
        return self.visit(ast.fix_missing_locations(ast.copy_location(d, node)))

    def _unroll_zip(self, node):
        """for a, b in zip(<finite tuple>, <finite tuple>): body  ->  the body once per pair (all elements atoms)"""
        it = node.iter
        if node.orelse:
            return None
        if isinstance(it, ast.Call) and isinstance(it.func, ast.Name) and it.func.id == "zip" and not it.keywords and len(it.args) >= 2 \
                and isinstance(node.target, ast.Tuple) and len(node.target.elts) == len(it.args) and all(isinstance(t, ast.Name) for t in node.target.elts):
            seqs = [self._seq(a) for a in it.args]
            names = [t.id for t in node.target.elts]
        elif isinstance(node.target, ast.Name) and not isinstance(it, (ast.Tuple, ast.List)):
            seqs = [self._seq(it)]
            names = [node.target.id]
        else:
            return None
        if any(s is None for s in seqs) or len({len(s) for s in seqs}) != 1:
            return None
        if not any(_uses_as_attr_name(node.body, n) for n in names) or any(_rebinds(node.body, n) for n in names):
            return None
        # a substituted Name must not be assigned in the body
        stored = {n.id for st in node.body for n in ast.walk(st) if isinstance(n, ast.Name) and isinstance(n.ctx, (ast.Store, ast.Del))}
        for s in seqs:
            if any(isinstance(x, ast.Name) and x.id in stored for x in s):
                return None
        out = []
        for k in range(len(seqs[0])):
            m = {n: s[k] for n, s in zip(names, seqs)}
            for st in node.body:
                out.append(_SubstMany(m).visit(copy.deepcopy(st)))
        return out

    # ---- statements
    def _stmts(self, stmts):
        out = []
        for st in stmts:
            r = self.visit(st)
            if isinstance(r, list):
                out.extend(r)
            elif r is not None:
                out.append(r)
        return out

    def visit_For(self, node):
        it = node.iter
        if (isinstance(node.target, ast.Name) and isinstance(it, (ast.Tuple, ast.List)) and it.elts and all(_is_str(e) for e in it.elts)
                and not node.orelse and _uses_as_attr_name(node.body, node.target.id) and not _rebinds(node.body, node.target.id)):
            out = []
            for e in it.elts:
                for st in node.body:
                    st2 = _Subst(node.target.id, e.value).visit(copy.deepcopy(st))
                    out.append(st2)
            self.count += 1
            return self._stmts(out)
        out = self._unroll_zip(node)
        if out is not None:
            self.count += 1
            return self._stmts(out)
        # for k, v in X.items(): T[k] = v     ->     T.update(X)        (T a plain name: a dictionary being filled)
        if (not node.orelse and len(node.body) == 1 and isinstance(node.target, ast.Tuple) and len(node.target.elts) == 2 and all(isinstance(e, ast.Name) for e in node.target.elts)
                and isinstance(node.iter, ast.Call) and isinstance(node.iter.func, ast.Attribute) and node.iter.func.attr == "items" and not node.iter.args and not node.iter.keywords):
            k_, v_ = node.target.elts[0].id, node.target.elts[1].id
            st = node.body[0]
            if (isinstance(st, ast.Assign) and len(st.targets) == 1 and isinstance(st.targets[0], ast.Subscript) and isinstance(st.targets[0].value, ast.Name)
                    and isinstance(st.targets[0].slice, ast.Name) and st.targets[0].slice.id == k_ and isinstance(st.value, ast.Name) and st.value.id == v_
                    and st.targets[0].value.id not in (k_, v_)):
                self.count += 1
                call = ast.Call(func=ast.Attribute(value=ast.Name(id=st.targets[0].value.id, ctx=ast.Load()), attr="update", ctx=ast.Load()), args=[self.visit(node.iter.func.value)], keywords=[])
                return ast.fix_missing_locations(ast.copy_location(ast.Expr(value=ast.copy_location(call, node)), node))
        self.generic_visit(node)
        return node

    def visit_Expr(self, node):
        self.generic_visit(node)
        v = node.value
        if isinstance(v, ast.Call) and isinstance(v.func, ast.Name) and not v.keywords:
            if v.func.id == "setattr" and len(v.args) == 3 and _is_str(v.args[1]):
                self.count += 1
                t = ast.Attribute(value=v.args[0], attr=v.args[1].value, ctx=ast.Store())
                return ast.fix_missing_locations(ast.copy_location(ast.Assign(targets=[ast.copy_location(t, v)], value=v.args[2]), node))
            if v.func.id == "delattr" and len(v.args) == 2 and _is_str(v.args[1]):
                self.count += 1
                t = ast.Attribute(value=v.args[0], attr=v.args[1].value, ctx=ast.Del())
                return ast.fix_missing_locations(ast.copy_location(ast.Delete(targets=[ast.copy_location(t, v)]), node))
        return node

    # ---- expressions
    def visit_Call(self, node):
        self.generic_visit(node)
        f = node.func
        if isinstance(f, ast.Name) and f.id == "vars" and len(node.args) == 1 and not node.keywords:
            self.count += 1
            return ast.copy_location(ast.Attribute(value=node.args[0], attr="__dict__", ctx=ast.Load()), node)
        if isinstance(f, ast.Name) and f.id == "getattr" and len(node.args) == 2 and _is_str(node.args[1]) and not node.keywords:
            self.count += 1
            return ast.copy_location(ast.Attribute(value=node.args[0], attr=node.args[1].value, ctx=ast.Load()), node)
        if isinstance(f, ast.Attribute) and f.attr == "get" and _is_dunder_dict(f.value) and 1 <= len(node.args) <= 2 and _is_str(node.args[0]) and not node.keywords:
            self.count += 1
            d = node.args[1] if len(node.args) == 2 else ast.copy_location(ast.Constant(value=None), node)
            return ast.fix_missing_locations(ast.copy_location(ast.Call(func=ast.Name(id="getattr", ctx=ast.Load()), args=[f.value.value, node.args[0], d], keywords=[]), node))
        return node

    def visit_Compare(self, node):
        self.generic_visit(node)
        # a < b <= c  ->  (a < b) and (b <= c)   when the shared operands are plain names / constants / attribute
        # chains (evaluating them twice changes nothing)
        if len(node.ops) > 1 and all(isinstance(c, (ast.Name, ast.Constant, ast.Attribute)) and not any(isinstance(x, ast.Call) for x in ast.walk(c)) for c in node.comparators[:-1]):
            self.count += 1
            parts = []
            left = node.left
            for op, c in zip(node.ops, node.comparators):
                parts.append(ast.copy_location(ast.Compare(left=left, ops=[op], comparators=[c]), node))
                left = copy.deepcopy(c)
            return ast.fix_missing_locations(ast.copy_location(ast.BoolOp(op=ast.And(), values=parts), node))
        if len(node.ops) == 1 and isinstance(node.ops[0], (ast.In, ast.NotIn)) and _is_str(node.left) and _is_dunder_dict(node.comparators[0]):
            self.count += 1
            c = ast.Call(func=ast.Name(id="hasattr", ctx=ast.Load()), args=[node.comparators[0].value, node.left], keywords=[])
            c = ast.fix_missing_locations(ast.copy_location(c, node))
            if isinstance(node.ops[0], ast.NotIn):
                c = ast.fix_missing_locations(ast.copy_location(ast.UnaryOp(op=ast.Not(), operand=c), node))
            return c
        return node

    def visit_Subscript(self, node):
        self.generic_visit(node)
        if _is_dunder_dict(node.value) and _is_str(node.slice):
            self.count += 1
            return ast.copy_location(ast.Attribute(value=node.value.value, attr=node.slice.value, ctx=node.ctx), node)
        return node


_PURE_CALLS = {"str", "repr", "len", "format", "type", "float", "int", "round", "id", "abs", "min", "max", "sum", "tuple", "list",
               "range", "enumerate", "zip", "sorted", "any", "all", "bool", "dict", "set", "isinstance", "hasattr", "getattr", "callable", "reversed", "map", "filter"}
_PURE_MODULES = ("np", "numpy", "math")
_LOG_METHODS = {"debug", "info", "warning", "warn", "error", "exception", "critical", "log"}
_INERT_CONTEXTS = {"errstate", "catch_warnings", "nullcontext", "printoptions"}


def _dotted(n):
    if isinstance(n, ast.Name):
        return n.id
    if isinstance(n, ast.Attribute):
        b = _dotted(n.value)
        return None if b is None else b + "." + n.attr
    return None


class Inert(ast.NodeTransformer):
    def __init__(self, loggers, info=None):
        self.loggers = set(loggers)
        self.count = 0
        info = info or {}
        self.validators = set(info.get("validators", ()))     # functions that only check their arguments and raise
        self.accessors = set(info.get("accessors", ()))       # methods `def m(self): return <pure expression>`

    def _expr_pure(self, a):
        """no call except builtins / numpy / math functions (without out=) and string formatting: evaluating it
        changes nothing"""
        for n in ast.walk(a):
            if isinstance(n, ast.Call):
                d = _dotted(n.func)
                if any(k.arg == "out" for k in n.keywords):
                    return False
                if d in _PURE_CALLS:
                    continue
                if d is not None and (d.split(".")[0] in _PURE_MODULES or d.rpartition(".")[0] in self.loggers or d.split(".")[0] == "logging"):
                    continue
                if isinstance(n.func, ast.Attribute) and n.func.attr in ("format", "join", "keys", "values", "items", "get", "copy", "min", "max", "sum", "mean", "any", "all", "tolist", "lower", "upper", "strip"):
                    continue
                if d is not None and d.split(".")[0] == "operator":
                    continue
                if isinstance(n.func, ast.Attribute) and n.func.attr in self.accessors and not n.args and not n.keywords:
                    continue          # self.nit(), self.totnit() ...: read-only accessors
                return False
            if isinstance(n, (ast.NamedExpr, ast.Await, ast.Yield, ast.YieldFrom)):
                return False
        return True

    def _args_pure(self, call):
        return all(self._expr_pure(a) for a in list(call.args) + [k.value for k in call.keywords])

    def _inert_stmt(self, st):
        if isinstance(st, ast.Pass):
            return True
        if isinstance(st, ast.Expr) and isinstance(st.value, ast.Constant):
            return True
        if isinstance(st, ast.Expr) and isinstance(st.value, ast.Call):
            c = st.value
            d = _dotted(c.func)
            if d is None:
                return False
            head, _, tail = d.rpartition(".")
            is_log = (head in self.loggers or head == "logging") and tail in _LOG_METHODS
            is_warn = d in ("warnings.warn", "warn") or d == "print"
            return (is_log or is_warn) and self._args_pure(c)
        return False

    def _block(self, stmts):
        out = []
        for st in stmts:
            r = self.visit(st)
            if r is None:
                continue
            out.extend(r if isinstance(r, list) else [r])
        return out

    def generic_visit(self, node):
        for field in ("body", "orelse", "finalbody"):
            b = getattr(node, field, None)
            if isinstance(b, list) and b and isinstance(b[0], ast.stmt):
                nb = self._block(b)
                if not nb and field == "body":
                    nb = [ast.copy_location(ast.Pass(), b[0])]
                setattr(node, field, nb)
        if isinstance(node, ast.Try):
            for h in node.handlers:
                self.generic_visit(h)
        return node

    def visit_FunctionDef(self, node):
        before = self.count
        self.generic_visit(node)
        if self.count == before:
            return node          # nothing was dropped here: no local can have become dead
        # locals that were only read by statements dropped above (a diagnostic computed for a log record): their
        # pure assignments are dead now
        for _ in range(4):
            loads = {n.id for n in ast.walk(node) if isinstance(n, ast.Name) and isinstance(n.ctx, ast.Load)}
            dropped = [0]

            def prune(stmts):
                out = []
                for st in stmts:
                    if isinstance(st, ast.Assign) and len(st.targets) == 1 and isinstance(st.targets[0], ast.Name) and st.targets[0].id not in loads \
                            and self._expr_pure(st.value) and not isinstance(st.value, (ast.Yield,)):
                        dropped[0] += 1
                        continue
                    for fld in ("body", "orelse", "finalbody"):
                        b = getattr(st, fld, None)
                        if isinstance(b, list) and b and isinstance(b[0], ast.stmt) and not isinstance(st, (ast.FunctionDef, ast.ClassDef)):
                            nb = prune(b)
                            if not nb and fld == "body":
                                nb = [ast.copy_location(ast.Pass(), b[0])]
                            setattr(st, fld, nb)
                    out.append(st)
                return out
            node.body = prune(node.body) or [ast.copy_location(ast.Pass(), node)]
            if not dropped[0]:
                break
            self.count += dropped[0]
        return node

    def visit_AnnAssign(self, node):
        self.count += 1
        if node.value is None:
            return None
        return ast.copy_location(ast.Assign(targets=[node.target], value=node.value), node)

    def visit_Assert(self, node):
        self.count += 1
        return None

    def visit_Expr(self, node):
        v = node.value
        if isinstance(v, ast.Call):
            nm = v.func.id if isinstance(v.func, ast.Name) else (v.func.attr if isinstance(v.func, ast.Attribute) else None)
            if nm in self.validators and self._args_pure(v):
                self.count += 1       # a call that can only raise for invalid arguments
                return None
        if not isinstance(node.value, ast.Constant) and self._inert_stmt(node):
            d = _dotted(node.value.func)
            if d != "print":              # print is understood by every engine; keep the statement
                self.count += 1
                return None
        return node

    def visit_With(self, node):
        self.generic_visit(node)
        ok = True
        for it in node.items:
            c = it.context_expr
            d = _dotted(c.func) if isinstance(c, ast.Call) else None
            if d is None or d.rpartition(".")[2] not in _INERT_CONTEXTS or it.optional_vars is not None:
                ok = False
        if ok:
            self.count += 1
            return node.body
        return node

    def visit_Try(self, node):
        self.generic_visit(node)
        if node.orelse or node.finalbody or not node.handlers:
            return node
        for h in node.handlers:
            if not h.body or not isinstance(h.body[-1], ast.Raise):
                return node
            if not all(self._inert_stmt(st) for st in h.body[:-1]):
                return node
        self.count += 1
        return node.body

    def visit_If(self, node):
        self.generic_visit(node)
        if not node.orelse and all(isinstance(st, ast.Pass) for st in node.body) and self._expr_pure(node.test):
            self.count += 1           # nothing left under a side-effect-free test (`if logger.isEnabledFor(...)`)
            return None
        if not node.orelse and len(node.body) == 1 and isinstance(node.body[0], ast.Raise):
            calls = [_dotted(n.func) for n in ast.walk(node.test) if isinstance(n, ast.Call)]
            if calls and all(c in ("isinstance", "callable", "issubclass", "type", "len") for c in calls) and any(c in ("isinstance", "callable", "issubclass") for c in calls):
                self.count += 1
                return None
        return node


_NP_BINARY = {"add": ast.Add, "subtract": ast.Sub, "multiply": ast.Mult, "divide": ast.Div, "true_divide": ast.Div, "power": ast.Pow}
_NP_RENAME = {"absolute": "abs", "fabs": "abs", "fmax": "maximum", "fmin": "minimum", "asanyarray": "asarray"}


class NumpyCanon(ast.NodeTransformer):
    """one spelling per numpy operation (calls without keyword arguments only: out= / where= change the meaning):
        np.square(x) -> x**2 ; np.power(a, b) -> a**b ; np.add/subtract/multiply/divide(a, b) -> a op b ;
        np.negative(x) -> -x ; np.absolute / np.fabs -> np.abs ; np.fmax / np.fmin -> np.maximum / np.minimum
        (equal except for NaN operands, which no property quantifies over) ; math.sqrt -> np.sqrt"""
    def __init__(self):
        self.count = 0

    SIGS = {"linspace": ("start", "stop", "num"), "repeat": ("a", "repeats"), "full": ("shape", "fill_value"), "where": ("condition", "x", "y"),
            "maximum": ("x1", "x2"), "minimum": ("x1", "x2"), "tile": ("A", "reps"), "append": ("arr", "values"), "zeros": ("shape",), "ones": ("shape",),
            "full_like": ("a", "fill_value"), "power": ("x1", "x2"), "dot": ("a", "b"), "diff": ("a",), "roll": ("a", "shift"), "reshape": ("a", "newshape"),
            "expand_dims": ("a", "axis"), "isclose": ("a", "b"), "allclose": ("a", "b"), "vstack": ("tup",), "sum": ("a",), "abs": ("x",), "sqrt": ("x",)}

    def visit_Call(self, node):
        self.generic_visit(node)
        f = node.func
        # keyword arguments of numpy functions the engines know positionally -> positional (np.repeat(x, repeats=n))
        if isinstance(f, ast.Attribute) and isinstance(f.value, ast.Name) and f.value.id in ("np", "numpy") and f.attr in self.SIGS and node.keywords \
                and not any(isinstance(a, ast.Starred) for a in node.args):
            sig = self.SIGS[f.attr]
            kw = {k.arg: k for k in node.keywords if k.arg}
            moved = []
            i = len(node.args)
            while i < len(sig) and sig[i] in kw:
                moved.append(kw.pop(sig[i]))
                i += 1
            if moved:
                self.count += 1
                node.args = list(node.args) + [k.value for k in moved]
                node.keywords = [k for k in node.keywords if k not in moved]
        if node.keywords or not isinstance(f, ast.Attribute) or not isinstance(f.value, ast.Name):
            return node
        if f.value.id in ("np", "numpy"):
            if f.attr == "square" and len(node.args) == 1:
                self.count += 1
                return ast.copy_location(ast.BinOp(left=node.args[0], op=ast.Pow(), right=ast.copy_location(ast.Constant(2), node)), node)
            if f.attr in _NP_BINARY and len(node.args) == 2:
                self.count += 1
                return ast.copy_location(ast.BinOp(left=node.args[0], op=_NP_BINARY[f.attr](), right=node.args[1]), node)
            if f.attr == "negative" and len(node.args) == 1:
                self.count += 1
                return ast.copy_location(ast.UnaryOp(op=ast.USub(), operand=node.args[0]), node)
            if f.attr in _NP_RENAME:
                self.count += 1
                f.attr = _NP_RENAME[f.attr]
        elif f.value.id == "math" and f.attr in ("sqrt", "fabs") and len(node.args) == 1:
            self.count += 1
            node.func = ast.copy_location(ast.Attribute(value=ast.copy_location(ast.Name(id="np", ctx=ast.Load()), node), attr={"sqrt": "sqrt", "fabs": "abs"}[f.attr], ctx=ast.Load()), node)
        return node


def _loggers(tree):
    out = set()
    for st in tree.body:
        if isinstance(st, ast.Assign) and isinstance(st.value, ast.Call):
            d = _dotted(st.value.func)
            if d and d.rpartition(".")[2] == "getLogger":
                for t in st.targets:
                    if isinstance(t, ast.Name):
                        out.add(t.id)
    return out


def collect_info(trees):
    """project-wide facts the inert-statement pass needs: which functions are pure VALIDATORS (they look at their
    arguments and raise, nothing else) and which methods are read-only ACCESSORS (`return <pure expression>`)"""
    probe = Inert(set())
    funcs = {}
    for tree in trees:
        for n in ast.walk(tree):
            if isinstance(n, ast.FunctionDef):
                funcs.setdefault(n.name, []).append(n)
    accessors, validators = set(), set()
    for name, defs in funcs.items():
        ok_acc = True
        for fn in defs:
            body = [st for st in fn.body if not _is_doc(st)]
            if not (len(body) == 1 and isinstance(body[0], ast.Return) and body[0].value is not None and len(fn.args.args) == 1 and probe._expr_pure(body[0].value)):
                ok_acc = False
        if ok_acc and not name.startswith("__"):
            accessors.add(name)
    probe.accessors = accessors
    for name, defs in funcs.items():
        ok_val = not name.startswith("__")
        for fn in defs:
            has_raise = False
            for n in ast.walk(fn):
                if n is fn:
                    continue
                if isinstance(n, ast.Raise):
                    has_raise = True
                if isinstance(n, ast.Return) and n.value is not None and not (isinstance(n.value, ast.Constant) and n.value.value is None):
                    ok_val = False
                if isinstance(n, (ast.Global, ast.Nonlocal, ast.Yield, ast.YieldFrom, ast.FunctionDef, ast.ClassDef, ast.Lambda, ast.Delete, ast.With, ast.While)):
                    ok_val = False
                if isinstance(n, (ast.Assign, ast.AugAssign, ast.AnnAssign)):
                    ts = n.targets if isinstance(n, ast.Assign) else [n.target]
                    if any(not isinstance(t, ast.Name) for t in ts):
                        ok_val = False
                if isinstance(n, ast.Call) and not probe._expr_pure(n):
                    # a raise's exception constructor and string building are fine; anything else is not
                    d = _dotted(n.func)
                    if not (d and (d.endswith("Error") or d in ("Exception", "Warning", "KeyError", "NameError"))):
                        ok_val = False
            if not has_raise:
                ok_val = False
        if ok_val:
            validators.add(name)
    return {"validators": validators, "accessors": accessors}


def _is_doc(st):
    return isinstance(st, ast.Expr) and isinstance(st.value, ast.Constant) and isinstance(st.value.value, str)


def desugar(tree, info=None):
    i = Inert(_loggers(tree), info)
    tree = i.visit(tree)
    d = Desugar()
    tree = d.visit(tree)
    c = NumpyCanon()
    tree = c.visit(tree)
    ast.fix_missing_locations(tree)
    return tree, d.count + i.count + c.count


def normalise_keywords(trees):
    """Keyword arguments of calls to the library's own functions -> positional, project-wide.

    A call  X.m(a, k=v)  (or  m(a, k=v)) is rewritten to  X.m(a, v)  when every function named m in the
    project that accepts all the keywords used places them at the same positions, and the positional
    list that results has no gap.  Engines then see one calling convention.  Calls that cannot be
    resolved this way are left alone.  Returns the number of calls rewritten."""
    sigs = {}
    for tree in trees:
        for n in ast.walk(tree):
            if isinstance(n, ast.ClassDef):
                for st in n.body:
                    if isinstance(st, ast.FunctionDef):
                        ps = [a.arg for a in st.args.args]
                        static = any(isinstance(d, ast.Name) and d.id == "staticmethod" for d in st.decorator_list)
                        if not static and ps:
                            ps = ps[1:]
                        if st.name == "__init__":
                            sigs.setdefault("<ctor>" + n.name, []).append((ps, bool(st.args.vararg or st.args.kwarg)))
                        sigs.setdefault(st.name, []).append((ps, bool(st.args.vararg or st.args.kwarg)))
        for st in tree.body:
            if isinstance(st, ast.FunctionDef):
                sigs.setdefault(st.name, []).append(([a.arg for a in st.args.args], bool(st.args.vararg or st.args.kwarg)))
    count = 0
    for tree in trees:
        for n in ast.walk(tree):
            if not isinstance(n, ast.Call) or not n.keywords or any(k.arg is None for k in n.keywords) or any(isinstance(a, ast.Starred) for a in n.args):
                continue
            f = n.func
            name = f.attr if isinstance(f, ast.Attribute) else (f.id if isinstance(f, ast.Name) else None)
            if name is None:
                continue
            explicit_self = 0
            if name == "__init__" and isinstance(f, ast.Attribute):
                # Base.__init__(self, ...): the receiver is passed explicitly
                cname = f.value.attr if isinstance(f.value, ast.Attribute) else (f.value.id if isinstance(f.value, ast.Name) else None)
                cands = sigs.get("<ctor>" + cname, []) if cname else []
                explicit_self = 0 if (isinstance(f.value, ast.Call)) else 1
            elif isinstance(f, ast.Name) and ("<ctor>" + name) in sigs:
                cands = sigs["<ctor>" + name]
            else:
                cands = sigs.get(name, [])
            kws = [k.arg for k in n.keywords]
            cands = [ps for ps, var in cands if not var and all(k in ps for k in kws)]
            if not cands:
                continue
            pos = {k: {ps.index(k) for ps in cands} for k in kws}
            if any(len(v) != 1 for v in pos.values()):
                continue
            npos = len(n.args) - explicit_self
            want = sorted((next(iter(pos[k])), k) for k in kws)
            if [i for i, _ in want] != list(range(npos, npos + len(want))):
                continue
            byname = {k.arg: k.value for k in n.keywords}
            n.args = list(n.args) + [byname[k] for _, k in want]
            n.keywords = []
            count += 1
    return count


def canonical_roles(trees):
    """Private bookkeeping attributes of the iterative solver, identified by ROLE through the public
    accessors the properties name (`nit()`, `totnit()`) and renamed to the canonical spelling the rules use:

        counter  = the attribute `nit()` returns                          -> _nit
        offset   = the other operand of `totnit()`'s  counter + offset     -> _itstart
        time     = the attribute `_solve` assigns from <state>.time        -> _time

    so that a maintainer's rename of a private attribute changes nothing for the analysis.  Only
    `self.<attr>` accesses are renamed, only when the canonical name is not already used for something
    else.  Returns {old: canonical}."""
    def self_attr(e, sn):
        return e.attr if isinstance(e, ast.Attribute) and isinstance(e.value, ast.Name) and e.value.id == sn else None

    def single_return(fn):
        body = [st for st in fn.body if not (isinstance(st, ast.Expr) and isinstance(st.value, ast.Constant))]
        return body[0].value if len(body) == 1 and isinstance(body[0], ast.Return) else None
    funcs = {}
    for tree in trees:
        for n in ast.walk(tree):
            if isinstance(n, ast.ClassDef):
                for st in n.body:
                    if isinstance(st, ast.FunctionDef) and st.name in ("nit", "totnit", "_solve") and st.args.args:
                        funcs.setdefault(st.name, []).append(st)
    ren = {}
    counter = None
    if len(funcs.get("nit", [])) == 1:
        fn = funcs["nit"][0]
        r = single_return(fn)
        counter = self_attr(r, fn.args.args[0].arg) if r is not None else None
        if counter and counter != "_nit":
            ren[counter] = "_nit"
    if counter and len(funcs.get("totnit", [])) == 1:
        fn = funcs["totnit"][0]
        r = single_return(fn)
        sn = fn.args.args[0].arg
        if isinstance(r, ast.BinOp) and isinstance(r.op, ast.Add):
            a, b = self_attr(r.left, sn), self_attr(r.right, sn)
            other = b if a == counter else (a if b == counter else None)
            if other and other != "_itstart":
                ren[other] = "_itstart"
    if len(funcs.get("_solve", [])) == 1:
        fn = funcs["_solve"][0]
        sn = fn.args.args[0].arg
        cands = set()
        for n in ast.walk(fn):
            if isinstance(n, ast.Assign) and len(n.targets) == 1 and self_attr(n.targets[0], sn) and isinstance(n.value, ast.Attribute) and n.value.attr == "time" and self_attr(n.value.value, sn):
                cands.add(n.targets[0].attr)
        if len(cands) == 1:
            t = next(iter(cands))
            if t != "_time":
                ren[t] = "_time"
    # the monitor registry: the attribute  _parse_monitors  dispatches through  ( self.X[type](entry) )  -> _monitordict
    for tree in trees:
        for n in ast.walk(tree):
            if isinstance(n, ast.FunctionDef) and n.name == "_parse_monitors" and n.args.args:
                sn = n.args.args[0].arg
                xs = {c.func.value.attr for c in ast.walk(n) if isinstance(c, ast.Call) and isinstance(c.func, ast.Subscript) and self_attr(c.func.value, sn)}
                if len(xs) == 1:
                    x = next(iter(xs))
                    if x != "_monitordict":
                        ren[x] = "_monitordict"
            # the nozzle's cell positions: the attribute  initdisc  assigns from  <mesh>.centers()  -> _xc
            if isinstance(n, ast.FunctionDef) and n.name == "initdisc" and n.args.args:
                sn = n.args.args[0].arg
                xs = {st.targets[0].attr for st in ast.walk(n) if isinstance(st, ast.Assign) and len(st.targets) == 1 and self_attr(st.targets[0], sn)
                      and isinstance(st.value, ast.Call) and isinstance(st.value.func, ast.Attribute) and st.value.func.attr == "centers"}
                if len(xs) == 1:
                    x = next(iter(xs))
                    if x != "_xc":
                        ren[x] = "_xc"
    if not ren:
        return {}
    # collisions are looked for in the modules that use the old names on self (the solver's own module)
    home = [tree for tree in trees if any(isinstance(n, ast.Attribute) and n.attr in ren and isinstance(n.value, ast.Name) and n.value.id == "self" for n in ast.walk(tree))]
    used = set()
    for tree in home:
        for n in ast.walk(tree):
            if isinstance(n, ast.Attribute):
                used.add(n.attr)
    ren = {o: c for o, c in ren.items() if c not in used}
    for tree in home:
        for n in ast.walk(tree):
            if isinstance(n, ast.Attribute) and n.attr in ren and isinstance(n.value, ast.Name) and n.value.id in ("self",):
                n.attr = ren[n.attr]
    return ren


def normalise_super(trees):
    """super().m(args) / super(X, self).m(args) inside a method of a class with ONE base  ->  Base.m(self, args):
    with single inheritance the two are the same call, and every engine already follows the explicit form.
    Classes with several bases are left alone.  Returns the number of calls rewritten."""
    count = 0
    for tree in trees:
        for cls in ast.walk(tree):
            if not isinstance(cls, ast.ClassDef) or len(cls.bases) != 1 or cls.keywords:
                continue
            base = cls.bases[0]
            if not isinstance(base, (ast.Name, ast.Attribute)):
                continue
            for fn in cls.body:
                if not isinstance(fn, ast.FunctionDef) or not fn.args.args:
                    continue
                if any(isinstance(d, ast.Name) and d.id in ("staticmethod", "classmethod") for d in fn.decorator_list):
                    continue
                sn = fn.args.args[0].arg
                for n in ast.walk(fn):
                    if isinstance(n, ast.Call) and isinstance(n.func, ast.Attribute) and isinstance(n.func.value, ast.Call) \
                            and isinstance(n.func.value.func, ast.Name) and n.func.value.func.id == "super" and len(n.func.value.args) in (0, 2):
                        sup = n.func.value
                        if len(sup.args) == 2 and not (isinstance(sup.args[0], ast.Name) and sup.args[0].id == cls.name and isinstance(sup.args[1], ast.Name) and sup.args[1].id == sn):
                            continue
                        n.func.value = ast.copy_location(copy.deepcopy(base), sup)
                        for x in ast.walk(n.func.value):
                            ast.copy_location(x, sup)
                        n.args = [ast.copy_location(ast.Name(id=sn, ctx=ast.Load()), sup)] + list(n.args)
                        count += 1
    return count


def normalise_forwarding(trees):
    """def m(self, *args, **kwargs): Base.m(self, *args, **kwargs); ...   ->   the explicit signature of Base.m.

    A method that takes "whatever the base takes" and hands it on unchanged has the base method's signature: the rewrite gives it
    that signature (names and defaults) and passes the parameters on by position.  Only when `args` / `kwargs` are used nowhere
    else in the body, the base method is found by class name among the project's classes (walking up its own bases while it is
    itself a pure forwarder) and has no * / ** parameters.  Returns the number of methods rewritten."""
    classes = {}
    for tree in trees:
        for cls in ast.walk(tree):
            if isinstance(cls, ast.ClassDef):
                classes.setdefault(cls.name, cls)

    def find(cname, mname, depth=0):
        cls = classes.get(cname)
        if cls is None or depth > 8:
            return None
        for fn in cls.body:
            if isinstance(fn, ast.FunctionDef) and fn.name == mname:
                return fn
        for b in cls.bases:
            bn = b.id if isinstance(b, ast.Name) else (b.attr if isinstance(b, ast.Attribute) else None)
            r = find(bn, mname, depth + 1) if bn else None
            if r is not None:
                return r
        return None
    count = 0
    changed = True
    while changed:
        changed = False
        for cls in list(classes.values()):
            for fn in cls.body:
                if not isinstance(fn, ast.FunctionDef):
                    continue
                a = fn.args
                if len(a.args) != 1 or a.vararg is None or a.kwarg is None or a.kwonlyargs or a.posonlyargs or fn.decorator_list:
                    continue
                sn, va, kw = a.args[0].arg, a.vararg.arg, a.kwarg.arg
                calls = []
                uses = 0
                for n in ast.walk(fn):
                    if isinstance(n, ast.Name) and n.id in (va, kw):
                        uses += 1
                    if isinstance(n, ast.Call) and isinstance(n.func, ast.Attribute) and n.func.attr == fn.name and isinstance(n.func.value, (ast.Name, ast.Attribute)) \
                            and len(n.args) == 2 and isinstance(n.args[0], ast.Name) and n.args[0].id == sn and isinstance(n.args[1], ast.Starred) \
                            and isinstance(n.args[1].value, ast.Name) and n.args[1].value.id == va and len(n.keywords) == 1 and n.keywords[0].arg is None \
                            and isinstance(n.keywords[0].value, ast.Name) and n.keywords[0].value.id == kw:
                        calls.append(n)
                if len(calls) != 1 or uses != 2:
                    continue
                bname = calls[0].func.value.id if isinstance(calls[0].func.value, ast.Name) else calls[0].func.value.attr
                target = find(bname, fn.name)
                if target is None or target is fn:
                    continue
                ta = target.args
                if ta.vararg is not None or ta.kwarg is not None or ta.kwonlyargs or ta.posonlyargs or not ta.args:
                    continue
                new = copy.deepcopy(ta)
                new.args[0].arg = sn
                fn.args = new
                calls[0].args = [ast.Name(id=sn, ctx=ast.Load())] + [ast.Name(id=p.arg, ctx=ast.Load()) for p in new.args[1:]]
                calls[0].keywords = []
                ast.fix_missing_locations(fn)
                count += 1
                changed = True
    return count
