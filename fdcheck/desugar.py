"""Normalisation of reflective attribute idioms, applied to every module tree when the project is
loaded, so that all engines see ONE spelling of an attribute access:

    vars(X)                          ->  X.__dict__
    X.__dict__.get('a')              ->  getattr(X, 'a', None)
    X.__dict__.get('a', d)           ->  getattr(X, 'a', d)
    'a' in X.__dict__                ->  hasattr(X, 'a')          (not in: not hasattr)
    X.__dict__['a']                  ->  X.a                       (load, store, del)
    getattr(X, 'a')                  ->  X.a
    setattr(X, 'a', v)   (statement) ->  X.a = v
    delattr(X, 'a')      (statement) ->  del X.a
    for n in ('a', 'b'): BODY        ->  BODY[n:='a'] ; BODY[n:='b']      only when BODY uses n as the
                                         NAME in getattr / setattr / hasattr / delattr / __dict__ access,
                                         does not rebind n and has no break / continue / else

The rewriting preserves the meaning (attribute names that are identifiers; an instance without
__slots__ or properties of that name, which the library does not use) and the line numbers."""
import ast
import copy


def _is_str(n):
    return isinstance(n, ast.Constant) and isinstance(n.value, str) and n.value.isidentifier()


def _is_dunder_dict(n):
    return isinstance(n, ast.Attribute) and n.attr == "__dict__"


class _Subst(ast.NodeTransformer):
    def __init__(self, name, value):
        self.name, self.value = name, value

    def visit_Name(self, n):
        if n.id == self.name and isinstance(n.ctx, ast.Load):
            return ast.copy_location(ast.Constant(value=self.value), n)
        return n


def _uses_as_attr_name(body, name):
    for st in body:
        for n in ast.walk(st):
            if isinstance(n, ast.Call) and isinstance(n.func, ast.Name) and n.func.id in ("getattr", "setattr", "hasattr", "delattr") and len(n.args) >= 2 and isinstance(n.args[1], ast.Name) and n.args[1].id == name:
                return True
            if isinstance(n, ast.Subscript) and _is_dunder_dict(n.value) and isinstance(n.slice, ast.Name) and n.slice.id == name:
                return True
            if isinstance(n, ast.Call) and isinstance(n.func, ast.Attribute) and n.func.attr in ("get", "setdefault") and _is_dunder_dict(n.func.value) and n.args and isinstance(n.args[0], ast.Name) and n.args[0].id == name:
                return True
    return False


def _rebinds(body, name):
    for st in body:
        for n in ast.walk(st):
            if isinstance(n, ast.Name) and n.id == name and isinstance(n.ctx, (ast.Store, ast.Del)):
                return True
            if isinstance(n, (ast.Break, ast.Continue, ast.FunctionDef, ast.Lambda, ast.ListComp, ast.GeneratorExp, ast.DictComp, ast.SetComp)):
                return True
    return False


class Desugar(ast.NodeTransformer):
    def __init__(self):
        self.count = 0

    # ---- statements
    def _stmts(self, stmts):
        out = []
        for st in stmts:
            r = self.visit(st)
            if isinstance(r, list):
                out.extend(r)
            elif r is not None:
                out.append(r)
        return out

    def visit_For(self, node):
        it = node.iter
        if (isinstance(node.target, ast.Name) and isinstance(it, (ast.Tuple, ast.List)) and it.elts and all(_is_str(e) for e in it.elts)
                and not node.orelse and _uses_as_attr_name(node.body, node.target.id) and not _rebinds(node.body, node.target.id)):
            out = []
            for e in it.elts:
                for st in node.body:
                    st2 = _Subst(node.target.id, e.value).visit(copy.deepcopy(st))
                    out.append(st2)
            self.count += 1
            return self._stmts(out)
        self.generic_visit(node)
        return node

    def visit_Expr(self, node):
        self.generic_visit(node)
        v = node.value
        if isinstance(v, ast.Call) and isinstance(v.func, ast.Name) and not v.keywords:
            if v.func.id == "setattr" and len(v.args) == 3 and _is_str(v.args[1]):
                self.count += 1
                t = ast.Attribute(value=v.args[0], attr=v.args[1].value, ctx=ast.Store())
                return ast.fix_missing_locations(ast.copy_location(ast.Assign(targets=[ast.copy_location(t, v)], value=v.args[2]), node))
            if v.func.id == "delattr" and len(v.args) == 2 and _is_str(v.args[1]):
                self.count += 1
                t = ast.Attribute(value=v.args[0], attr=v.args[1].value, ctx=ast.Del())
                return ast.fix_missing_locations(ast.copy_location(ast.Delete(targets=[ast.copy_location(t, v)]), node))
        return node

    # ---- expressions
    def visit_Call(self, node):
        self.generic_visit(node)
        f = node.func
        if isinstance(f, ast.Name) and f.id == "vars" and len(node.args) == 1 and not node.keywords:
            self.count += 1
            return ast.copy_location(ast.Attribute(value=node.args[0], attr="__dict__", ctx=ast.Load()), node)
        if isinstance(f, ast.Name) and f.id == "getattr" and len(node.args) == 2 and _is_str(node.args[1]) and not node.keywords:
            self.count += 1
            return ast.copy_location(ast.Attribute(value=node.args[0], attr=node.args[1].value, ctx=ast.Load()), node)
        if isinstance(f, ast.Attribute) and f.attr == "get" and _is_dunder_dict(f.value) and 1 <= len(node.args) <= 2 and _is_str(node.args[0]) and not node.keywords:
            self.count += 1
            d = node.args[1] if len(node.args) == 2 else ast.copy_location(ast.Constant(value=None), node)
            return ast.fix_missing_locations(ast.copy_location(ast.Call(func=ast.Name(id="getattr", ctx=ast.Load()), args=[f.value.value, node.args[0], d], keywords=[]), node))
        return node

    def visit_Compare(self, node):
        self.generic_visit(node)
        if len(node.ops) == 1 and isinstance(node.ops[0], (ast.In, ast.NotIn)) and _is_str(node.left) and _is_dunder_dict(node.comparators[0]):
            self.count += 1
            c = ast.Call(func=ast.Name(id="hasattr", ctx=ast.Load()), args=[node.comparators[0].value, node.left], keywords=[])
            c = ast.fix_missing_locations(ast.copy_location(c, node))
            if isinstance(node.ops[0], ast.NotIn):
                c = ast.fix_missing_locations(ast.copy_location(ast.UnaryOp(op=ast.Not(), operand=c), node))
            return c
        return node

    def visit_Subscript(self, node):
        self.generic_visit(node)
        if _is_dunder_dict(node.value) and _is_str(node.slice):
            self.count += 1
            return ast.copy_location(ast.Attribute(value=node.value.value, attr=node.slice.value, ctx=node.ctx), node)
        return node


def desugar(tree):
    d = Desugar()
    tree = d.visit(tree)
    ast.fix_missing_locations(tree)
    return tree, d.count
