"""setup-time self check of the engines on built-in positive / negative examples."""
from fractions import Fraction

from .algebra import Algebra


def main():
    A = Algebra()
    x = A.sym("x", positive=True)
    y = A.sym("y")
    g = A.sym("gamma", gt=1)
    A.gamma = A.by_name["gamma"]
    checks = []
    checks.append(("sqrt(E)^2 == E", A.equal(A.sqrt(x + y * y + 1) ** 2, x + y * y + 1)))
    checks.append(("max+min == a+b", A.equal(A.maximum(x, y) + A.minimum(x, y), x + y)))
    checks.append(("abs^2 == sq", A.equal(A.abs(y) * A.abs(y), y * y)))
    checks.append(("power laws in Q(gamma)", A.equal((x ** ((g - 1) / g)) ** (g / (g - 1)), x)))
    checks.append(("x/(x+y) + y/(x+y) == 1", A.equal(x / (x + y) + y / (x + y), A.const(1))))
    checks.append(("negative: x+y != x-y", not A.equal(x + y, x - y)))
    checks.append(("sign(gamma-1) = +", A.sign(g - 1) == "+"))
    checks.append(("witness refutes x*y vs x+y", A.decide_equal(x * y, x + y)[0] == "refuted"))
    bad = [n for n, ok in checks if not ok]
    for n, ok in checks:
        print("selfcheck %-32s %s" % (n, "ok" if ok else "FAILED"))
    if bad:
        print("ANALYSIS-ERROR engine selfcheck failed: %s" % bad)
        return 2
    return 0
