"""ERR — first-order forward rounding-error analysis as an interpreter domain.

A value is a pair (v, e): v the exact real value (a GVN ring element) and e >= 0 a bound, in
units of the unit round-off u = 2^-53, on the RELATIVE error the floating-point evaluation of
the code's own expression tree commits on v (first order in u):

    inputs, literals                 e = 0
    a * b, a / b                     e = e_a + e_b + 1
    a + b, a - b                     e = (|a| e_a + |b| e_b) / |a +- b| + 1     (cancellation amplifies)
    a ** n                           e = |n| e_a + 1 ;  sqrt: e_a / 2 + 1
    -a, |a|, sign(a), 2^k * a        e = e_a
    min / max / where                the error of the selected operand (max of both if unresolved)

e is itself a ring element in the same atoms, so it can be evaluated at witness points of a
region.  The error attached to the RESULT follows the selections the region resolves, so a
badly conditioned expression in a branch that is not taken costs nothing.  This is the
classical condition-number argument done on the syntax tree; nothing is executed."""
from fractions import Fraction

from .project import AnalysisError


class EV:
    __slots__ = ("v", "e")

    def __init__(self, v, e):
        self.v, self.e = v, e

    def __repr__(self):
        return "EV(%r)" % (self.v,)


class ErrDomain:
    def __init__(self, alg):
        self.alg = alg
        self.cur_line = 0
        self.cur_func = ""
        self.zero = alg.const(0)
        self.one = alg.const(1)

    def is_value(self, x):
        from .algebra import RF
        return isinstance(x, (EV, RF))        # RF: conditions produced by cmp

    def const(self, c):
        return EV(self.alg.const(c), self.zero)

    def _pow2(self, x):
        c = x.v.const_value() if hasattr(x.v, "const_value") else None
        if c is None or c == 0:
            return False
        c = abs(Fraction(c))
        n, d = c.numerator, c.denominator
        return (n & (n - 1)) == 0 and (d & (d - 1)) == 0

    def _addsub(self, a, b, sign):
        A = self.alg
        r = A.add(a.v, b.v) if sign > 0 else A.sub(a.v, b.v)
        if r.is_zero():
            return EV(r, self.zero)
        if a.e.is_zero() and b.e.is_zero():
            return EV(r, self.one)
        num = A.add(A.mul(A.abs(a.v), a.e), A.mul(A.abs(b.v), b.e))
        return EV(r, A.add(A.div(num, A.abs(r)), self.one))

    def add(self, a, b):
        return self._addsub(a, b, +1)

    def sub(self, a, b):
        return self._addsub(a, b, -1)

    def mul(self, a, b):
        A = self.alg
        r = A.mul(a.v, b.v)
        if self._pow2(a):
            return EV(r, b.e)
        if self._pow2(b):
            return EV(r, a.e)
        if r.is_zero():
            return EV(r, self.zero)
        return EV(r, A.add(A.add(a.e, b.e), self.one))

    def div(self, a, b):
        A = self.alg
        r = A.div(a.v, b.v)
        if self._pow2(b):
            return EV(r, a.e)
        if r.is_zero():
            return EV(r, self.zero)
        return EV(r, A.add(A.add(a.e, b.e), self.one))

    def neg(self, a):
        return EV(self.alg.neg(a.v), a.e)

    def pow(self, a, e):
        A = self.alg
        if isinstance(e, EV):
            c = e.v.const_value()
            if c is None:
                # a ** b = exp(b ln a):  relative error |b| e_a + |b ln a| e_b + 1
                r = A.pow(a.v, e.v)
                return EV(r, A.add(A.add(A.mul(A.abs(e.v), a.e), A.mul(A.abs(A.mul(e.v, self._log(a.v))), e.e)), self.one))
            e = c
        e = Fraction(e)
        r = A.pow(a.v, e)
        if e == 1:
            return EV(r, a.e)
        return EV(r, A.add(A.mul(A.const(abs(e)), a.e), self.one))

    def _log(self, v):
        return self.alg.opaque("log", [v])

    def func1(self, fn, a):
        A = self.alg
        if fn == "abs":
            return EV(A.abs(a.v), a.e)
        if fn == "sign":
            return EV(A.signfn(a.v), self.zero)
        if fn == "sqrt":
            return EV(A.sqrt(a.v), A.add(A.div(a.e, A.const(2)), self.one))
        if fn == "log":
            # y = ln a: the RELATIVE error of a is the ABSOLUTE error of y
            r = self._log(a.v)
            return EV(r, A.add(A.div(a.e, A.abs(r)), self.one))
        if fn == "log1p":
            # y = ln(1 + a): dy = a e_a / (1 + a) -- near a = -1 (log1p(x - 1) for small x) the rounding of `a` is all there is
            s = A.add(self.one, a.v)
            r = self._log(s)
            return EV(r, A.add(A.div(A.mul(A.abs(a.v), a.e), A.mul(A.abs(s), A.abs(r))), self.one))
        if fn == "exp":
            return EV(A.opaque("exp", [a.v], positive=True), A.add(A.mul(A.abs(a.v), a.e), self.one))
        if fn == "expm1":
            ex = A.opaque("exp", [a.v], positive=True)
            r = A.sub(ex, self.one)
            return EV(r, A.add(A.div(A.mul(A.mul(A.abs(a.v), ex), a.e), A.abs(r)), self.one))
        raise AnalysisError("rounding analysis: unsupported function %s" % fn)

    def func2(self, fn, a, b):
        A = self.alg
        r = A.maximum(a.v, b.v) if fn == "maximum" else A.minimum(a.v, b.v)
        if A.equal(r, a.v):
            return EV(r, a.e)
        if A.equal(r, b.v):
            return EV(r, b.e)
        return EV(r, A.maximum(a.e, b.e))

    def cmp(self, op, a, b):
        return self.alg.cmp(op, a.v if isinstance(a, EV) else a, b.v if isinstance(b, EV) else b)

    def where(self, c, a, b):
        A = self.alg
        cv = c.const_value() if hasattr(c, "const_value") else None
        if cv is not None:
            return a if cv != 0 else b
        return EV(A.where(c, a.v, b.v), A.maximum(a.e, b.e))

    def truth(self, c):
        if isinstance(c, EV):
            c = c.v
        v = c.const_value()
        return None if v is None else v != 0

    def unknown_cond(self):
        # outcome of a reduction (np.all / np.any) that this entry does not force: both branches are
        # kept, the error bound is the larger one
        self._nunk = getattr(self, "_nunk", 0) + 1
        return self.alg.indicator(self.alg.sym("reduction%d" % self._nunk)) if hasattr(self.alg, "indicator") else self.alg.sym("reduction%d" % self._nunk)

    def cand(self, a, b):
        return self.alg.mul(a, b)

    def cor(self, a, b):
        A = self.alg
        return A.sub(A.add(a, b), A.mul(a, b))

    def cnot(self, a):
        return self.alg.sub(self.alg.const(1), a)

    def fold(self, v, hint):
        return v

    def opaque(self, name, args, positive=False):
        raise AnalysisError("rounding analysis: uninterpreted function %s" % name)
