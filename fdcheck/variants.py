"""Self-test variants of the analysed source.

neutral variants  : behaviour-preserving edits (AST-computed on the current tree, plus a few
                    hand-written refactoring patches) on which every rule must stay silent;
breaking variants : the confirmed seeded changes under /verif/seeded (independent
                    sub-agents) and re-introductions of the repaired defects.
Variants are built in a temporary directory outside /repo and /verif."""
import ast
import glob
import json
import os
import shutil
import subprocess

VERIF = os.path.dirname(os.path.dirname(os.path.abspath(__file__)))
NUMERIC_FILES = ["flowdyn/modelphy/euler.py", "flowdyn/modelphy/shallowwater.py", "flowdyn/modelphy/convection.py",
                 "flowdyn/modelphy/burgers.py", "flowdyn/xnum.py", "flowdyn/modeldisc.py", "flowdyn/_data.py",
                 "flowdyn/mesh.py", "flowdyn/mesh2d.py", "flowdyn/integration.py"]
# locals named by the properties' anchors (wave-speed estimates): a rename is documented as
# 'cannot decide' (exit 2), never an alarm; they are renamed only by variant N1b
ANCHOR_LOCALS = {"sL", "sR", "sM", "cmax"}


def has_str(node):
    return any(isinstance(n, ast.Constant) and isinstance(n.value, str) for n in ast.walk(node)) or any(isinstance(n, ast.JoinedStr) for n in ast.walk(node))


class Commute(ast.NodeTransformer):
    """a + b -> b + a ; a * b -> b * a  for numeric expressions inside functions"""
    def __init__(self):
        self.depth = 0

    def visit_FunctionDef(self, node):
        self.depth += 1
        self.generic_visit(node)
        self.depth -= 1
        return node

    def visit_Raise(self, node):
        return node

    def visit_BinOp(self, node):
        self.generic_visit(node)
        if self.depth and isinstance(node.op, (ast.Add, ast.Mult)) and not has_str(node):
            if any(isinstance(x, (ast.List, ast.ListComp, ast.Tuple)) for x in (node.left, node.right)):
                return node
            # keep list replication / concatenation untouched:  [None]*len(x)
            node.left, node.right = node.right, node.left
        return node


class PowToMul(ast.NodeTransformer):
    """x**2 -> x*x for side-effect-free x ; x*x stays"""
    def visit_BinOp(self, node):
        self.generic_visit(node)
        if isinstance(node.op, ast.Pow) and isinstance(node.right, ast.Constant) and node.right.value == 2:
            if isinstance(node.left, (ast.Name, ast.Attribute, ast.Subscript)) and not any(isinstance(n, ast.Call) for n in ast.walk(node.left)):
                return ast.BinOp(left=node.left, op=ast.Mult(), right=node.left)
        return node


class HalfForms(ast.NodeTransformer):
    """0.5*E -> E/2. ;  E/2. -> 0.5*E"""
    def visit_BinOp(self, node):
        self.generic_visit(node)
        if isinstance(node.op, ast.Mult) and isinstance(node.left, ast.Constant) and node.left.value == 0.5:
            return ast.BinOp(left=node.right, op=ast.Div(), right=ast.Constant(2.0))
        if isinstance(node.op, ast.Div) and isinstance(node.right, ast.Constant) and node.right.value in (2, 2.0) and not isinstance(node.right.value, bool):
            return ast.BinOp(left=ast.Constant(0.5), op=ast.Mult(), right=node.left)
        return node


class AbsForms(ast.NodeTransformer):
    """np.abs(x) <-> abs(x)  (abs -> np.abs only where numpy is imported as np)"""
    def visit_Module(self, node):
        self.has_np = any(isinstance(n, ast.Import) and any(a.name == "numpy" and a.asname == "np" for a in n.names) for n in node.body)
        self.generic_visit(node)
        return node

    def visit_Call(self, node):
        self.generic_visit(node)
        f = node.func
        if isinstance(f, ast.Attribute) and f.attr == "abs" and isinstance(f.value, ast.Name) and f.value.id == "np":
            return ast.Call(func=ast.Name("abs", ast.Load()), args=node.args, keywords=[])
        if isinstance(f, ast.Name) and f.id == "abs" and getattr(self, "has_np", False):
            return ast.Call(func=ast.Attribute(ast.Name("np", ast.Load()), "abs", ast.Load()), args=node.args, keywords=[])
        return node


class SplitChains(ast.NodeTransformer):
    """a = b = expr  ->  b = expr ; a = b"""
    def visit_Assign(self, node):
        if len(node.targets) == 2 and all(isinstance(t, ast.Name) for t in node.targets):
            a, b = node.targets
            return [ast.Assign(targets=[ast.Name(b.id, ast.Store())], value=node.value, lineno=node.lineno),
                    ast.Assign(targets=[ast.Name(a.id, ast.Store())], value=ast.Name(b.id, ast.Load()), lineno=node.lineno)]
        return node


class NegateWhere(ast.NodeTransformer):
    """np.where(a <= b, X, Y) -> np.where(a > b, Y, X)"""
    NEG = {ast.LtE: ast.Gt, ast.Lt: ast.GtE, ast.GtE: ast.Lt, ast.Gt: ast.LtE}

    def visit_Call(self, node):
        self.generic_visit(node)
        f = node.func
        if isinstance(f, ast.Attribute) and f.attr == "where" and len(node.args) == 3:
            c = node.args[0]
            if isinstance(c, ast.Compare) and len(c.ops) == 1 and type(c.ops[0]) in self.NEG:
                nc = ast.Compare(left=c.left, ops=[self.NEG[type(c.ops[0])]()], comparators=c.comparators)
                node.args = [nc, node.args[2], node.args[1]]
        return node


class RenameLocals(ast.NodeTransformer):
    """rename the local variables of every function (not parameters, not names used by nested
    lambdas / comprehensions as free variables of other scopes are handled consistently because
    the whole function subtree is renamed)"""
    def __init__(self, keep=()):
        self.keep = set(keep)

    def visit_FunctionDef(self, node):
        params = {a.arg for a in node.args.args + node.args.kwonlyargs}
        if node.args.vararg:
            params.add(node.args.vararg.arg)
        if node.args.kwarg:
            params.add(node.args.kwarg.arg)
        for sub in ast.walk(node):
            if isinstance(sub, ast.Lambda):
                params |= {a.arg for a in sub.args.args}
        stored = set()
        for sub in ast.walk(node):
            if isinstance(sub, ast.Name) and isinstance(sub.ctx, ast.Store):
                stored.add(sub.id)
            if isinstance(sub, (ast.Global, ast.Nonlocal)):
                params |= set(sub.names)
        ren = {n: n + "_v" for n in stored - params - self.keep if not n.startswith("__")}
        for sub in ast.walk(node):
            if isinstance(sub, ast.Name) and sub.id in ren:
                sub.id = ren[sub.id]
        for st in node.body:
            if isinstance(st, ast.FunctionDef):
                self.visit_FunctionDef(st)
        return node


AST_VARIANTS = [
    ("N01-rename-locals", "consistent renaming of the local variables of every function (anchor locals sL/sR/sM/cmax kept)", lambda: RenameLocals(keep=ANCHOR_LOCALS), "all"),
    ("N02-commute", "operands of + and * exchanged in every numeric expression", Commute, "all"),
    ("N03-pow-to-mul", "x**2 rewritten as x*x", PowToMul, "all"),
    ("N04-half-forms", "0.5*E <-> E/2.", HalfForms, "all"),
    ("N05-abs-forms", "np.abs <-> abs", AbsForms, "all"),
    ("N06-split-chains", "chained assignments a = b = e split into two statements", SplitChains, "all"),
    ("N07-negate-where", "np.where(c, X, Y) rewritten with the negated comparison and exchanged branches", NegateWhere, "all"),
    ("N08-rename-anchor-locals", "as N01 but the anchor locals sL/sR/sM/cmax are renamed too (checks that need them may answer 'cannot decide', never an alarm)", lambda: RenameLocals(), "noalarm"),
]


def build_ast_variant(root, dst, transformer_factory):
    shutil.copytree(os.path.join(root, "flowdyn"), os.path.join(dst, "flowdyn"))
    n = 0
    for rel in NUMERIC_FILES:
        p = os.path.join(dst, rel)
        if not os.path.exists(p):
            continue
        src = open(p, encoding="utf-8").read()
        tree = ast.parse(src)
        new = transformer_factory().visit(tree)
        ast.fix_missing_locations(new)
        out = ast.unparse(new)
        if out != ast.unparse(ast.parse(src)):
            n += 1
        with open(p, "w", encoding="utf-8") as fh:
            fh.write(out + "\n")
    return n


def build_patch_variant(root, dst, patch):
    shutil.copytree(os.path.join(root, "flowdyn"), os.path.join(dst, "flowdyn"))
    r = subprocess.run(["patch", "-p1", "-s", "--no-backup-if-mismatch", "-i", patch], cwd=dst, capture_output=True, text=True)
    return r.returncode == 0


def neutral_patches():
    return sorted(glob.glob(os.path.join(VERIF, "selftest", "neutral", "*.diff")))


def breaking_patches():
    out = []
    for meta in sorted(glob.glob(os.path.join(VERIF, "seeded", "*", "meta.json"))):
        d = os.path.dirname(meta)
        m = json.load(open(meta))
        out.append((os.path.basename(d), m["property"], os.path.join(d, "patch.diff")))
    for p in sorted(glob.glob(os.path.join(VERIF, "selftest", "breaking", "*.diff"))):
        name = os.path.basename(p)[:-5]
        out.append((name, name.split("-")[0], p))
    return out
