"""Self-test variants of the analysed source.

neutral variants  : behaviour-preserving edits (AST-computed on the current tree, plus a few
                    hand-written refactoring patches) on which every rule must stay silent;
breaking variants : the confirmed seeded changes under /verif/seeded (independent
                    sub-agents) and re-introductions of the repaired defects.
Variants are built in a temporary directory outside /repo and /verif."""
import ast
import glob
import json
import os
import shutil
import subprocess

VERIF = os.path.dirname(os.path.dirname(os.path.abspath(__file__)))
NUMERIC_FILES = ["flowdyn/modelphy/euler.py", "flowdyn/modelphy/shallowwater.py", "flowdyn/modelphy/convection.py",
                 "flowdyn/modelphy/burgers.py", "flowdyn/xnum.py", "flowdyn/modeldisc.py", "flowdyn/_data.py",
                 "flowdyn/mesh.py", "flowdyn/mesh2d.py", "flowdyn/integration.py"]
# locals named by the properties' anchors (wave-speed estimates): a rename is documented as
# 'cannot decide' (exit 2), never an alarm; they are renamed only by variant N1b
ANCHOR_LOCALS = {"sL", "sR", "sM", "cmax"}


def has_str(node):
    return any(isinstance(n, ast.Constant) and isinstance(n.value, str) for n in ast.walk(node)) or any(isinstance(n, ast.JoinedStr) for n in ast.walk(node))


class Commute(ast.NodeTransformer):
    """a + b -> b + a ; a * b -> b * a  for numeric expressions inside functions"""
    def __init__(self):
        self.depth = 0

    def visit_FunctionDef(self, node):
        self.depth += 1
        self.generic_visit(node)
        self.depth -= 1
        return node

    def visit_Raise(self, node):
        return node

    def visit_BinOp(self, node):
        self.generic_visit(node)
        if self.depth and isinstance(node.op, (ast.Add, ast.Mult)) and not has_str(node):
            if any(isinstance(x, (ast.List, ast.ListComp, ast.Tuple)) for x in (node.left, node.right)):
                return node
            # keep list replication / concatenation untouched:  [None]*len(x)
            node.left, node.right = node.right, node.left
        return node


class PowToMul(ast.NodeTransformer):
    """x**2 -> x*x for side-effect-free x ; x*x stays"""
    def visit_BinOp(self, node):
        self.generic_visit(node)
        if isinstance(node.op, ast.Pow) and isinstance(node.right, ast.Constant) and node.right.value == 2:
            if isinstance(node.left, (ast.Name, ast.Attribute, ast.Subscript)) and not any(isinstance(n, ast.Call) for n in ast.walk(node.left)):
                return ast.BinOp(left=node.left, op=ast.Mult(), right=node.left)
        return node


class HalfForms(ast.NodeTransformer):
    """0.5*E -> E/2. ;  E/2. -> 0.5*E"""
    def visit_BinOp(self, node):
        self.generic_visit(node)
        if isinstance(node.op, ast.Mult) and isinstance(node.left, ast.Constant) and node.left.value == 0.5:
            return ast.BinOp(left=node.right, op=ast.Div(), right=ast.Constant(2.0))
        if isinstance(node.op, ast.Div) and isinstance(node.right, ast.Constant) and node.right.value in (2, 2.0) and not isinstance(node.right.value, bool):
            return ast.BinOp(left=ast.Constant(0.5), op=ast.Mult(), right=node.left)
        return node


class AbsForms(ast.NodeTransformer):
    """np.abs(x) <-> abs(x)  (abs -> np.abs only where numpy is imported as np)"""
    def visit_Module(self, node):
        self.has_np = any(isinstance(n, ast.Import) and any(a.name == "numpy" and a.asname == "np" for a in n.names) for n in node.body)
        self.generic_visit(node)
        return node

    def visit_Call(self, node):
        self.generic_visit(node)
        f = node.func
        if isinstance(f, ast.Attribute) and f.attr == "abs" and isinstance(f.value, ast.Name) and f.value.id == "np":
            return ast.Call(func=ast.Name("abs", ast.Load()), args=node.args, keywords=[])
        if isinstance(f, ast.Name) and f.id == "abs" and getattr(self, "has_np", False):
            return ast.Call(func=ast.Attribute(ast.Name("np", ast.Load()), "abs", ast.Load()), args=node.args, keywords=[])
        return node


class SplitChains(ast.NodeTransformer):
    """a = b = expr  ->  b = expr ; a = b"""
    def visit_Assign(self, node):
        if len(node.targets) == 2 and all(isinstance(t, ast.Name) for t in node.targets):
            a, b = node.targets
            return [ast.Assign(targets=[ast.Name(b.id, ast.Store())], value=node.value, lineno=node.lineno),
                    ast.Assign(targets=[ast.Name(a.id, ast.Store())], value=ast.Name(b.id, ast.Load()), lineno=node.lineno)]
        return node


class NegateWhere(ast.NodeTransformer):
    """np.where(a <= b, X, Y) -> np.where(a > b, Y, X)"""
    NEG = {ast.LtE: ast.Gt, ast.Lt: ast.GtE, ast.GtE: ast.Lt, ast.Gt: ast.LtE}

    def visit_Call(self, node):
        self.generic_visit(node)
        f = node.func
        if isinstance(f, ast.Attribute) and f.attr == "where" and len(node.args) == 3:
            c = node.args[0]
            if isinstance(c, ast.Compare) and len(c.ops) == 1 and type(c.ops[0]) in self.NEG:
                nc = ast.Compare(left=c.left, ops=[self.NEG[type(c.ops[0])]()], comparators=c.comparators)
                node.args = [nc, node.args[2], node.args[1]]
        return node


class RenameLocals(ast.NodeTransformer):
    """rename the local variables of every function (not parameters, not names used by nested
    lambdas / comprehensions as free variables of other scopes are handled consistently because
    the whole function subtree is renamed)"""
    def __init__(self, keep=()):
        self.keep = set(keep)

    def visit_FunctionDef(self, node):
        params = {a.arg for a in node.args.args + node.args.kwonlyargs}
        if node.args.vararg:
            params.add(node.args.vararg.arg)
        if node.args.kwarg:
            params.add(node.args.kwarg.arg)
        for sub in ast.walk(node):
            if isinstance(sub, ast.Lambda):
                params |= {a.arg for a in sub.args.args}
        stored = set()
        for sub in ast.walk(node):
            if isinstance(sub, ast.Name) and isinstance(sub.ctx, ast.Store):
                stored.add(sub.id)
            if isinstance(sub, (ast.Global, ast.Nonlocal)):
                params |= set(sub.names)
        ren = {n: n + "_v" for n in stored - params - self.keep if not n.startswith("__")}
        for sub in ast.walk(node):
            if isinstance(sub, ast.Name) and sub.id in ren:
                sub.id = ren[sub.id]
        for st in node.body:
            if isinstance(st, ast.FunctionDef):
                self.visit_FunctionDef(st)
        return node


def _is_docstring(st):
    return isinstance(st, ast.Expr) and isinstance(st.value, ast.Constant) and isinstance(st.value.value, str)


def _split_doc(body):
    return (body[:1], body[1:]) if body and _is_docstring(body[0]) else ([], body)


class Annotate(ast.NodeTransformer):
    """type annotations on every parameter and return, and the first plain local assignment of each
    function turned into an annotated assignment (x: "T" = e)"""
    def visit_FunctionDef(self, node):
        self.generic_visit(node)
        for a in node.args.args[1:] if node.args.args and node.args.args[0].arg in ("self", "cls") else node.args.args:
            if a.annotation is None:
                a.annotation = ast.Constant("object")
        if node.returns is None and node.name != "__init__":
            node.returns = ast.Constant("object")
        for i, st in enumerate(node.body):
            if isinstance(st, ast.Assign) and len(st.targets) == 1 and isinstance(st.targets[0], ast.Name):
                node.body[i] = ast.AnnAssign(target=st.targets[0], annotation=ast.Constant("object"), value=st.value, simple=1)
                break
        return node


class Asserts(ast.NodeTransformer):
    """an `assert <first parameter> is not None` at the start of every function that has one"""
    def visit_FunctionDef(self, node):
        self.generic_visit(node)
        ps = [a.arg for a in node.args.args if a.arg not in ("self", "cls")]
        if ps and not node.decorator_list or ps:
            doc, rest = _split_doc(node.body)
            chk = ast.Assert(test=ast.Compare(left=ast.Name(ps[0], ast.Load()), ops=[ast.IsNot()], comparators=[ast.Constant(None)]), msg=ast.Constant("missing argument"))
            node.body = doc + [chk] + rest
        return node


class Logging(ast.NodeTransformer):
    """import logging ; a module logger ; a debug call at the start of every function"""
    def visit_Module(self, node):
        self.generic_visit(node)
        doc, rest = _split_doc(node.body)
        k = 0
        while k < len(rest) and isinstance(rest[k], ast.ImportFrom) and rest[k].module == "__future__":
            k += 1
        extra = ast.parse("import logging\n_fdlog = logging.getLogger(__name__)\n").body
        node.body = doc + rest[:k] + extra + rest[k:]
        return node

    def visit_FunctionDef(self, node):
        self.generic_visit(node)
        doc, rest = _split_doc(node.body)
        call = ast.parse("_fdlog.debug('enter %%s', %r)" % node.name).body[0]
        node.body = doc + [call] + rest
        return node


class ErrState(ast.NodeTransformer):
    """the body of every method that returns a value wrapped in `with np.errstate(invalid='warn'):` (numpy's
    default for `invalid`: no change of values nor of warnings)"""
    def visit_Module(self, node):
        self.has_np = any(isinstance(n, ast.Import) and any(a.name == "numpy" and a.asname == "np" for a in n.names) for n in node.body)
        self.generic_visit(node)
        return node

    def visit_FunctionDef(self, node):
        self.generic_visit(node)
        if not getattr(self, "has_np", False) or node.name.startswith("__"):
            return node
        if any(isinstance(n, (ast.Yield, ast.YieldFrom)) for n in ast.walk(node)):
            return node
        doc, rest = _split_doc(node.body)
        if not rest:
            return node
        w = ast.parse("with np.errstate(invalid='warn'):\n    pass\n").body[0]
        w.body = rest
        node.body = doc + [w]
        return node


class TryReraise(ast.NodeTransformer):
    """the body of every function wrapped in try: ... except Exception: raise"""
    def visit_FunctionDef(self, node):
        self.generic_visit(node)
        doc, rest = _split_doc(node.body)
        if not rest or node.name.startswith("__") and node.name != "__init__":
            return node
        t = ast.parse("try:\n    pass\nexcept Exception:\n    raise\n").body[0]
        t.body = rest
        node.body = doc + [t]
        return node


class SortMethods(ast.NodeTransformer):
    """methods of every class reordered (reverse source order; constructors and class-level statements stay
    in place; a name defined twice keeps its relative order)"""
    def visit_ClassDef(self, node):
        self.generic_visit(node)
        names = [st.name for st in node.body if isinstance(st, ast.FunctionDef)]
        if len(set(names)) != len(names):
            return node
        # class-level statements that refer to a method by name (aliases) pin the order: keep such classes
        meth = set(names)
        for st in node.body:
            if not isinstance(st, ast.FunctionDef):
                if any(isinstance(n, ast.Name) and n.id in meth for n in ast.walk(st)):
                    return node
        idx = [i for i, st in enumerate(node.body) if isinstance(st, ast.FunctionDef) and st.name != "__init__"]
        funcs = [node.body[i] for i in idx][::-1]
        for i, f in zip(idx, funcs):
            node.body[i] = f
        return node


class NumpyForms(ast.NodeTransformer):
    """np.sqrt(x) -> x**0.5 ; x**2 -> np.square(x) ; np.abs / abs -> np.absolute   (same values)"""
    def visit_Module(self, node):
        self.has_np = any(isinstance(n, ast.Import) and any(a.name == "numpy" and a.asname == "np" for a in n.names) for n in node.body)
        self.generic_visit(node)
        return node

    def visit_Call(self, node):
        self.generic_visit(node)
        f = node.func
        if isinstance(f, ast.Attribute) and isinstance(f.value, ast.Name) and f.value.id == "np" and len(node.args) == 1 and not node.keywords:
            if f.attr == "sqrt":
                return ast.BinOp(left=node.args[0], op=ast.Pow(), right=ast.Constant(0.5))
            if f.attr == "abs":
                f.attr = "absolute"
        return node

    def visit_BinOp(self, node):
        self.generic_visit(node)
        if getattr(self, "has_np", False) and isinstance(node.op, ast.Pow) and isinstance(node.right, ast.Constant) and node.right.value == 2 and not isinstance(node.right.value, bool):
            return ast.Call(func=ast.Attribute(ast.Name("np", ast.Load()), "square", ast.Load()), args=[node.left], keywords=[])
        return node


class CompToLoop(ast.NodeTransformer):
    """x = [E for v in IT]  ->  x = [] ; for v in IT: x.append(E)      (single generator, no condition,
    plain name target, E does not mention x)"""
    def visit_Assign(self, node):
        v = node.value
        if (len(node.targets) == 1 and isinstance(node.targets[0], ast.Name) and isinstance(v, ast.ListComp) and len(v.generators) == 1
                and not v.generators[0].ifs and not v.generators[0].is_async):
            x = node.targets[0].id
            if any(isinstance(n, ast.Name) and n.id == x for n in ast.walk(v)):
                return node
            g = v.generators[0]
            init = ast.Assign(targets=[ast.Name(x, ast.Store())], value=ast.List(elts=[], ctx=ast.Load()), lineno=node.lineno)
            app = ast.Expr(ast.Call(func=ast.Attribute(ast.Name(x, ast.Load()), "append", ast.Load()), args=[v.elt], keywords=[]))
            loop = ast.For(target=g.target, iter=g.iter, body=[app], orelse=[], lineno=node.lineno)
            return [init, loop]
        return node


class FStrings(ast.NodeTransformer):
    """"text" + name  /  "text" + name + "text" in raise statements -> f-strings"""
    def visit_Raise(self, node):
        if node.exc is not None and isinstance(node.exc, ast.Call) and len(node.exc.args) == 1:
            parts = []

            def flat(e):
                if isinstance(e, ast.BinOp) and isinstance(e.op, ast.Add):
                    return flat(e.left) and flat(e.right)
                if isinstance(e, ast.Constant) and isinstance(e.value, str):
                    parts.append(e)
                    return True
                if isinstance(e, (ast.Name, ast.Attribute)):
                    parts.append(ast.FormattedValue(value=e, conversion=-1, format_spec=None))
                    return True
                return False
            a = node.exc.args[0]
            if isinstance(a, ast.BinOp) and flat(a) and any(isinstance(x, ast.FormattedValue) for x in parts):
                node.exc.args[0] = ast.JoinedStr(values=parts)
        return node


AST_VARIANTS = [
    ("N01-rename-locals", "consistent renaming of the local variables of every function (anchor locals sL/sR/sM/cmax kept)", lambda: RenameLocals(keep=ANCHOR_LOCALS), "all"),
    ("N02-commute", "operands of + and * exchanged in every numeric expression", Commute, "all"),
    ("N03-pow-to-mul", "x**2 rewritten as x*x", PowToMul, "all"),
    ("N04-half-forms", "0.5*E <-> E/2.", HalfForms, "all"),
    ("N05-abs-forms", "np.abs <-> abs", AbsForms, "all"),
    ("N06-split-chains", "chained assignments a = b = e split into two statements", SplitChains, "all"),
    ("N07-negate-where", "np.where(c, X, Y) rewritten with the negated comparison and exchanged branches", NegateWhere, "all"),
    ("N70-annotations", "type annotations on parameters / returns and one annotated local assignment per function", Annotate, "all"),
    ("N71-asserts", "an assert on the first parameter at the start of every function", Asserts, "all"),
    ("N72-logging", "a module logger and a debug call at the start of every function", Logging, "all"),
    ("N73-errstate", "method bodies wrapped in `with np.errstate(invalid='warn'):`", ErrState, "all"),
    ("N74-try-reraise", "function bodies wrapped in try / except Exception: raise", TryReraise, "all"),
    ("N75-reorder-methods", "methods of every class in reverse source order", SortMethods, "all"),
    ("N77-numpy-forms", "np.sqrt(x) -> x**0.5, x**2 -> np.square(x), np.abs -> np.absolute", NumpyForms, "all"),
    ("N78-comp-to-loop", "list comprehensions assigned to a name rewritten as explicit append loops", CompToLoop, "all"),
    ("N79-fstrings", "string concatenations in raise statements rewritten as f-strings", FStrings, "all"),
    ("N08-rename-anchor-locals", "as N01 but the anchor locals sL/sR/sM/cmax are renamed too (checks that need them may answer 'cannot decide', never an alarm)", lambda: RenameLocals(), "noalarm"),
]


def build_ast_variant(root, dst, transformer_factory):
    shutil.copytree(os.path.join(root, "flowdyn"), os.path.join(dst, "flowdyn"))
    n = 0
    for rel in NUMERIC_FILES:
        p = os.path.join(dst, rel)
        if not os.path.exists(p):
            continue
        src = open(p, encoding="utf-8").read()
        tree = ast.parse(src)
        new = transformer_factory().visit(tree)
        ast.fix_missing_locations(new)
        out = ast.unparse(new)
        if out != ast.unparse(ast.parse(src)):
            n += 1
        with open(p, "w", encoding="utf-8") as fh:
            fh.write(out + "\n")
    return n


def build_patch_variant(root, dst, patch):
    shutil.copytree(os.path.join(root, "flowdyn"), os.path.join(dst, "flowdyn"))
    r = subprocess.run(["patch", "-p1", "-s", "--no-backup-if-mismatch", "-i", patch], cwd=dst, capture_output=True, text=True)
    return r.returncode == 0


def neutral_patches():
    return sorted(glob.glob(os.path.join(VERIF, "selftest", "neutral", "*.diff")))


def breaking_patches():
    out = []
    for meta in sorted(glob.glob(os.path.join(VERIF, "seeded", "*", "meta.json"))):
        d = os.path.dirname(meta)
        m = json.load(open(meta))
        out.append((os.path.basename(d), m["property"], os.path.join(d, "patch.diff")))
    for p in sorted(glob.glob(os.path.join(VERIF, "selftest", "breaking", "*.diff"))):
        name = os.path.basename(p)[:-5]
        out.append((name, name.split("-")[0], p))
    return out
