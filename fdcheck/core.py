"""Runner plumbing: obligations, three-valued verdicts, evidence files, known findings,
exit codes (0 held / 1 violation / 2 analysis error)."""
import json
import os
import sys
import time
import traceback

from .project import AnalysisError, Project, REPO

VERIF = os.path.dirname(os.path.dirname(os.path.abspath(__file__)))
EVIDENCE_DIR = os.environ.get("FDCHECK_EVIDENCE_DIR") or os.path.join(VERIF, "evidence")
KNOWN_FILE = os.path.join(VERIF, "known_findings.json")


class Obligation:
    __slots__ = ("rule", "construct", "status", "detail", "loc", "nontrivial", "key", "info")

    def __init__(self, rule, construct, status, detail="", loc="", nontrivial=False, key=None, info=None):
        self.rule = rule
        self.construct = construct
        self.status = status          # ok | violation | undecided | known
        self.detail = detail
        self.loc = loc
        self.nontrivial = nontrivial
        self.key = key or ""
        self.info = info

    def as_dict(self):
        d = {"rule": self.rule, "construct": self.construct, "status": self.status, "detail": self.detail}
        if self.loc:
            d["loc"] = self.loc
        if self.key:
            d["key"] = self.key
        if self.info is not None:
            d["info"] = self.info
        return d


class Check:
    def __init__(self, pid, tier="quick", seed=0, root=None):
        self.pid = pid
        self.tier = tier
        self.seed = seed
        self.root = root or REPO
        self.obs = []
        self.assumptions = []
        self.inventory = {}
        self.errors = []
        self.notes = []
        self.trusted = ["CPython ast parser", "fdcheck engines (self-tested on breaking/neutral variants)"]
        self.explanation = ""
        self.exhaustive = False
        self.selftest = None
        self.t0 = time.time()
        self.proj = None

    # -- recording
    def ok(self, rule, construct, detail="", loc="", nontrivial=True, info=None):
        self.obs.append(Obligation(rule, construct, "ok", detail, loc, nontrivial, None, info))

    def violation(self, rule, construct, detail, loc="", key=None, info=None):
        self.obs.append(Obligation(rule, construct, "violation", detail, loc, True, key, info))

    def undecided(self, rule, construct, detail, loc=""):
        self.obs.append(Obligation(rule, construct, "undecided", detail, loc, True))

    def record(self, rule, construct, verdict, detail="", loc="", key=None, info=None, nontrivial=True):
        """verdict: True/'proved' -> ok ; False/'refuted' -> violation ; else undecided"""
        if verdict is True or verdict == "proved" or verdict == "ok":
            self.ok(rule, construct, detail, loc, nontrivial, info)
        elif verdict is False or verdict == "refuted" or verdict == "violation":
            self.violation(rule, construct, detail, loc, key, info)
        else:
            self.undecided(rule, construct, detail, loc)

    def assume(self, text):
        if text not in self.assumptions:
            self.assumptions.append(text)

    def floor(self, what, count, minimum):
        """inventory floor: a rule matching fewer instances than confirmed by hand is an
        analysis error, never a vacuous pass"""
        self.inventory[what] = count
        if count < minimum:
            raise AnalysisError("inventory %s = %d below the floor %d confirmed on the reference tree" % (what, count, minimum))

    def failed(self, rule, construct, e, loc="", prefix="analysis error"):
        """an AnalysisError caught by a rule: a violation if the construct it met is itself the defect (for this
        property), otherwise an undecided obligation"""
        v = getattr(e, "violation", None)
        if v is not None and len(v) > 4 and self.pid not in v[4]:
            v = None
        if v is not None:
            if not any(o.status == "violation" and o.rule == v[0] and o.construct == v[1] and o.key == v[3] for o in self.obs):
                self.violation(v[0], v[1], v[2], loc, key=v[3])
        else:
            self.undecided(rule, construct, "%s: %s" % (prefix, e), loc)

    def guarded(self, rule, construct, fn, loc=""):
        """run fn(); AnalysisError becomes an undecided obligation (fail closed)"""
        try:
            return fn()
        except AnalysisError as e:
            v = getattr(e, "violation", None)
            if v is not None and len(v) > 4 and self.pid not in v[4]:
                v = None            # the construct is a defect for other properties only: undecided here
            if v is not None:
                # an analysis that cannot proceed BECAUSE the construct it met is itself the defect
                self.violation(v[0], v[1], v[2], loc, key=v[3])
            else:
                self.undecided(rule, construct, "analysis error: %s" % e, loc)
            return None


def load_known():
    if not os.path.exists(KNOWN_FILE):
        return []
    with open(KNOWN_FILE) as fh:
        return json.load(fh).get("findings", [])


def match_known(pid, ob, known):
    for k in known:
        if k.get("status") != "known":
            continue
        if k["property"] == pid and k["rule"] == ob.rule and k["construct"] == ob.construct and k.get("key", "") == (ob.key or ""):
            return k
    return None


def finish(check, body_error=None):
    """write evidence, print report, return exit code"""
    pid = check.pid
    known = load_known()
    viol, und, kn = [], [], []
    for ob in check.obs:
        if ob.status == "violation":
            k = match_known(pid, ob, known)
            if k is not None:
                ob.status = "known"
                kn.append(ob)
            else:
                viol.append(ob)
        elif ob.status == "undecided":
            und.append(ob)
    n = len(check.obs)
    discharged = sum(1 for o in check.obs if o.status == "ok")
    nontrivial = len({(o.rule, o.construct, o.detail) for o in check.obs if o.nontrivial and o.status == "ok"})
    wall = time.time() - check.t0
    # samples: rotate with the seed
    oks = [o for o in check.obs if o.status == "ok"]
    samples = []
    if oks:
        step = max(1, len(oks) // 6)
        start = check.seed % max(1, len(oks))
        for i in range(0, min(6, len(oks))):
            samples.append(oks[(start + i * step) % len(oks)].as_dict())
    for o in (viol + kn + und)[:6]:
        samples.append(o.as_dict())
    if not samples:
        samples = [{"note": "no obligation generated"}]
    rules = sorted({o.rule for o in check.obs})
    cov = {
        "explanation": check.explanation or ("static analysis; rules %s over %d constructs" % (", ".join(rules), len({o.construct for o in check.obs}))),
        "obligations": n,
        "discharged": discharged,
        "checker_cmd": "/venv/bin/python -m fdcheck %s --tier %s" % (pid, check.tier),
        "trusted_base": check.trusted,
        "evaluations": n,
        "distinct_nontrivial": nontrivial,
        "rule": "one obligation per (rule, construct, clause) generated from the current source tree; non-trivial = discharge needed a normalisation / unification / path walk beyond a syntactic match",
        "samples": samples,
        "exhaustive": bool(check.exhaustive),
        "rules": rules,
        "inventory": check.inventory,
        "known_findings_reported": [o.as_dict() for o in kn],
        "undecided": [o.as_dict() for o in und],
        "analysed_root": check.root,
        "notes": check.notes,
    }
    if check.selftest is not None:
        cov["selftest"] = check.selftest
    if body_error:
        cov["analysis_error"] = body_error
    ev = {
        "property_id": pid,
        "tier": check.tier,
        "seed": int(check.seed),
        "level": "other",
        "coverage": cov,
        "assumptions": check.assumptions,
        "wall_s": round(wall, 3),
        "violations": len(viol),
    }
    os.makedirs(EVIDENCE_DIR, exist_ok=True)
    evpath = os.path.join(EVIDENCE_DIR, "%s.json" % pid)
    with open(evpath, "w") as fh:
        json.dump(ev, fh, indent=1, default=str)
    print("%s tier=%s root=%s: %d obligations, %d discharged, %d violations, %d known findings, %d undecided, %.2fs" % (
        pid, check.tier, check.root, n, discharged, len(viol), len(kn), len(und), wall))
    for o in kn:
        print("KNOWN-FINDING: property=%s %s %s %s" % (pid, o.rule, o.construct, o.detail))
    code = 0
    if not viol:
        # a replay file left by an earlier run that did report violations is stale now
        try:
            os.remove(os.path.join(EVIDENCE_DIR, "%s.violations.json" % pid))
        except OSError:
            pass
    if viol:
        vpath = os.path.join(EVIDENCE_DIR, "%s.violations.json" % pid)
        with open(vpath, "w") as fh:
            json.dump([o.as_dict() for o in viol], fh, indent=1, default=str)
        for o in viol:
            print("  %s  %s  %s  -- %s" % (o.loc or "-", o.construct, o.rule, o.detail))
        print("VIOLATION property=%s replay=%s" % (pid, vpath))
        code = 1
    if code == 0 and (und or body_error):
        for o in und:
            print("ANALYSIS-ERROR %s %s %s -- %s" % (o.loc or "-", o.construct, o.rule, o.detail))
        if body_error:
            print("ANALYSIS-ERROR %s" % body_error)
        code = 2
    return code


def run_property(pid, body, tier="quick", seed=0, root=None):
    check = Check(pid, tier, seed, root)
    err = None
    os.environ["FDCHECK_TIER"] = tier
    try:
        check.proj = Project(check.root)
        # rules shared by several properties run first: an unsupported construct met later by the
        # property's own engines must not hide a violation they can already name
        from . import common_rules
        common_rules.run(check)
        body(check)
        if tier == "thorough" and not os.environ.get("FDCHECK_NO_SELFTEST"):
            # both-ways self-test of this property's rules (reported in the evidence; it never
            # changes the verdict on the analysed tree)
            try:
                from . import selftest
                check.selftest = selftest.summary_for(pid)
                st = check.selftest
                print("%s selftest: neutral %s, breaking %s%s" % (pid, st["neutral"], st["breaking"],
                      (" ; cannot decide on neutral: %s" % st["neutral_cannot_decide"]) if st["neutral_cannot_decide"] else ""))
                for v in st["neutral_alarms"]:
                    print("SELFTEST-PROBLEM %s raises an alarm on neutral variant %s" % (pid, v))
                for v in st["breaking_missed"]:
                    print("SELFTEST-PROBLEM %s misses breaking variant %s" % (pid, v))
            except Exception as e:
                check.notes.append("self-test could not run: %s" % e)
    except AnalysisError as e:
        v = getattr(e, "violation", None)
        if v is not None and (len(v) <= 4 or pid in v[4]):
            check.violation(v[0], v[1], v[2], "", key=v[3])
        else:
            err = "%s" % e
    except RecursionError:
        err = "recursion limit in analysis"
    except Exception as e:   # internal error: never a verdict
        err = "internal error: %s: %s | %s" % (type(e).__name__, e, traceback.format_exc().splitlines()[-int(os.environ.get("FDCHECK_TB", "3")):])
    return finish(check, err)
