"""UNIT — units-of-measure inference (Kennedy-style dimension types) as an interpreter
domain.  A dimension is a vector of rational exponents over base units; a non-zero numeric
literal is dimensionless, the literal 0 is dimension-polymorphic.  Operands of + - < <=
min max where-branches must have equal dimensions; * / add / subtract exponents; sqrt halves;
the arguments of log/exp/trig and the base *and* exponent of a non-literal power must be
dimensionless.  For model-independent code the data dimension is a rigid type variable: a
comparison that would force it to 1 is the report (UNIT-POLY)."""
import ast
from fractions import Fraction

from .interp import Interp, SelfObj, OpaqueFn, ObjStub, Vec, ParamDict
from .models import MODELS
from .project import AnalysisError


class UVal:
    __slots__ = ("dim", "const")

    def __init__(self, dim, const=None):
        self.dim = dim          # dict base->Fraction ; None = polymorphic zero
        self.const = const      # known numeric value (for exponents)

    def __repr__(self):
        return show_dim(self.dim)


def show_dim(d):
    if d is None:
        return "0(any)"
    if not d:
        return "1"
    return "*".join("%s^%s" % (k, v) if v != 1 else k for k, v in sorted(d.items()))


def dmul(a, b, s=1):
    r = dict(a)
    for k, v in b.items():
        x = r.get(k, 0) + s * v
        if x == 0:
            r.pop(k, None)
        else:
            r[k] = x
    return r


def D(**kw):
    return {k: Fraction(v) for k, v in kw.items() if v != 0}


class UnitDomain:
    def __init__(self):
        self.errors = []     # (line, text)
        self.cur_line = 0
        self.cur_func = ""

    def err(self, text):
        item = (self.cur_func, self.cur_line, text)
        if item not in self.errors:
            self.errors.append(item)

    def is_value(self, v):
        return isinstance(v, UVal)

    def const(self, c):
        c = Fraction(c)
        if c == 0:
            return UVal(None, c)
        return UVal({}, c)

    def val(self, dim):
        return UVal(dict(dim))

    def unify(self, a, b, what):
        if a.dim is None:
            return b.dim
        if b.dim is None:
            return a.dim
        if a.dim != b.dim:
            self.err("%s of quantities with dimensions %s and %s" % (what, show_dim(a.dim), show_dim(b.dim)))
        return a.dim

    def add(self, a, b):
        d = self.unify(a, b, "sum")
        c = a.const + b.const if (a.const is not None and b.const is not None) else None
        return UVal(d, c)

    def sub(self, a, b):
        d = self.unify(a, b, "difference")
        c = a.const - b.const if (a.const is not None and b.const is not None) else None
        if c == 0 and d == {}:
            pass
        return UVal(d, c)

    def mul(self, a, b):
        if a.dim is None or b.dim is None:
            return UVal(None, Fraction(0))
        c = a.const * b.const if (a.const is not None and b.const is not None) else None
        return UVal(dmul(a.dim, b.dim), c)

    def div(self, a, b):
        if b.dim is None:
            self.err("division by literal zero")
            return UVal({}, None)
        if a.dim is None:
            return UVal(None, Fraction(0))
        c = a.const / b.const if (a.const is not None and b.const not in (None, 0)) else None
        return UVal(dmul(a.dim, b.dim, -1), c)

    def neg(self, a):
        return UVal(a.dim, -a.const if a.const is not None else None)

    def pow(self, a, e):
        if isinstance(e, UVal):
            if e.dim not in ({}, None):
                self.err("exponent has dimension %s" % show_dim(e.dim))
            if e.const is not None:
                e = e.const
            else:
                if a.dim not in ({}, None):
                    self.err("quantity of dimension %s raised to a non-literal power" % show_dim(a.dim))
                return UVal({} if a.dim is not None else None, None)
        e = Fraction(e)
        if a.dim is None:
            return UVal(None, Fraction(0))
        c = None
        if a.const is not None and e.denominator == 1:
            try:
                c = a.const ** int(e)
            except ZeroDivisionError:
                c = None
        return UVal({k: v * e for k, v in a.dim.items()}, c)

    def func1(self, fn, a):
        if fn == "sqrt":
            return self.pow(a, Fraction(1, 2))
        if fn == "abs":
            return UVal(a.dim, abs(a.const) if a.const is not None else None)
        if fn == "sign":
            return UVal({}, None)
        if fn in ("log", "exp", "cos", "sin", "deg2rad"):
            if a.dim not in ({}, None):
                self.err("%s of a quantity with dimension %s" % (fn, show_dim(a.dim)))
            return UVal({}, None)
        raise AnalysisError("unsupported function %s" % fn)

    def func2(self, fn, a, b):
        return UVal(self.unify(a, b, fn), None)

    def where(self, c, a, b):
        return UVal(self.unify(a, b, "branches of a selection"), None)

    def cmp(self, op, a, b):
        self.unify(a, b, "comparison")
        return UVal({}, None)

    def cand(self, a, b):
        return UVal({}, None)

    cor = cand

    def cnot(self, a):
        return UVal({}, None)

    def truth(self, c):
        return None

    def unknown_cond(self):
        return UVal({}, None)

    def fold(self, v, hint):
        return v

    def opaque(self, name, args, positive=False):
        return UVal(D(**{"S": 1}) if name == "A" else {}, None)


# ----------------------------------------------------------------------------- declarations
def model_units(key):
    """dimensions of primitive / conservative components, constants, flux factor"""
    if key in ("euler1d", "nozzle", "euler2d"):
        prim = [D(A=1), D(B=1), D(A=1, B=2)]
        cons = [D(A=1), D(A=1, B=1), D(A=1, B=2)]
        consts = {"gamma": {}}
    elif key == "shallowwater":
        prim = [D(H=1), D(B=1)]
        cons = [D(H=1), D(H=1, B=1)]
        consts = {"g": D(B=2, H=-1)}
    elif key == "convection":
        prim = [D(A=1)]
        cons = [D(A=1)]
        consts = {"convcoef": D(B=1)}
    elif key == "burgers":
        prim = [D(B=1)]
        cons = [D(B=1)]
        consts = {}
    else:
        raise AnalysisError("no unit declaration for %s" % key)
    return prim, cons, consts


VAR_DIMS = {
    "density": D(A=1), "pressure": D(A=1, B=2), "velocity": D(B=1), "velocitymag": D(B=1),
    "kinetic_energy": D(A=1, B=2), "kinetic-energy": D(A=1, B=2), "asound": D(B=1), "mach": {},
    "enthalpy": D(B=2), "htot": D(B=2), "rttot": D(B=2), "ptot": D(A=1, B=2),
    "massflow": D(A=1, B=1), "velocity_x": D(B=1), "velocity_y": D(B=1),
    "height": D(H=1), "q": D(A=1),
}
UNIT_EXEMPT = {"entropy": "log of a dimensional quantity by definition (an output, not on the solution path)"}
PARAM_DIMS = {"ptot": D(A=1, B=2), "p": D(A=1, B=2), "rttot": D(B=2), "angle": {}}


class UCtx:
    def __init__(self, proj, key):
        self.proj = proj
        self.key = key
        self.cls = proj.cls(MODELS[key]["cls"])
        self.dom = UnitDomain()
        self.interp = Interp(proj, self.dom)
        self.interp.fold_locals = False
        self.prim_d, self.cons_d, consts = model_units(key)
        attrs = {}
        summ = proj.ctor_summary(self.cls)
        for name, (kind, val) in summ.items():
            if kind == "const":
                if isinstance(val, Fraction):
                    attrs[name] = int(val) if val.denominator == 1 else val
                elif isinstance(val, tuple):
                    attrs[name] = [int(v) if isinstance(v, Fraction) and v.denominator == 1 else v for v in val]
                else:
                    attrs[name] = val
            elif kind == "param" and val in consts:
                attrs[name] = UVal(dict(consts[val]))
            elif kind == "param" and val == "sectionlaw":
                attrs[name] = OpaqueFn("A", positive=True)
            elif kind == "param" and val == "source":
                attrs[name] = None
        if key == "nozzle":
            attrs["geomterm"] = UVal(D(X=-1))
            attrs["_xc"] = UVal(D(X=1))
        for reg in ("_bcdict", "_vardict", "_numfluxdict"):
            attrs[reg] = ObjStub(reg, {"merge": (lambda other: None)})
        self.selfobj = SelfObj(self.cls, attrs)
        # attributes computed in a constructor from its parameters: typed with the parameters' units
        init = proj.resolve(self.cls, "__init__")
        for name, (kind, val) in summ.items():
            if kind == "expr" and hasattr(val, "env") and name not in attrs:
                env = {}
                for nm, b in val.env.items():
                    if isinstance(b, tuple) and len(b) == 2:
                        if b[0] == "param" and b[1] in consts:
                            env[nm] = UVal(dict(consts[b[1]]))
                        elif b[0] == "const" and isinstance(b[1], (int, float, Fraction)) and not isinstance(b[1], bool):
                            env[nm] = Fraction(repr(b[1])) if isinstance(b[1], float) else b[1]
                try:
                    v = self.interp.eval(val.expr, env, init, 0)
                except AnalysisError:
                    continue
                if isinstance(v, UVal) or isinstance(v, (int, Fraction)):
                    attrs[name] = v
        self.dim2 = MODELS[key]["dim"] == 2

    def state(self, dims):
        out = []
        for i, d in enumerate(dims):
            if self.dim2 and i == 1:
                out.append(Vec(UVal(dict(d)), UVal(dict(d))))
            else:
                out.append(UVal(dict(d)))
        return out

    def call(self, f, *args):
        self.dom.cur_func = f.qualname
        return self.interp.call_function(f, [self.selfobj] + list(args))


def _flatten(v):
    out = []
    for x in v:
        if isinstance(x, Vec):
            out += [x.x, x.y]
        else:
            out.append(x)
    return out


def _report(check, rule, construct, loc, ctx, got, want, what, exempt=None):
    """errors collected by the domain + result dimension"""
    errs = list(ctx.dom.errors)
    ctx.dom.errors.clear()
    for fn, ln, text in errs:
        check.violation(rule if "literal" not in text else rule, construct, "line %d: %s" % (ln, text), loc, key="unit:" + text[:60])
    if errs:
        return False
    ok = True
    for i, (g, w) in enumerate(zip(got, want)):
        if not isinstance(g, UVal):
            check.undecided(rule, construct, "%s: component %d has no dimension (%r)" % (what, i, g), loc)
            ok = False
            continue
        if g.dim is not None and g.dim != w:
            check.violation(rule, construct, "%s: component %d has dimension %s, expected %s" % (what, i, show_dim(g.dim), show_dim(w)), loc, key="unit-out:%d" % i)
            ok = False
    if ok:
        check.ok(rule, construct, "%s is dimensionally homogeneous with dimensions [%s]" % (what, ", ".join(show_dim(w) for w in want)), loc)
    return ok


def check_flux_units(check, rule="UNIT-HOMOG"):
    from .fluxes import flux_kernels
    proj = check.proj
    for key in ("convection", "burgers", "shallowwater", "euler1d", "euler2d"):
        for f, names in flux_kernels(proj, key):
            ctx = UCtx(proj, key)
            L, R = ctx.state(ctx.prim_d), ctx.state(ctx.prim_d)
            try:
                if key in ("convection", "burgers"):
                    F = ctx.call(f, None, L, R)
                elif key == "euler2d":
                    F = ctx.call(f, L, R, Vec(UVal({}), UVal({})))
                else:
                    F = ctx.call(f, L, R, None)
            except AnalysisError as e:
                check.undecided(rule, f.qualname, "units: %s" % e, f.loc())
                continue
            B = D(B=1)
            want = []
            for i, d in enumerate(ctx.cons_d):
                w = dmul(d, B)
                want += [w, w] if (ctx.dim2 and i == 1) else [w]
            _report(check, rule, f.qualname, f.loc(), ctx, _flatten(F), want, "flux")


def check_variable_units(check, rule="UNIT-HOMOG"):
    proj = check.proj
    for key in ("convection", "shallowwater", "euler1d", "nozzle", "euler2d"):
        cls = proj.cls(MODELS[key]["cls"])
        reg = proj.instance_registry(cls, "_vardict")
        for name, f in sorted(reg.items()):
            construct = "%s[%s]" % (cls.qualname, name)
            if name in UNIT_EXEMPT:
                check.ok(rule, construct, "exempt: %s" % UNIT_EXEMPT[name], f.loc(), nontrivial=False)
                continue
            ctx = UCtx(proj, key)
            q = ctx.state(ctx.cons_d)
            try:
                v = ctx.call(f, q)
            except AnalysisError as e:
                check.undecided(rule, construct, "units: %s" % e, f.loc())
                continue
            if name not in VAR_DIMS:
                # a variable the statement does not name (added since): no expected dimension, but its expression must
                # still be dimensionally homogeneous (only like quantities added or compared); its dimension is reported
                errs = [e_ for e_ in getattr(ctx.dom, "errors", [])]
                got = _flatten([v])
                if errs:
                    ln, text = errs[0]
                    check.violation(rule, construct, "line %d: %s" % (ln, text), f.loc(), key="unit:" + text[:60])
                else:
                    check.ok(rule, construct, "variable not named by the statement: homogeneous expression of dimension %s" % ", ".join(sorted({show_dim(g.dim) for g in got})), f.loc(), nontrivial=False)
                continue
            want = dict(VAR_DIMS[name])
            if key == "nozzle" and name == "massflow":
                want = dmul(want, D(S=1))
            if key == "shallowwater" and name == "massflow":
                want = D(H=1, B=1)
            got = _flatten([v])
            _report(check, rule, construct, f.loc(), ctx, got, [want] * len(got), "variable %s" % name)
        # conversions
        for meth, src, dst in (("cons2prim", "cons_d", "prim_d"), ("prim2cons", "prim_d", "cons_d")):
            ctx = UCtx(proj, key)
            f = proj.resolve(cls, meth)
            try:
                out = ctx.call(f, ctx.state(getattr(ctx, src)))
            except AnalysisError as e:
                check.undecided(rule, f.qualname, "units: %s" % e, f.loc())
                continue
            want = []
            for i, d in enumerate(getattr(ctx, dst)):
                want += [d, d] if (ctx.dim2 and i == 1) else [d]
            _report(check, rule, "%s [%s]" % (f.qualname, key), f.loc(), ctx, _flatten(out), want, meth)


def check_timestep_units(check, rule="UNIT-HOMOG"):
    proj = check.proj
    for key in ("convection", "burgers", "shallowwater", "euler1d", "euler2d"):
        ctx = UCtx(proj, key)
        f = proj.resolve(ctx.cls, "timestep")
        try:
            dt = ctx.call(f, ctx.state(ctx.cons_d), UVal(D(X=1)), UVal({}))
        except AnalysisError as e:
            check.undecided(rule, f.qualname, "units: %s" % e, f.loc())
            continue
        _report(check, rule, "%s [%s]" % (f.qualname, key), f.loc(), ctx, [dt], [D(X=1, B=-1)], "time step")


def check_source_units(check, rule="UNIT-HOMOG"):
    proj = check.proj
    ctx = UCtx(proj, "nozzle")
    for i, nm in enumerate(("src_mass", "src_mom", "src_energy")):
        f = proj.resolve(ctx.cls, nm)
        ctx = UCtx(proj, "nozzle")
        try:
            v = ctx.call(f, UVal(D(X=1)), ctx.state(ctx.cons_d))
        except AnalysisError as e:
            check.undecided(rule, f.qualname, "units: %s" % e, f.loc())
            continue
        _report(check, rule, f.qualname, f.loc(), ctx, [v], [dmul(dmul(ctx.cons_d[i], D(B=1)), D(X=-1))], "source of equation %d" % i)


def check_bc_units(check, rule="UNIT-HOMOG"):
    proj = check.proj
    for key in ("euler1d", "shallowwater", "euler2d"):
        cls = proj.cls(MODELS[key]["cls"])
        reg = proj.instance_registry(cls, "_bcdict")
        seen = set()
        for name, f in sorted(reg.items()):
            if f.qualname in seen:
                continue
            seen.add(f.qualname)
            ctx = UCtx(proj, key)

            def mk(k):
                if k == "prim":
                    return ctx.state(ctx.prim_d)
                if k in PARAM_DIMS:
                    return UVal(dict(PARAM_DIMS[k]))
                raise AnalysisError("no dimension declared for boundary parameter %r" % k)
            prm = ParamDict({}, make=mk)
            dirv = Vec(UVal({}), UVal({})) if ctx.dim2 else UVal({}, None)
            try:
                out = ctx.call(f, dirv, ctx.state(ctx.prim_d), prm)
            except AnalysisError as e:
                check.undecided(rule, f.qualname, "units: %s" % e, f.loc())
                continue
            want = []
            for i, d in enumerate(ctx.prim_d):
                want += [d, d] if (ctx.dim2 and i == 1) else [d]
            _report(check, rule, f.qualname, f.loc(), ctx, _flatten(out), want, "boundary state")


def check_poly_units(check, rule="UNIT-POLY"):
    """model-independent code: limiters with a rigid type variable G for the slope"""
    proj = check.proj
    from .disc1d import LIMITERS
    for nm in LIMITERS:
        f = proj.func("xnum." + nm)
        dom = UnitDomain()
        it = Interp(proj, dom)
        it.fold_locals = False
        dom.cur_func = f.qualname
        try:
            v = it.call_function(f, [UVal(D(G=1)), UVal(D(G=1))])
        except AnalysisError as e:
            check.undecided(rule, f.qualname, "units: %s" % e, f.loc())
            continue
        errs = list(dom.errors)
        if errs:
            lits = sorted({t for _, _, t in errs})
            check.violation(rule, f.qualname, "absolute constant compared with / added to a slope-dimensioned quantity (%s): the limiter is not scale invariant, so the solver does not commute exactly with a change of units" % "; ".join(lits[:3]), f.loc(), key="limiter-const")
        elif isinstance(v, UVal) and v.dim not in (None, D(G=1)):
            check.violation(rule, f.qualname, "limited slope has dimension %s, expected that of its arguments" % show_dim(v.dim), f.loc(), key="limiter-dim")
        else:
            check.ok(rule, f.qualname, "principal type stays polymorphic: slope x slope -> slope, no dimensional literal", f.loc())
