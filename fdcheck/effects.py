"""EFF — syntactic effect analyses: must-write-before-read of self attributes along a
method with inlined self-calls, mutation of parameters, non-deterministic sources."""
import ast

from .project import AnalysisError, unparse


class MustDef:
    """walk the statements of `entry` (inlining self.m() calls resolved on `cls`) keeping the
    set of attributes of self definitely written so far; report reads of attributes that are
    neither configuration (assigned in the __init__ chain) nor definitely written."""

    def __init__(self, proj, cls, config):
        self.p = proj
        self.cls = cls
        self.config = set(config)
        self.reports = []     # (attr, qualname, lineno)
        self.depth = 0

    def run(self, entry):
        written = set()
        self.func_body(entry, written)
        return self.reports

    def func_body(self, f, written):
        self.depth += 1
        if self.depth > 8:
            raise AnalysisError("effect analysis: inlining too deep at %s" % f.qualname)
        try:
            self.block(f.node.body, written, f)
        finally:
            self.depth -= 1

    def block(self, stmts, written, f):
        for st in stmts:
            self.stmt(st, written, f)

    def selfname(self, f):
        return f.params[0] if f.params else "self"

    def reads(self, node, written, f):
        """process an expression: record reads, inline self-method calls (in evaluation order)"""
        if node is None:
            return
        sn = self.selfname(f)
        for n in _walk_order(node):
            if isinstance(n, ast.Call):
                fn = n.func
                if isinstance(fn, ast.Attribute) and isinstance(fn.value, ast.Name) and fn.value.id == sn:
                    m = self.p.resolve(self.cls, fn.attr)
                    if m is not None:
                        for a in n.args:
                            self.reads(a, written, f)
                        self.func_body(m, written)
                        n._fd_done = True
                if isinstance(fn, ast.Name) and (fn.id == "hasattr" and len(n.args) == 2 or fn.id == "getattr" and len(n.args) == 3):
                    a0, a1 = n.args[:2]
                    if isinstance(a0, ast.Name) and a0.id == sn and isinstance(a1, ast.Constant):
                        self.read_attr(a1.value, written, f, n.lineno, "hasattr")
            elif isinstance(n, ast.Attribute) and isinstance(n.value, ast.Name) and n.value.id == sn and isinstance(n.ctx, ast.Load):
                self.read_attr(n.attr, written, f, n.lineno, "read")

    def read_attr(self, a, written, f, ln, how):
        if a in written or a in self.config:
            return
        if self.p.resolve(self.cls, a) is not None:
            return
        if self.p.class_attr(self.cls, a)[1] is not None:
            return
        self.reports.append((a, f.qualname, ln, how))

    def stmt(self, st, written, f):
        sn = self.selfname(f)
        if isinstance(st, (ast.Assign, ast.AugAssign, ast.AnnAssign)):
            self.reads(st.value, written, f)
            targets = st.targets if isinstance(st, ast.Assign) else [st.target]
            flat = []
            for t in targets:
                if isinstance(t, (ast.Tuple, ast.List)):
                    flat.extend(t.elts)
                else:
                    flat.append(t)
            for t in flat:
                if isinstance(t, ast.Attribute) and isinstance(t.value, ast.Name) and t.value.id == sn:
                    if isinstance(st, ast.AugAssign):
                        self.read_attr(t.attr, written, f, st.lineno, "read")
                    written.add(t.attr)
                    continue
                for sub in ast.walk(t):
                    if isinstance(sub, ast.Attribute) and isinstance(sub.value, ast.Name) and sub.value.id == sn:
                        # self.X[...] = v : a read of X (element store into an existing object)
                        self.read_attr(sub.attr, written, f, st.lineno, "read")
                    if isinstance(sub, ast.Subscript):
                        self.reads(sub.slice, written, f)
        elif isinstance(st, ast.Expr):
            self.reads(st.value, written, f)
        elif isinstance(st, ast.Return):
            self.reads(st.value, written, f)
        elif isinstance(st, ast.If):
            self.reads(st.test, written, f)
            w1, w2 = set(written), set(written)
            self.block(st.body, w1, f)
            self.block(st.orelse, w2, f)
            t1, t2 = _terminates(st.body), _terminates(st.orelse)
            if t1 and not t2:
                written |= w2
            elif t2 and not t1:
                written |= w1
            else:
                written |= (w1 & w2)
        elif isinstance(st, (ast.For, ast.While)):
            if isinstance(st, ast.For):
                self.reads(st.iter, written, f)
            else:
                self.reads(st.test, written, f)
            w = set(written)
            self.block(st.body, w, f)
        elif isinstance(st, (ast.Pass, ast.Raise, ast.Import, ast.ImportFrom)):
            return
        else:
            raise AnalysisError("effect analysis: unsupported statement %s in %s" % (type(st).__name__, f.qualname))


def _terminates(stmts):
    return bool(stmts) and isinstance(stmts[-1], (ast.Raise, ast.Return))


def _walk_order(node):
    """pre-order walk skipping sub-trees already inlined"""
    todo = [node]
    while todo:
        n = todo.pop()
        yield n
        todo.extend(reversed(list(ast.iter_child_nodes(n))))


def init_attrs(proj, cls):
    """attributes assigned (as self.X = ...) anywhere in the __init__ chain of cls"""
    out = set()
    seen = set()

    def rec(ci, depth=0):
        init = proj.resolve(ci, "__init__")
        if init is None or init.qualname in seen or depth > 8:
            return
        seen.add(init.qualname)
        sn = init.params[0]
        for n in ast.walk(init.node):
            if isinstance(n, ast.Attribute) and isinstance(n.value, ast.Name) and n.value.id == sn and isinstance(n.ctx, ast.Store):
                out.add(n.attr)
            if isinstance(n, ast.Call) and isinstance(n.func, ast.Attribute):
                if n.func.attr == "__init__":
                    b = proj.resolve_class_expr(n.func.value, init.module)
                    if b is not None:
                        rec(b, depth + 1)
                elif isinstance(n.func.value, ast.Name) and n.func.value.id == sn:
                    m = proj.resolve(cls, n.func.attr)
                    if m is not None and m.qualname not in seen:
                        seen.add(m.qualname)
                        for k in ast.walk(m.node):
                            if isinstance(k, ast.Attribute) and isinstance(k.value, ast.Name) and k.value.id == m.params[0] and isinstance(k.ctx, ast.Store):
                                out.add(k.attr)
    rec(cls)
    return out


MUTATORS = ("append", "extend", "update", "pop", "popitem", "clear", "insert", "remove", "setdefault", "sort", "reverse")


def param_mutations(func, pname):
    """direct mutations of parameter `pname` before it is rebound: [(lineno, text)]"""
    out = []
    rebound_at = None
    for n in ast.walk(func.node):
        if isinstance(n, ast.Assign):
            for t in n.targets:
                if isinstance(t, ast.Name) and t.id == pname:
                    if rebound_at is None or n.lineno < rebound_at:
                        rebound_at = n.lineno
    for n in ast.walk(func.node):
        ln = getattr(n, "lineno", 0)
        if rebound_at is not None and ln >= rebound_at:
            continue
        if isinstance(n, (ast.Assign, ast.AugAssign)):
            ts = n.targets if isinstance(n, ast.Assign) else [n.target]
            for t in ts:
                if isinstance(t, ast.Subscript) and isinstance(t.value, ast.Name) and t.value.id == pname:
                    out.append((ln, unparse(n)))
        if isinstance(n, ast.Call) and isinstance(n.func, ast.Attribute) and n.func.attr in MUTATORS:
            if isinstance(n.func.value, ast.Name) and n.func.value.id == pname:
                out.append((ln, unparse(n)))
        if isinstance(n, ast.Delete):
            for t in n.targets:
                if isinstance(t, ast.Subscript) and isinstance(t.value, ast.Name) and t.value.id == pname:
                    out.append((ln, unparse(n)))
    return out
