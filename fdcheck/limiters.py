"""Limiter analysis (C12): exhaustive enumeration of the sign/order regions of (a, b) by
positive parametrisation + sign certificates, and a must-overflow interval analysis in
log-magnitude."""
import math
from fractions import Fraction

from .algebra import Algebra, RF
from .interp import Interp, GvnDomain
from .project import AnalysisError, unparse as unparse_

THRESH = Fraction("1e-40")     # largest product threshold used to state the 'above scale' regime


def regions(A):
    """[(name, a, b, kind, s, lo, hi)] : kind 'zero' (result must vanish) or 'same' (common
    sign s, lo = min(|a|,|b|), hi = max(|a|,|b|)); x, y, z > 0"""
    x, y, z = A.sym("x", positive=True), A.sym("y", positive=True), A.sym("z", positive=True)
    zero = A.const(0)
    out = []
    same = [
        ("|a| = |b|", x, x, x, x),
        ("|a| < |b| < 2|a|", y + z, 2 * y + z, y + z, 2 * y + z),
        ("|b| = 2|a|", x, 2 * x, x, 2 * x),
        ("|b| > 2|a|", x, 2 * x + y, x, 2 * x + y),
        ("|b| < |a| < 2|b|", 2 * y + z, y + z, y + z, 2 * y + z),
        ("|a| = 2|b|", 2 * x, x, x, 2 * x),
        ("|a| > 2|b|", 2 * x + y, x, x, 2 * x + y),
    ]
    for nm, a, b, lo, hi in same:
        out.append(("a, b > 0, " + nm, a, b, "same", 1, lo, hi))
        out.append(("a, b < 0, " + nm, -a, -b, "same", -1, lo, hi))
    out.append(("a > 0 > b", x, -y, "zero", 0, None, None))
    out.append(("a < 0 < b", -x, y, "zero", 0, None, None))
    out.append(("a = 0, b > 0", zero, y, "zero", 0, None, None))
    out.append(("a = 0, b < 0", zero, -y, "zero", 0, None, None))
    out.append(("a > 0, b = 0", x, zero, "zero", 0, None, None))
    out.append(("a < 0, b = 0", -x, zero, "zero", 0, None, None))
    out.append(("a = b = 0", zero, zero, "zero", 0, None, None))
    return out


class LimCtx:
    def __init__(self, proj, name):
        self.proj = proj
        self.f = proj.func("xnum." + name)
        self.name = name

    def fresh(self):
        A = Algebra()
        A.fold_enabled = False
        it = Interp(self.proj, GvnDomain(A))
        return A, it

    # Reductions used as branch conditions (`if np.all(a > 0): ...`) are interpreted for ONE entry
    # of an arbitrary array: np.all(P) is False if P fails at this entry and otherwise free (the
    # other entries decide); np.any(P) is True if P holds at this entry and otherwise free.  Free
    # outcomes are enumerated by `policy` (the i-th free outcome of an evaluation is policy[i],
    # True beyond its end); every enumerated path is realisable by an array whose other entries
    # make the reductions come out that way, so every clause must hold on every path.
    policy = ()
    free_used = 0
    max_free = 0
    path = ""

    def _reduction(self, it, kind):
        def h(args, kwargs):
            if len(args) != 1 or kwargs:
                raise AnalysisError("np.%s with axis / several arguments in a limiter" % kind)
            t = it.truth(args[0])
            if t is None:
                raise AnalysisError("np.%s of a condition that is not decided in this region" % kind)
            if (kind == "all" and t is False) or (kind == "any" and t is True):
                return t
            i = self.free_used
            self.free_used += 1
            self.max_free = max(self.max_free, self.free_used)
            ch = self.policy[i] if i < len(self.policy) else True
            self.path += " np.%s(...)=%s" % (kind, ch)
            return ch
        return h

    def phi(self, A, it, a, b):
        self.free_used = 0
        self.path = ""
        it.np_hooks = dict(it.np_hooks or {})
        it.np_hooks["all"] = self._reduction(it, "all")
        it.np_hooks["any"] = self._reduction(it, "any")

        def isclose(args, kwargs):
            # numpy's definition, tolerances included: |x - y| <= atol + rtol*|y| (defaults 1e-8, 1e-5)
            x, y = it.lift(args[0]), it.lift(args[1])
            rtol = kwargs.get("rtol", args[2] if len(args) > 2 else Fraction("1e-5"))
            atol = kwargs.get("atol", args[3] if len(args) > 3 else Fraction("1e-8"))
            return A.cmp("<=", A.abs(x - y), A.lift(atol) + A.lift(rtol) * A.abs(y))
        it.np_hooks["isclose"] = isclose

        def rounding_call(args, kwargs):
            e = AnalysisError("rounding to a fixed number of decimals in a limiter")
            e.violation = ("LIM-HOMOG", self.f.qualname, "the limiter rounds its result to a fixed number of DECIMALS (np.round / np.around / round): an absolute grid (1e-12 ...), not a relative one -- for same-sign slopes of small magnitude phi(t*a, t*b) != t*phi(a, b) and phi(a, a) deviates from a by up to half a grid step, far more than the statement's 1e-20/a^2",
                           "abs-rounding", {"C12", "C11", "C04"})
            raise e
        for nm in ("round", "around", "round_", "builtin:round"):
            it.np_hooks[nm] = rounding_call

        def invert_bool(node, func):
            # `~(a < 0.)`: logical NOT for numpy arrays and numpy scalars -- but for two built-in floats the comparison is a Python
            # bool and `~True == -2`, `~False == -1` are both TRUTHY: the selection always takes its first branch
            e = AnalysisError("bitwise ~ of a comparison in a limiter")
            e.violation = ("LIM-SCALAR", self.f.qualname, "`%s` (line %d) negates a comparison with the BITWISE operator ~: for arrays that is the logical NOT, but the statement covers scalars -- for built-in Python floats the comparison is a bool, ~True = -2 and ~False = -1 are both truthy, so np.where always selects its first branch (use np.logical_not or `not`/the opposite comparison)" % (unparse_(node)[:60], node.lineno),
                           "invert-bool", {"C12", "C11", "C04"})
            return e
        it.invert_scalar_violation = invert_bool
        lc = self

        class _Rank:
            """np.ndim / np.shape / np.size of a limiter argument: the statement covers scalars AND arrays, so a
            test on it is free -- both outcomes are realisable (a scalar call, an entry of an array)"""
            def _fd_compare(self_, sym, other):
                i = lc.free_used
                lc.free_used += 1
                lc.max_free = max(lc.max_free, lc.free_used)
                ch = lc.policy[i] if i < len(lc.policy) else True
                lc.path += " [scalar / array test %s %r]=%s" % (sym, other, ch)
                return ch
        for nm in ("ndim", "shape", "size", "isscalar"):
            it.np_hooks[nm] = (lambda args, kwargs: _Rank()) if nm != "isscalar" else (lambda args, kwargs: _Rank()._fd_compare("isscalar", None))
        v = it.call_function(self.f, [a, b])
        if isinstance(v, (int, Fraction)):
            v = A.const(v)
        if not isinstance(v, RF):
            raise AnalysisError("%s does not return one value per element" % self.f.qualname)
        return v


def nonneg(A, rf):
    s = A.sign(rf)
    return s in ("+", ">=0", "0"), s


# ----------------------------------------------------------------------------- overflow
NEG_INF = float("-inf")
DBL_MAX_LOG = math.log10(1.7976931348623157e308)


class Mag:
    __slots__ = ("lo", "hi", "sg", "inf")

    def __init__(self, lo, hi, sg, inf=False):
        self.lo, self.hi, self.sg, self.inf = lo, hi, sg, inf

    def __repr__(self):
        return "INF" if self.inf else "%s1e[%.0f,%.0f]" % (self.sg, self.lo, self.hi)


class UnknownCond:
    _fd_cond = True


UNK = UnknownCond()


class MagDomain:
    """interval domain over log10|v| with sign; `inf` = the value MUST overflow on the box"""
    def __init__(self):
        self.events = []
        self.cur_line = 0
        self.cur_func = ""

    def is_value(self, v):
        return isinstance(v, Mag)

    def const(self, c):
        c = Fraction(c)
        if c == 0:
            return Mag(NEG_INF, NEG_INF, "0")
        l = math.log10(abs(float(c))) if abs(float(c)) > 0 else float(Fraction(c).numerator.bit_length() - Fraction(c).denominator.bit_length()) * 0.30103
        return Mag(l, l, "+" if c > 0 else "-")

    def _chk(self, m, what):
        if not m.inf and m.lo > DBL_MAX_LOG:
            m.inf = True
            self.events.append((self.cur_line, what, m.lo))
        return m

    def _sgmul(self, a, b):
        if a == "0" or b == "0":
            return "0"
        if a == "?" or b == "?":
            return "?"
        return "+" if a == b else "-"

    def mul(self, a, b):
        if a.sg == "0" or b.sg == "0":
            if a.inf or b.inf:
                return Mag(0, 0, "?", False)
            return Mag(NEG_INF, NEG_INF, "0")
        if a.inf or b.inf:
            return Mag(400, 400, self._sgmul(a.sg, b.sg), True)
        return self._chk(Mag(a.lo + b.lo, a.hi + b.hi, self._sgmul(a.sg, b.sg)), "product")

    def div(self, a, b):
        if a.inf and b.inf:
            return Mag(0, 0, "?", False)
        if a.inf:
            return Mag(400, 400, self._sgmul(a.sg, b.sg), True)
        if b.inf:
            return Mag(NEG_INF, NEG_INF, "0")
        if a.sg == "0":
            return Mag(NEG_INF, NEG_INF, "0")
        return self._chk(Mag(a.lo - b.hi, a.hi - b.lo, self._sgmul(a.sg, b.sg)), "quotient")

    def neg(self, a):
        return Mag(a.lo, a.hi, {"+": "-", "-": "+"}.get(a.sg, a.sg), a.inf)

    def add(self, a, b):
        if a.inf or b.inf:
            if a.inf and b.inf and a.sg != b.sg:
                return Mag(0, 0, "?", False)
            x = a if a.inf else b
            return Mag(400, 400, x.sg, True)
        if a.sg == "0":
            return b
        if b.sg == "0":
            return a
        if a.sg == b.sg and a.sg in "+-":
            return self._chk(Mag(max(a.lo, b.lo), max(a.hi, b.hi) + 0.30103, a.sg), "sum")
        # opposite / unknown signs: cancellation possible; dominated cases keep a lower bound
        if a.lo > b.hi + 0.31:
            return Mag(a.lo - 0.31, a.hi + 0.31, a.sg)
        if b.lo > a.hi + 0.31:
            return Mag(b.lo - 0.31, b.hi + 0.31, b.sg)
        return Mag(NEG_INF, max(a.hi, b.hi) + 0.30103, "?")

    def sub(self, a, b):
        return self.add(a, self.neg(b))

    def pow(self, a, e):
        if isinstance(e, Mag):
            raise AnalysisError("interval power with non-literal exponent")
        e = Fraction(e)
        if a.inf:
            return a
        if a.sg == "0":
            return a
        lo, hi = sorted((a.lo * float(e), a.hi * float(e)))
        sg = "+" if (e.denominator == 1 and int(e) % 2 == 0) else a.sg
        return self._chk(Mag(lo, hi, sg), "power")

    def func1(self, fn, a):
        if fn == "abs":
            return Mag(a.lo, a.hi, "+" if a.sg != "0" else "0", a.inf)
        if fn == "sign":
            return Mag(0, 0, a.sg if a.sg in "+-" else "?")
        if fn == "sqrt":
            return Mag(a.lo / 2, a.hi / 2, "+", a.inf)
        raise AnalysisError("interval analysis: unsupported function %s" % fn)

    def func2(self, fn, a, b):
        if a.inf or b.inf:
            return Mag(min(a.lo, b.lo), max(a.hi, b.hi), "?", a.inf and b.inf)
        return Mag(min(a.lo, b.lo), max(a.hi, b.hi), a.sg if a.sg == b.sg else "?")

    def cmp(self, op, a, b):
        # a op b decided on the box?
        d = self.sub(a, b)
        if d.sg == "+":
            return op in (">", ">=")
        if d.sg == "-":
            return op in ("<", "<=")
        if d.sg == "0":
            return op in ("<=", ">=")
        return UNK

    def where(self, c, a, b):
        if a.inf and b.inf:
            return a
        return Mag(min(a.lo, b.lo), max(a.hi, b.hi), a.sg if a.sg == b.sg else "?", False)

    def truth(self, c):
        return None

    def unknown_cond(self):
        return UNK

    def cand(self, a, b):
        return UNK

    cor = cand

    def cnot(self, a):
        return UNK

    def fold(self, v, hint):
        return v

    def opaque(self, name, args, positive=False):
        raise AnalysisError("interval analysis: uninterpreted function")


def must_overflow(proj, name, step=10, lo=-150, hi=150):
    """boxes (sign, [ea, ea+step], [eb, eb+step]) on which the result of limiter `name` MUST
    overflow"""
    f = proj.func("xnum." + name)
    bad = []
    nbox = 0
    for sg in ("+", "-"):
        ea = lo
        while ea < hi:
            eb = lo
            while eb < hi:
                dom = MagDomain()
                it = Interp(proj, dom)
                it.fold_locals = False
                a = Mag(ea, ea + step, sg)
                b = Mag(eb, eb + step, sg)
                nbox += 1
                try:
                    v = it.call_function(f, [a, b])
                except AnalysisError as e:
                    raise AnalysisError("interval analysis of %s: %s" % (f.qualname, e))
                if isinstance(v, Mag) and v.inf:
                    bad.append((sg, ea, eb, dom.events[:1]))
                eb += step
            ea += step
    return bad, nbox
