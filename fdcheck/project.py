"""Frontend: resolved project model of /repo/flowdyn built from source text only.

Nothing is imported from the analysed package.  The model resolves modules, import
aliases, classes across modules, MRO, methods, decorator registries (methoddict), the
instance registries built by the chains of __init__, constructor summaries (which
attribute is which constructor parameter / constant) and constant tables.
"""
import ast
import os
from fractions import Fraction


class AnalysisError(Exception):
    """The analysis cannot decide (vanished anchor, unsupported construct, budget...).
    Mapped to exit code 2, never to a violation."""


REPO = os.environ.get("FDCHECK_REPO", "/repo")


class _ExprEnv:
    """ast expression + {name: ('param', p) | ('const', v) | ...} of the constructor frame it belongs to"""
    def __init__(self, expr, env):
        self.expr, self.env = expr, env

    # old callers treat the value as the bare ast
    def __getattr__(self, a):
        return getattr(self.expr, a)


class FuncInfo:
    def __init__(self, node, module, cls=None):
        self.node = node
        self.name = node.name
        self.module = module
        self.cls = cls

    @property
    def qualname(self):
        if self.cls is not None:
            return "%s.%s.%s" % (self.module.short, self.cls.name, self.name)
        return "%s.%s" % (self.module.short, self.name)

    @property
    def params(self):
        return [a.arg for a in self.node.args.args]

    def defaults(self):
        """param name -> default expr"""
        a = self.node.args
        names = [x.arg for x in a.args]
        out = {}
        for n, d in zip(names[len(names) - len(a.defaults):], a.defaults):
            out[n] = d
        return out

    def loc(self):
        return "%s:%d" % (self.module.relpath, self.node.lineno)

    @property
    def is_static(self):
        """@staticmethod: called through an instance or the class, no receiver parameter"""
        return self.cls is not None and any(isinstance(d, ast.Name) and d.id == "staticmethod" for d in self.node.decorator_list)

    @property
    def opaque_decorators(self):
        """decorators that change what calling the function means and that no engine models (functools.lru_cache,
        functools.cache, numba.jit, contextmanager ...): everything except staticmethod / classmethod / property and the
        registry decorators `<registry>.register(...)`"""
        out = []
        for d in self.node.decorator_list:
            e = d.func if isinstance(d, ast.Call) else d
            nm = e.id if isinstance(e, ast.Name) else (e.attr if isinstance(e, ast.Attribute) else "?")
            if nm in ("staticmethod", "classmethod", "property", "cached_property", "register", "abstractmethod", "wraps", "overload", "final", "override"):
                continue
            if nm in ("lru_cache", "cache") and self._pure_scalar_function():
                continue            # memoisation of a pure function of hashable arguments with an immutable result: transparent
            out.append(nm)
        return out

    def _pure_scalar_function(self):
        """a module-level function or static method whose body is `return <arithmetic of its parameters and literals>` (tuples
        allowed), possibly after a docstring: no state is read, and the value -- numbers / tuples of numbers, since the arguments
        of a memoised call are hashable -- cannot be changed by the caller who receives the cached object"""
        if self.cls is not None and not self.is_static:
            return False
        body = [st for st in self.node.body if not (isinstance(st, ast.Expr) and isinstance(st.value, ast.Constant))]
        if len(body) != 1 or not isinstance(body[0], ast.Return) or body[0].value is None:
            return False
        params = set(self.params)
        for n in ast.walk(body[0].value):
            if isinstance(n, ast.Name):
                if n.id not in params and n.id not in ("int", "float", "abs", "min", "max", "round", "len", "tuple", "bool", "math", "np", "numpy"):
                    return False
            elif isinstance(n, ast.Attribute):
                # math.f / np.f: functions of the (hashable, hence scalar) arguments -- the value is a float / numpy scalar
                if not (isinstance(n.value, ast.Name) and n.value.id in ("math", "np", "numpy") and n.attr not in ("zeros", "ones", "empty", "array", "asarray", "arange", "linspace", "full", "eye", "random")):
                    return False
            elif isinstance(n, ast.Call):
                if not ((isinstance(n.func, ast.Name) and n.func.id in ("int", "float", "abs", "min", "max", "round", "len", "tuple", "bool")) or isinstance(n.func, ast.Attribute)):
                    return False
            elif not isinstance(n, (ast.BinOp, ast.UnaryOp, ast.Tuple, ast.Constant, ast.Compare, ast.IfExp, ast.BoolOp, ast.operator, ast.unaryop, ast.cmpop, ast.boolop, ast.expr_context)):
                return False
        return True

    @property
    def is_property(self):
        """@property (or functools.cached_property): read as an attribute, evaluated by a call without arguments"""
        for d in self.node.decorator_list:
            nm = d.id if isinstance(d, ast.Name) else (d.attr if isinstance(d, ast.Attribute) else None)
            if nm in ("property", "cached_property"):
                return True
        return False

    @property
    def has_self(self):
        return self.cls is not None and not self.is_static and bool(self.node.args.args)

    def __repr__(self):
        return "<func %s>" % self.qualname


class ClassInfo:
    def __init__(self, node, module):
        self.node = node
        self.name = node.name
        self.module = module
        self.bases = []          # resolved ClassInfo
        self.methods = {}        # own methods
        self.attrs = {}          # own class-level assignments name -> expr
        self.registries = {}     # regattr -> {'pref': str, 'entries': {key: FuncInfo}}

    @property
    def qualname(self):
        return "%s.%s" % (self.module.short, self.name)

    def loc(self):
        return "%s:%d" % (self.module.relpath, self.node.lineno)

    def __repr__(self):
        return "<class %s>" % self.qualname


class ModuleInfo:
    def __init__(self, name, path, relpath, source):
        self.name = name                       # flowdyn.modelphy.euler
        self.short = name.split(".", 1)[1] if "." in name else name   # modelphy.euler
        self.tail = name.rsplit(".", 1)[-1]    # euler
        self.path = path
        self.relpath = relpath
        self.source = source
        self.tree, self.desugared = ast.parse(source, filename=path), 0      # normalised by Project._load (desugar.py) once all modules are parsed
        self.imports = {}      # alias -> module name
        self.from_imports = {}  # local name -> (module name, remote name)
        self.star_imports = []
        self.classes = {}
        self.functions = {}
        self.assigns = {}


class Project:
    def __init__(self, root=None):
        self.root = root or REPO
        self.pkgdir = os.path.join(self.root, "flowdyn")
        if not os.path.isdir(self.pkgdir):
            raise AnalysisError("package directory %s not found" % self.pkgdir)
        self.modules = {}
        self._load()
        self._link()

    # ------------------------------------------------------------------ loading
    def _load(self):
        for dirpath, dirnames, filenames in os.walk(self.pkgdir):
            dirnames[:] = sorted(d for d in dirnames if d != "__pycache__")
            for fn in sorted(filenames):
                if not fn.endswith(".py"):
                    continue
                path = os.path.join(dirpath, fn)
                rel = os.path.relpath(path, self.root)
                parts = rel[:-3].split(os.sep)
                if parts[-1] == "__init__":
                    parts = parts[:-1]
                name = ".".join(parts)
                try:
                    with open(path, encoding="utf-8") as fh:
                        src = fh.read()
                    mod = ModuleInfo(name, path, rel, src)
                except SyntaxError as e:
                    raise AnalysisError("cannot parse %s: %s" % (rel, e))
                self.modules[name] = mod
        from .desugar import desugar, collect_info
        self.inert_info = collect_info([m.tree for m in self.modules.values()])
        for m in self.modules.values():
            m.tree, m.desugared = desugar(m.tree, self.inert_info)       # reflective / inert / numpy spellings normalised
        from .desugar import normalise_keywords, canonical_roles, normalise_super, normalise_forwarding
        self.super_calls_normalised = normalise_super([m.tree for m in self.modules.values()])
        self.forwarders_normalised = normalise_forwarding([m.tree for m in self.modules.values()])
        self.keyword_calls_normalised = normalise_keywords([m.tree for m in self.modules.values()])
        self.role_renames = canonical_roles([m.tree for m in self.modules.values()])
        for mod in self.modules.values():
            for node in mod.tree.body:
                if isinstance(node, ast.Import):
                    for a in node.names:
                        mod.imports[a.asname or a.name.split(".")[0]] = a.name
                elif isinstance(node, ast.ImportFrom):
                    for a in node.names:
                        if a.name == "*":
                            mod.star_imports.append(node.module)
                        else:
                            mod.from_imports[a.asname or a.name] = (node.module, a.name)
                elif isinstance(node, ast.ClassDef):
                    ci = ClassInfo(node, mod)
                    mod.classes[node.name] = ci
                    for sub in node.body:
                        if isinstance(sub, ast.FunctionDef):
                            ci.methods[sub.name] = FuncInfo(sub, mod, ci)
                        elif isinstance(sub, ast.Assign):
                            for t in sub.targets:
                                if isinstance(t, ast.Name):
                                    ci.attrs[t.id] = sub.value
                                elif isinstance(t, (ast.Tuple, ast.List)) and isinstance(sub.value, (ast.Tuple, ast.List)) and len(t.elts) == len(sub.value.elts):
                                    # a, b = [], []
                                    for te, ve in zip(t.elts, sub.value.elts):
                                        if isinstance(te, ast.Name):
                                            ci.attrs[te.id] = ve
                elif isinstance(node, ast.FunctionDef):
                    mod.functions[node.name] = FuncInfo(node, mod)
                elif isinstance(node, ast.Assign):
                    for t in node.targets:
                        if isinstance(t, ast.Name):
                            mod.assigns[t.id] = node.value

    def _link(self):
        for mod in self.modules.values():
            for ci in mod.classes.values():
                for b in ci.node.bases:
                    r = self.resolve_class_expr(b, mod)
                    if r is not None:
                        ci.bases.append(r)
        for mod in self.modules.values():
            for ci in mod.classes.values():
                self._collect_registries(ci)

    # ------------------------------------------------------------------ name resolution
    def resolve_class_expr(self, expr, mod):
        """Resolve an expression naming a class in the context of module `mod`."""
        if isinstance(expr, ast.Name):
            if expr.id in mod.classes:
                return mod.classes[expr.id]
            if expr.id in mod.from_imports:
                m, n = mod.from_imports[expr.id]
                tm = self.modules.get(m)
                if tm and n in tm.classes:
                    return tm.classes[n]
            for sm in mod.star_imports:
                tm = self.modules.get(sm)
                if tm and expr.id in tm.classes:
                    return tm.classes[expr.id]
            return None
        if isinstance(expr, ast.Attribute) and isinstance(expr.value, ast.Name):
            alias = expr.value.id
            tm = None
            if alias in mod.imports:
                tm = self.modules.get(mod.imports[alias])
            elif alias in mod.from_imports:
                m, n = mod.from_imports[alias]
                tm = self.modules.get(m + "." + n)
            if tm and expr.attr in tm.classes:
                return tm.classes[expr.attr]
        return None

    def resolve_function_name(self, name, mod):
        """module-level function visible under `name` in `mod` (own, from-import, star)."""
        if name in mod.functions:
            return mod.functions[name]
        if name in mod.from_imports:
            m, n = mod.from_imports[name]
            tm = self.modules.get(m)
            if tm and n in tm.functions:
                return tm.functions[n]
        for sm in mod.star_imports:
            tm = self.modules.get(sm)
            if tm and name in tm.functions:
                return tm.functions[name]
        return None

    def resolve_module_alias(self, alias, mod):
        if alias in mod.imports:
            return self.modules.get(mod.imports[alias])
        if alias in mod.from_imports:
            m, n = mod.from_imports[alias]
            return self.modules.get(m + "." + n)
        return None

    def module(self, tail):
        """find module by short name or tail ('integration', 'modelphy.euler', 'euler')."""
        hits = [m for m in self.modules.values() if m.short == tail or m.tail == tail or m.name == tail]
        if len(hits) != 1:
            raise AnalysisError("module %r not found (anchor vanished?)" % tail)
        return hits[0]

    def cls(self, qual):
        """'integration.gear' / 'euler.euler1d' -> ClassInfo"""
        modn, cn = qual.rsplit(".", 1)
        mod = self.module(modn)
        if cn not in mod.classes:
            raise AnalysisError("class %s not found (anchor vanished?)" % qual)
        return mod.classes[cn]

    def has_cls(self, qual):
        try:
            self.cls(qual)
            return True
        except AnalysisError:
            return False

    def func(self, qual):
        """'xnum.minmod' or 'integration.timemodel._solve' -> FuncInfo (method resolved
        through the MRO when qual names a class)."""
        parts = qual.split(".")
        # try module function
        try:
            mod = self.module(".".join(parts[:-1]))
            if parts[-1] in mod.functions:
                return mod.functions[parts[-1]]
        except AnalysisError:
            pass
        if len(parts) >= 3 or len(parts) == 3:
            pass
        if len(parts) >= 3:
            ci = self.cls(".".join(parts[:-1]))
            r = self.resolve(ci, parts[-1])
            if r is None:
                raise AnalysisError("method %s not found (anchor vanished?)" % qual)
            return r
        raise AnalysisError("function %s not found (anchor vanished?)" % qual)

    def all_classes(self):
        for mod in self.modules.values():
            for ci in mod.classes.values():
                yield ci

    def all_functions(self):
        for mod in self.modules.values():
            for f in mod.functions.values():
                yield f
            for ci in mod.classes.values():
                for f in ci.methods.values():
                    yield f

    # ------------------------------------------------------------------ MRO
    def mro(self, ci):
        out = [ci]
        seen = {id(ci)}
        # single inheritance everywhere in this repository; depth-first is the C3 result
        stack = list(ci.bases)
        while stack:
            b = stack.pop(0)
            if id(b) in seen:
                continue
            seen.add(id(b))
            out.append(b)
            stack = list(b.bases) + stack
        return out

    def resolve(self, ci, name):
        for c in self.mro(ci):
            if name in c.methods:
                return c.methods[name]
        return None

    def class_attr(self, ci, name):
        for c in self.mro(ci):
            if name in c.attrs:
                return c, c.attrs[name]
        return None, None

    def subclasses(self, ci, strict=False):
        out = []
        for c in self.all_classes():
            if ci in self.mro(c) and (c is not ci or not strict):
                out.append(c)
        return out

    # ------------------------------------------------------------------ registries
    def _collect_registries(self, ci):
        for name, expr in ci.attrs.items():
            if isinstance(expr, ast.Call) and self._callee_tail(expr.func) == "methoddict":
                pref = ""
                if expr.args and isinstance(expr.args[0], ast.Constant) and isinstance(expr.args[0].value, str):
                    pref = expr.args[0].value
                for kw in expr.keywords:
                    if kw.arg == "pref" and isinstance(kw.value, ast.Constant):
                        pref = kw.value.value
                ci.registries[name] = {"pref": pref, "entries": {}}
        for fi in ci.methods.values():
            # decorators are applied bottom-up; dict order = application order
            for dec in reversed(fi.node.decorator_list):
                if not (isinstance(dec, ast.Call) and isinstance(dec.func, ast.Attribute)
                        and dec.func.attr == "register" and isinstance(dec.func.value, ast.Name)):
                    continue
                reg = dec.func.value.id
                if reg not in ci.registries:
                    continue
                pref = ci.registries[reg]["pref"]
                rname = None
                args = list(dec.args)
                if len(args) >= 1 and isinstance(args[0], ast.Constant) and args[0].value is not None:
                    pref = args[0].value
                if len(args) >= 2 and isinstance(args[1], ast.Constant):
                    rname = args[1].value
                for kw in dec.keywords:
                    if kw.arg == "name" and isinstance(kw.value, ast.Constant):
                        rname = kw.value.value
                    if kw.arg == "pref" and isinstance(kw.value, ast.Constant) and kw.value.value is not None:
                        pref = kw.value.value
                if rname is None:
                    if not fi.name.startswith(pref):
                        raise AnalysisError("%s: registry prefix %r not in name (import would raise)" % (fi.qualname, pref))
                    rname = fi.name[len(pref):]
                ci.registries[reg]["entries"][rname] = fi

    @staticmethod
    def _callee_tail(f):
        if isinstance(f, ast.Name):
            return f.id
        if isinstance(f, ast.Attribute):
            return f.attr
        return None

    def instance_registry(self, ci, reg):
        """Registry `reg` (e.g. '_bcdict') of an *instance* of ci, obtained by interpreting the
        registry effects of the chain of __init__ in statement order: a copy of a class-level
        registry stored on the instance (assignment or setattr), merge calls (directly, through
        getattr by name, in loops over literal name tuples, in helper methods that receive the
        class), base-class constructor calls (Base.__init__(self, ..) / super().__init__(..))."""
        cache = self.__dict__.setdefault("_instreg_cache", {})
        if ci.qualname not in cache:
            state = {}
            init = self.resolve(ci, "__init__")
            if init is not None:
                self._reg_func(ci, init, {init.params[0]: ("self",)}, state, 0)
            cache[ci.qualname] = state
        return dict(cache[ci.qualname].get(reg, {}))

    def _reg_names(self):
        names = self.__dict__.get("_all_reg_names")
        if names is None:
            names = set()
            for m in self.modules.values():
                for c in m.classes.values():
                    names |= set(c.registries)
            self.__dict__["_all_reg_names"] = names
        return names

    def _reg_relevant(self, node, _seen=None):
        """may this statement / function touch a registry of the instance (directly or through a
        method it calls)?"""
        regs = self._reg_names()
        seen = _seen if _seen is not None else set()
        for n in ast.walk(node):
            if isinstance(n, ast.Call) and isinstance(n.func, ast.Attribute):
                for m in self.modules.values():
                    for c in m.classes.values():
                        g = c.methods.get(n.func.attr)
                        if g is not None and id(g) not in seen:
                            seen.add(id(g))
                            if self._reg_relevant(g.node, seen):
                                return True
            if isinstance(n, ast.Attribute) and (n.attr in regs or n.attr in ("__init__", "merge", "__dict__")):
                return True
            if isinstance(n, ast.Name) and n.id in ("setattr", "getattr", "vars", "super"):
                return True
            if isinstance(n, ast.Constant) and n.value in regs:
                return True
        return False

    def _reg_value(self, expr, env, func):
        """('self',) | ('class', ClassInfo) | ('str', s) | ('tuple', [..]) | ('reg', owner value, name) | None"""
        mod = func.module
        if isinstance(expr, ast.Name):
            if expr.id in env:
                return env[expr.id]
            c = self.resolve_class_expr(expr, mod)
            return ("class", c) if c is not None else None
        if isinstance(expr, ast.Constant) and isinstance(expr.value, str):
            return ("str", expr.value)
        if isinstance(expr, (ast.Tuple, ast.List)):
            vals = [self._reg_value(e, env, func) for e in expr.elts]
            return ("tuple", vals) if all(v is not None for v in vals) else None
        if isinstance(expr, ast.Attribute):
            if expr.attr == "__class__":
                o = self._reg_value(expr.value, env, func)
                return ("dynclass",) if o == ("self",) else None
            o = self._reg_value(expr.value, env, func)
            if o is None:
                c = self.resolve_class_expr(expr, mod)
                return ("class", c) if c is not None else None
            return self._reg_attr(o, expr.attr, func)
        if isinstance(expr, ast.Call):
            f = expr.func
            if isinstance(f, ast.Name) and f.id == "getattr" and len(expr.args) >= 2:
                o = self._reg_value(expr.args[0], env, func)
                n = self._reg_value(expr.args[1], env, func)
                if o is not None and n is not None and n[0] == "str":
                    return self._reg_attr(o, n[1], func)
                return None
            if isinstance(f, ast.Name) and f.id == "type" and len(expr.args) == 1 and self._reg_value(expr.args[0], env, func) == ("self",):
                return ("dynclass",)
            if isinstance(f, ast.Attribute) and f.attr == "copy" and not expr.args:
                o = self._reg_value(f.value, env, func)
                if o is not None and o[0] == "reg":
                    self._reg_copy_checked(o, func, expr)
                    return ("regcopy", o)
            return None
        return None

    def _reg_copy_checked(self, o, func, expr):
        """`registry.copy()` must give an object with ITS OWN entries dictionary: the constructors merge the names of their class
        into the copy, and a copy that shares the dictionary of the class-level registry (copy.copy(self), `return self`, a
        constructor that keeps the dictionary it is given) makes every instance write into the one registry all models share"""
        if getattr(self, "_reg_copy_ok", None) is not None:
            if self._reg_copy_ok is not True:
                raise self._reg_copy_ok
            return
        self._reg_copy_ok = True
        rc = None
        if o[1][0] == "class" or o[1] == ("self",):
            owner = o[1][1] if o[1][0] == "class" else func.cls
            c, e = self.class_attr(owner, o[2]) if owner is not None else (None, None)
            if isinstance(e, ast.Call):
                rc = self.resolve_class_expr(e.func, c.module)
        if rc is None:
            return
        cp = self.resolve(rc, "copy")
        init = self.resolve(rc, "__init__")
        if cp is None:
            return
        sn = cp.params[0]
        why = None
        fresh_locals = {t.id for n in ast.walk(cp.node) if isinstance(n, ast.Assign) and isinstance(n.value, ast.Call) and (self.resolve_class_expr(n.value.func, cp.module) is rc or (isinstance(n.value.func, ast.Attribute) and n.value.func.attr == "deepcopy"))
                        for t in n.targets if isinstance(t, ast.Name)}
        shares = [n for n in ast.walk(cp.node) if isinstance(n, ast.Assign) and any(isinstance(t, ast.Attribute) and isinstance(t.value, ast.Name) and t.value.id in fresh_locals for t in n.targets)
                  and isinstance(n.value, ast.Attribute) and isinstance(n.value.value, ast.Name) and n.value.value.id == sn]
        for r in [n for n in ast.walk(cp.node) if isinstance(n, ast.Return)]:
            v = r.value
            if isinstance(v, ast.Name) and v.id in fresh_locals:
                if shares:
                    why = "`%s` (line %d) hands the original's own dictionary to the new object" % (unparse(shares[0])[:40], shares[0].lineno)
                continue
            if isinstance(v, ast.Call) and self.resolve_class_expr(v.func, cp.module) is rc or (isinstance(v, ast.Call) and isinstance(v.func, ast.Call) and isinstance(v.func.func, ast.Name) and v.func.func.id == "type"):
                # a new object from the constructor: which must copy the entries it is given
                if init is not None and len(init.params) >= 2:
                    kept = [n for n in ast.walk(init.node) if isinstance(n, ast.Assign) and any(isinstance(t, ast.Attribute) and isinstance(t.value, ast.Name) and t.value.id == init.params[0] for t in n.targets)
                            and isinstance(n.value, ast.Name) and n.value.id == init.params[1]]
                    if kept:
                        why = "%s keeps the dictionary it is given (`%s`, line %d) and copy() hands it the original's" % (init.qualname, unparse(kept[0])[:40], kept[0].lineno)
                continue
            if isinstance(v, ast.Call) and isinstance(v.func, ast.Attribute) and v.func.attr == "deepcopy":
                continue
            why = "`%s` (line %d) is not a new registry with a dictionary of its own%s" % (unparse(r)[:50], r.lineno, ": a SHALLOW copy is another object holding the SAME `.dict`" if isinstance(v, ast.Call) and isinstance(v.func, ast.Attribute) and v.func.attr == "copy" else "")
        if why:
            e = AnalysisError("%s: %s" % (cp.qualname, why))
            e.violation = ("REG-COPY", cp.qualname, "%s: the constructors of the models merge the names of their class into `registry.copy()` -- with a shared dictionary every instance writes into the one class-level registry, so a name is bound to the function of the model constructed LAST (nozzle 'massflow' without its section, euler2d 'mach' for a 1D model ...) and every model lists the other models' names" % why,
                           "reg-copy-shares", {"C17", "C02", "C16", "C03", "C01", "C10", "C13", "C15", "C18", "C19"})
            self._reg_copy_ok = e
            raise e

    def _reg_attr(self, o, a, func):
        if o[0] in ("self", "class") and a in self._reg_names():
            return ("reg", o, a)
        if o[0] == "class":
            c, expr = self.class_attr(o[1], a)
            if expr is not None:
                try:
                    v = ast.literal_eval(expr)
                except (ValueError, SyntaxError):
                    return None
                if isinstance(v, str):
                    return ("str", v)
                if isinstance(v, (tuple, list)) and all(isinstance(x, str) for x in v):
                    return ("tuple", [("str", x) for x in v])
        if o[0] == "self":
            c, expr = self.class_attr(func.cls, a) if func.cls is not None else (None, None)
            if expr is not None:
                return self._reg_attr(("class", func.cls), a, func)
        return None

    def _reg_entries(self, concrete, r, state, func):
        """entries denoted by a ('reg', owner, name) value"""
        _, o, name = r
        if o[0] == "self":
            if name not in state:
                # never copied onto the instance: the class-level registry seen through the instance
                owner = self._registry_owner(concrete, name)
                return dict(owner.registries[name]["entries"]) if owner is not None else {}
            return state[name]
        if o[0] == "class":
            owner = self._registry_owner(o[1], name)
            return dict(owner.registries[name]["entries"]) if owner is not None else {}
        raise AnalysisError("%s: registry of the dynamic class (type(self)) used in a constructor: intermediate classes would be skipped" % func.qualname)

    def _reg_func(self, concrete, func, env, state, depth):
        if depth > 10:
            raise AnalysisError("__init__ chain too deep for %s" % concrete.qualname)
        self._reg_block(concrete, func, func.node.body, env, state, depth, False)

    def _reg_block(self, concrete, func, stmts, env, state, depth, conditional):
        for st in stmts:
            if not self._reg_relevant(st):
                continue
            if isinstance(st, ast.For):
                it = self._reg_value(st.iter, env, func)
                if it is not None and it[0] == "tuple" and isinstance(st.target, ast.Name):
                    for v in it[1]:
                        env2 = dict(env)
                        env2[st.target.id] = v
                        self._reg_block(concrete, func, st.body, env2, state, depth, conditional)
                    continue
                self._reg_block(concrete, func, st.body, env, state, depth, True)
                continue
            if isinstance(st, (ast.If, ast.While)):
                self._reg_block(concrete, func, st.body, env, state, depth, True)
                self._reg_block(concrete, func, st.orelse, env, state, depth, True)
                continue
            if isinstance(st, (ast.With, ast.Try)):
                for blk in (st.body, getattr(st, "orelse", []), getattr(st, "finalbody", [])):
                    self._reg_block(concrete, func, blk, env, state, depth, conditional)
                continue
            self._reg_stmt(concrete, func, st, env, state, depth, conditional)

    def _reg_effect(self, func, st, conditional):
        if conditional:
            raise AnalysisError("%s:%d registry changed under a condition / in a loop the analysis cannot unroll" % (func.qualname, st.lineno))

    def _reg_stmt(self, concrete, func, st, env, state, depth, conditional):
        mod = func.module
        regs = self._reg_names()
        if isinstance(st, ast.Assign):
            v = self._reg_value(st.value, env, func)
            for t in st.targets:
                if isinstance(t, ast.Name):
                    if v is not None:
                        env[t.id] = v
                    else:
                        env.pop(t.id, None)
                    continue
                if isinstance(t, ast.Attribute) and self._reg_value(t.value, env, func) == ("self",) and t.attr in regs:
                    self._reg_effect(func, st, conditional)
                    self._reg_store(concrete, t.attr, v, state, func, st)
                    continue
                if isinstance(t, ast.Subscript):
                    o = self._reg_value(t.value, env, func)
                    if o is not None and o[0] == "reg" or (isinstance(t.value, ast.Attribute) and t.value.attr == "dict" and (self._reg_value(t.value.value, env, func) or (None,))[0] == "reg"):
                        raise AnalysisError("%s:%d registry entry stored directly" % (func.qualname, st.lineno))
            return
        if isinstance(st, ast.Expr) and isinstance(st.value, ast.Call):
            call = st.value
            f = call.func
            # base-class constructor
            if isinstance(f, ast.Attribute) and f.attr == "__init__":
                base = None
                if isinstance(f.value, ast.Call) and isinstance(f.value.func, ast.Name) and f.value.func.id == "super":
                    if f.value.args:
                        c0 = self.resolve_class_expr(f.value.args[0], mod)
                    else:
                        c0 = func.cls
                    m = self.mro(c0) if c0 is not None else []
                    base = next((c for c in m[1:] if "__init__" in c.methods), None)
                    if base is None:
                        return
                else:
                    base = self.resolve_class_expr(f.value, mod)
                if base is not None:
                    self._reg_effect(func, st, conditional)
                    init = self.resolve(base, "__init__")
                    if init is not None:
                        self._reg_func(concrete, init, {init.params[0]: ("self",)}, state, depth + 1)
                return
            if isinstance(f, ast.Name) and f.id == "setattr" and len(call.args) == 3:
                o = self._reg_value(call.args[0], env, func)
                n = self._reg_value(call.args[1], env, func)
                if o == ("self",):
                    if n is None or n[0] != "str":
                        raise AnalysisError("%s:%d setattr(self, <unknown name>, ...) in a constructor" % (func.qualname, st.lineno))
                    if n[1] in regs:
                        self._reg_effect(func, st, conditional)
                        self._reg_store(concrete, n[1], self._reg_value(call.args[2], env, func), state, func, st)
                return
            if isinstance(f, ast.Attribute) and f.attr == "merge" and len(call.args) == 1:
                tgt = self._reg_value(f.value, env, func)
                if tgt is not None and tgt[0] == "reg":
                    if tgt[1] != ("self",):
                        raise AnalysisError("%s:%d a class-level registry is changed by a constructor" % (func.qualname, st.lineno))
                    src = self._reg_value(call.args[0], env, func)
                    if src is None or src[0] != "reg":
                        raise AnalysisError("%s:%d unsupported registry merge" % (func.qualname, st.lineno))
                    self._reg_effect(func, st, conditional)
                    cur = state.get(tgt[2])
                    if cur is None:
                        raise AnalysisError("%s:%d merge into the class-level registry %s (the instance has no copy yet)" % (func.qualname, st.lineno, tgt[2]))
                    cur.update(self._reg_entries(concrete, src, state, func))
                    return
                if tgt is None and isinstance(f.value, ast.Call):
                    raise AnalysisError("%s:%d unsupported registry merge" % (func.qualname, st.lineno))
                return
            if isinstance(f, ast.Attribute) and f.attr in ("update", "pop", "clear", "popitem", "setdefault", "register"):
                tgt = self._reg_value(f.value, env, func)
                inner = self._reg_value(f.value.value, env, func) if isinstance(f.value, ast.Attribute) and f.value.attr == "dict" else None
                if (tgt is not None and tgt[0] == "reg") or (inner is not None and inner[0] == "reg"):
                    raise AnalysisError("%s:%d registry changed by .%s() in a constructor" % (func.qualname, st.lineno, f.attr))
                return
            # helper method of the instance
            if isinstance(f, ast.Attribute) and self._reg_value(f.value, env, func) == ("self",):
                g = self.resolve(concrete, f.attr)
                if g is not None and self._reg_relevant(g.node):
                    self._reg_effect(func, st, conditional)
                    params = g.params if g.is_static else g.params[1:]
                    env2 = {} if g.is_static else {g.params[0]: ("self",)}
                    for n, a in zip(params, call.args):
                        v = self._reg_value(a, env, func)
                        if v is not None:
                            env2[n] = v
                    for k in call.keywords:
                        v = self._reg_value(k.value, env, func) if k.arg else None
                        if v is not None:
                            env2[k.arg] = v
                    self._reg_func(concrete, g, env2, state, depth + 1)
                return

    def _reg_store(self, concrete, name, v, state, func, st):
        if v is not None and v[0] == "regcopy":
            state[name] = dict(self._reg_entries(concrete, v[1], state, func))
            return
        raise AnalysisError("%s:%d unsupported registry assignment" % (func.qualname, st.lineno))

    def _registry_owner(self, ci, reg):
        for c in self.mro(ci):
            if reg in c.registries:
                return c
        return None

    # ------------------------------------------------------------------ constructor summaries
    def ctor_summary(self, ci):
        """attribute -> ('param', name) | ('const', python value) | ('expr', ast) for an
        instance of ci constructed with symbolic constructor parameters.  Later
        assignments override earlier ones, base-class __init__ calls are followed with
        their argument binding."""
        init = self.resolve(ci, "__init__")
        out = {}
        if init is None:
            return out
        env = {p: ("param", p) for p in init.params[1:]}
        self._ctor_concrete = ci
        try:
            self._ctor_walk(init, env, out, 0)
        finally:
            self._ctor_concrete = None
        return out

    def _ctor_bind(self, expr, env):
        if isinstance(expr, ast.Name) and expr.id in env:
            return env[expr.id]
        # self.X / Cls.X / type(self).X where X is a class-level constant of the class being constructed
        # (looked up on the CONCRETE class: a subclass may override the constant of the base constructor)
        if isinstance(expr, ast.Attribute) and getattr(self, "_ctor_concrete", None) is not None:
            v = expr.value
            is_self = isinstance(v, ast.Name) and v.id == "self" and "self" not in env
            is_type = (isinstance(v, ast.Call) and isinstance(v.func, ast.Name) and v.func.id == "type" and len(v.args) == 1 and isinstance(v.args[0], ast.Name) and v.args[0].id == "self") \
                or (isinstance(v, ast.Attribute) and v.attr == "__class__" and isinstance(v.value, ast.Name) and v.value.id == "self")
            if is_self or is_type:
                c, e2 = self.class_attr(self._ctor_concrete, expr.attr)
                if e2 is not None:
                    try:
                        return ("const", const_eval(e2, {}))
                    except AnalysisError:
                        try:
                            return ("const", ast.literal_eval(e2))
                        except (ValueError, SyntaxError):
                            pass
        # `a or b` / `a and b` / `x if c else y` over values known at this point (Python truthiness):
        # a parameter bound to a constant by a subclass constructor decides the branch; a free
        # parameter gives ('truthy', op, operands): the value then depends on the parameter's truth
        if isinstance(expr, ast.BoolOp):
            vals = [self._ctor_bind(v, env) for v in expr.values]
            is_or = isinstance(expr.op, ast.Or)
            for i, v in enumerate(vals):
                if v[0] != "const":
                    return ("truthy", ("or" if is_or else "and", vals[i:]))
                last = i == len(vals) - 1
                if last or bool(v[1]) == is_or:
                    return v
        if isinstance(expr, ast.IfExp):
            c = self._ctor_bind(expr.test, env)
            if c[0] == "const":
                return self._ctor_bind(expr.body if c[1] else expr.orelse, env)
            return ("truthy", ("ifexp", [c, self._ctor_bind(expr.body, env), self._ctor_bind(expr.orelse, env)]))
        if isinstance(expr, ast.Compare) and len(expr.ops) == 1 and isinstance(expr.ops[0], (ast.Is, ast.IsNot)):
            l, r = self._ctor_bind(expr.left, env), self._ctor_bind(expr.comparators[0], env)
            if l[0] == "const" and r[0] == "const":
                same = l[1] is r[1] or (l[1] is None and r[1] is None)
                return ("const", same if isinstance(expr.ops[0], ast.Is) else not same)
        # value-preserving coercions of a parameter: float(p), np.float64(p), np.asarray(p), np.array(p[, dtype=float]);
        # int(p) only for parameters that are counts by name (an int() of anything else changes the value)
        if isinstance(expr, ast.Call) and len(expr.args) == 1 and all(k.arg in ("dtype", "copy") for k in expr.keywords):
            fn = expr.func
            nm = fn.id if isinstance(fn, ast.Name) else (fn.attr if isinstance(fn, ast.Attribute) and isinstance(fn.value, ast.Name) and fn.value.id in ("np", "numpy") else None)
            inner = self._ctor_bind(expr.args[0], env) if nm in ("float", "float64", "asarray", "array", "double", "int") else None
            if inner is not None and inner[0] in ("param", "const"):
                if nm != "int":
                    return inner if inner[0] == "param" or isinstance(inner[1], (int, float, Fraction)) else inner
                if inner[0] == "param" and inner[1] in ("ncell", "nx", "ny", "neq", "nratioa", "nratiob", "nelem"):
                    return inner
        try:
            return ("const", const_eval(expr, {}))
        except AnalysisError:
            pass
        if isinstance(expr, ast.Constant):
            return ("const", expr.value)
        if isinstance(expr, (ast.List, ast.Tuple)) and all(isinstance(e, ast.Constant) for e in expr.elts):
            return ("const", [e.value for e in expr.elts])
        # an expression over constructor parameters / constants: kept with the bindings in force where
        # it is evaluated (a base constructor called without an argument sees the DEFAULT there)
        return ("expr", _ExprEnv(expr, dict(env)))

    def _ctor_walk(self, init, env, out, depth):
        if depth > 8:
            raise AnalysisError("constructor chain too deep")
        mod = init.module
        for st in init.node.body:
            if isinstance(st, ast.Expr) and isinstance(st.value, ast.Call):
                call = st.value
                f = call.func
                if isinstance(f, ast.Name) and f.id == "setattr" and len(call.args) == 3 and isinstance(call.args[0], ast.Name) and call.args[0].id == init.params[0]:
                    nm = self._ctor_bind(call.args[1], env)
                    if nm[0] == "const" and isinstance(nm[1], str):
                        out[nm[1]] = self._ctor_bind(call.args[2], env)
                    continue
                if isinstance(f, ast.Attribute) and f.attr == "__init__":
                    if isinstance(f.value, ast.Call) and isinstance(f.value.func, ast.Name) and f.value.func.id == "super":
                        c0 = self.resolve_class_expr(f.value.args[0], mod) if f.value.args else init.cls
                        base = next((c for c in (self.mro(c0)[1:] if c0 is not None else []) if "__init__" in c.methods), None)
                    else:
                        base = self.resolve_class_expr(f.value, mod)
                    if base is None:
                        continue
                    binit = self.resolve(base, "__init__")
                    if binit is None:
                        continue
                    params = binit.params[1:]
                    benv = {}
                    for p, d in binit.defaults().items():
                        benv[p] = self._ctor_bind(d, {})
                    args = call.args[1:] if call.args and isinstance(call.args[0], ast.Name) and call.args[0].id == "self" else call.args
                    for p, a in zip(params, args):
                        benv[p] = self._ctor_bind(a, env)
                    for kw in call.keywords:
                        if kw.arg:
                            benv[kw.arg] = self._ctor_bind(kw.value, env)
                    self._ctor_walk(binit, benv, out, depth + 1)
            elif isinstance(st, ast.Assign):
                for t in st.targets:
                    pairs = [(t, st.value)]
                    if isinstance(t, (ast.Tuple, ast.List)) and isinstance(st.value, (ast.Tuple, ast.List)) and len(t.elts) == len(st.value.elts):
                        pairs = list(zip(t.elts, st.value.elts))       # self.a, self.b = x, y
                    bound = [(tt, self._ctor_bind(vv, env)) for tt, vv in pairs]
                    for tt, b in bound:
                        if isinstance(tt, ast.Attribute) and isinstance(tt.value, ast.Name) and tt.value.id == init.params[0]:
                            out[tt.attr] = b
                        elif isinstance(tt, ast.Name):
                            env[tt.id] = b                                # local name: later uses see its binding


# ---------------------------------------------------------------------- constant folding

def frac_of_constant(v):
    if isinstance(v, bool):
        raise AnalysisError("boolean constant in numeric context")
    if isinstance(v, int):
        return Fraction(v)
    if isinstance(v, float):
        # the decimal text of the literal (shortest round-trip repr) is the intended value
        return Fraction(repr(v))
    raise AnalysisError("non numeric constant %r" % (v,))


def const_eval(expr, env):
    """Exact constant folding of literal numeric tables.  Scalars are Fractions, arrays
    tuples of Fractions.  Anything else raises AnalysisError."""
    if isinstance(expr, ast.Constant):
        return frac_of_constant(expr.value)
    if isinstance(expr, ast.Name):
        if expr.id in env:
            return env[expr.id]
        raise AnalysisError("unknown name %s in constant expression" % expr.id)
    if isinstance(expr, (ast.List, ast.Tuple)):
        return tuple(const_eval(e, env) for e in expr.elts)
    if isinstance(expr, ast.UnaryOp) and isinstance(expr.op, (ast.USub, ast.UAdd)):
        v = const_eval(expr.operand, env)
        if isinstance(expr.op, ast.UAdd):
            return v
        return tuple(-x for x in v) if isinstance(v, tuple) else -v
    if isinstance(expr, ast.BinOp):
        a = const_eval(expr.left, env)
        b = const_eval(expr.right, env)

        def ap(f):
            if isinstance(a, tuple) and isinstance(b, tuple):
                if len(a) != len(b):
                    raise AnalysisError("shape mismatch in constant expression")
                return tuple(f(x, y) for x, y in zip(a, b))
            if isinstance(a, tuple):
                return tuple(f(x, b) for x in a)
            if isinstance(b, tuple):
                return tuple(f(a, y) for y in b)
            return f(a, b)
        if isinstance(expr.op, ast.Add):
            return ap(lambda x, y: x + y)
        if isinstance(expr.op, ast.Sub):
            return ap(lambda x, y: x - y)
        if isinstance(expr.op, ast.Mult):
            return ap(lambda x, y: x * y)
        if isinstance(expr.op, ast.Div):
            def dv(x, y):
                if y == 0:
                    raise AnalysisError("division by zero in constant expression")
                return x / y
            return ap(dv)
        if isinstance(expr.op, ast.Pow):
            def pw(x, y):
                if y.denominator != 1:
                    raise AnalysisError("non-integer power in constant expression")
                return x ** int(y)
            return ap(pw)
        raise AnalysisError("unsupported operator in constant expression")
    if isinstance(expr, ast.Call):
        tail = Project._callee_tail(expr.func)
        if tail in ("array", "asarray") and expr.args:
            return const_eval(expr.args[0], env)
    raise AnalysisError("unsupported constant expression %s" % ast.dump(expr)[:80])


def unparse(node):
    try:
        return ast.unparse(node)
    except Exception:
        return "<expr>"
