"""C04 — solutions converge to exact solutions at the design order.

PREMISE-LEVEL claim.  Decides only ORDER-POLY: the semi-discrete operator of linear
convection on the uniform periodic mesh, as decoded from the code for C11 (generic cell,
both convection signs), applied to exact cell averages of x^m reproduces the cell average
of -a d/dx x^m for every m <= p, p the design order of the reconstruction (1 extrapol1;
2 extrapol2 / extrapolk / fromm / quick / centered; 3 extrapol3) and fails at m = p+1
(so the order table itself is checked).  Necessary and, for smooth data and linear
convection, sufficient for the spatial design order.  Convergence of actual solves, limited
MUSCL, Riemann problems and the packaged reference solutions are NOT decided."""
from fractions import Fraction

from ..disc1d import Disc1D, KAPPA_NOMINAL, N
from ..interp import SelfObj
from ..project import AnalysisError
from .c02 import _decide
from ..stencil import NLin
from .c11 import decoded, uniform_mesh

DESIGN_ORDER = {"extrapol1": 1, "extrapol2": 2, "extrapolk": 2, "fromm": 2, "quick": 2, "centered": 2, "extrapol3": 3}


def generic_residual(proj, clsname, a_sign):
    conv = proj.cls("convection.model")
    D, ci, num, L, R = decoded(proj, clsname)
    A = D.alg
    a_abs = A.sym("a_abs", positive=True)
    dx = A.sym("dx", positive=True)
    x0, nn = A.sym("x0"), A.sym("Nn", positive=True)
    D.so.attrs["pL"], D.so.attrs["pR"] = [L], [R]
    D.fvm("calc_bc")
    model = SelfObj(conv, {"convcoef": a_abs * a_sign})
    D.so.attrs["flux"] = D.interp.call_function(proj.resolve(conv, "numflux"), [model, None, D.so.attrs["pL"], D.so.attrs["pR"]])
    r = D.fvm("calc_res")[0]
    l, h, v = D.stn.interior(r)
    return D, ci, uniform_mesh(D, v, dx, x0, nn, True), a_abs * a_sign, dx


def moment(D, val, m, dx):
    """substitute d[c+j] by the exact cell average of x^m over cell j (cell 0 centred at 0)"""
    A = D.alg

    def avg(j, k):
        hi = Fraction(2 * j + 1, 2)
        lo = Fraction(2 * j - 1, 2)
        return A.const((hi ** (k + 1) - lo ** (k + 1)) / (k + 1)) * A.pow(dx, k)

    def f(name, kind, idx):
        if name == "d" and kind == "rel":
            return avg(idx, m)
        return None
    got = D.subst_names(val, f)
    return got, (lambda k: avg(0, k))


def ref_wiring(check, proj):
    """the packaged Riemann reference hands (rhoL,uL,pL) and (rhoR,uR,pR), in that order, to the
    external exact solver, and reports its own left / right states"""
    from ..algebra import Algebra
    from ..interp import Interp, GvnDomain, SelfObj, ObjStub, ExtCall
    cls = proj.cls("solution.euler_riemann.riemann")
    init = proj.resolve(cls, "__init__")
    A = Algebra()
    it = Interp(proj, GvnDomain(A))
    it.opaque_modules = ("aerokit",)
    L = [A.sym("rhoL", positive=True), A.sym("uL"), A.sym("pL", positive=True)]
    R = [A.sym("rhoR", positive=True), A.sym("uR"), A.sym("pR", positive=True)]
    gam = A.sym("gamma", gt=1)
    so = SelfObj(cls, {})
    it.call_function(init, [so, ObjStub("model", {"gamma": gam}), list(L), list(R)])
    pb = so.attrs.get("riempb")
    ok = isinstance(pb, ExtCall) and len(pb.args) == 2 and all(isinstance(q, ExtCall) for q in pb.args)
    why = "riempb is not built from two external states"
    if ok:
        for q, want, side in ((pb.args[0], L, "left"), (pb.args[1], R, "right")):
            got = q.args[:3]
            if not (len(q.args) >= 4 and all(hasattr(g, "num") and A.equal(g, w) for g, w in zip(got, want)) and A.equal(q.args[3], gam)):
                ok = False
                why = "the %s state given to the exact solver is (%s), expected (%s, gamma)" % (side, ", ".join(A.show(g) if hasattr(g, "num") else repr(g) for g in q.args), ", ".join(A.show(w) for w in want))
    check.record("REF-WIRING", init.qualname, ok, "riemann_pb(state(rhoL,uL,pL,gamma), state(rhoR,uR,pR,gamma)): each side's own data, in this order" if ok else why, init.loc(), key="wiring")
    for nm, want in (("bcL", L), ("bcR", R)):
        f = proj.resolve(cls, nm)
        if f is None:
            continue
        out = it.call_function(f, [so])
        okb = isinstance(out, list) and len(out) == 3 and all(hasattr(g, "num") and A.equal(g, w) for g, w in zip(out, want))
        check.record("REF-WIRING", f.qualname, okb, "%s() returns its own side's state" % nm, f.loc(), key=nm)


def ref_nozzle_state(check, proj):
    """the packaged nozzle reference: whatever Mach / pressure distribution the external library
    returns, the primitive state built from it is one perfect-gas state -- p = scale*Ps,
    p/rho = r*T = ref_rttot/(Tt/T)(M), u = M*sqrt(gamma*p/rho) -- for every scale and reference
    total temperature (the external functions are uninterpreted)"""
    from ..algebra import Algebra
    from ..interp import Interp, GvnDomain, SelfObj, ExtCall
    cls = proj.cls("solution.euler_nozzle.nozzle")
    f = proj.resolve(cls, "primdata")
    if f is None:
        raise AnalysisError("solution.euler_nozzle.nozzle.primdata not found")
    A = Algebra()
    dom = GvnDomain(A)
    it = Interp(proj, dom)
    it.opaque_modules = ("aerokit",)
    gam = A.sym("gamma", gt=1)
    M, Ps = A.sym("Mach", positive=True), A.sym("Ps", positive=True)
    scale, rtt = A.sym("scale_ps", positive=True), A.sym("ref_rttot", positive=True)
    so = SelfObj(cls, {"_gam": gam, "_M": M, "_Ps": Ps, "_Pt": A.sym("Pt", positive=True), "_scale_ps": scale, "_ref_rttot": rtt})
    # external isentropic functions: uninterpreted positive functions of their (ring-valued) arguments
    it.ext_value = lambda name, args, kwargs: A.opaque(name.split(".")[-1], [a for a in list(args) + [kwargs[k] for k in sorted(kwargs)] if hasattr(a, "num")], positive=True)
    out = it.call_function(f, [so])
    if not (isinstance(out, list) and len(out) == 3 and all(hasattr(x, "num") for x in out)):
        check.undecided("REF-STATE", f.qualname, "primdata does not return three ring values (%r)" % (out,), f.loc())
        return
    rho, u, p = out
    T = A.opaque("TiTs_Mach", [M, gam], positive=True)
    _decide(check, "REF-STATE", f.qualname, f.loc(), A, p, scale * Ps, "pressure == scale_ps * Ps", key="p")
    _decide(check, "REF-STATE", f.qualname, f.loc(), A, p, rho * rtt / T, "p/rho == r*T = ref_rttot / (Tt/T)(Mach): density and pressure belong to the same state for every pressure scale", key="gas")
    _decide(check, "REF-STATE", f.qualname, f.loc(), A, u * u * rho, M * M * gam * p, "u == Mach * sqrt(gamma p / rho)", key="mach")


def integ_order(check, proj):
    from .c05 import explicit_classes
    from ..affine import run_step
    from .. import rk
    for c in explicit_classes(proj):
        name = c.name
        stepf = proj.resolve(c, "step")
        loc = stepf.loc() if stepf else c.loc()
        try:
            ai, outs = run_step(proj, c)
            T = rk.extract(outs[0], name)
        except AnalysisError as e:
            check.failed("INTEG-ORDER", c.qualname, e, loc, "abstract interpretation failed")
            continue
        probs = [t for r, t in T.problems if rk.problem_kind(r, t) == "update"]     # stage times and local steps do not enter an autonomous problem with one global step
        if probs:
            check.violation("INTEG-ORDER", c.qualname, probs[0], loc, key="tableau")
            continue
        if name not in rk.NOMINAL_ORDER:
            # a class the statement does not name (added since): no nominal order to hold it to; it must at least be
            # a consistent Runge-Kutta method, and its own order is reported
            p = rk.achieved_order(T.A, T.b)
            if p >= 1:
                check.ok("INTEG-ORDER", c.qualname, "class not named by the statement: its tableau is a Runge-Kutta method of order %d%s" % (p, "" if p < 4 else " (at least)"), loc, nontrivial=False)
            else:
                check.violation("INTEG-ORDER", c.qualname, "class not named by the statement, and its tableau is not even consistent (weights do not sum to one)", loc, key="inconsistent")
            continue
        order = rk.NOMINAL_ORDER[name]
        bad = [(cn, lhs) for cn, lhs, rhs in rk.order_conditions(T.A, T.b, order) if lhs != rhs]
        if bad:
            check.violation("INTEG-ORDER", c.qualname, "nominal order %d is not reached: condition %s fails (lhs = %s); the time error caps the observed convergence order" % (order, bad[0][0], bad[0][1]), loc, key=bad[0][0])
        else:
            check.ok("INTEG-ORDER", c.qualname, "order conditions up to the nominal order %d hold exactly" % order, loc)


def body(check):
    from ..disc1d import over_cond_paths
    over_cond_paths(check, _body_paths)


def _body_paths(check):
    proj = check.proj
    check.explanation = ("static analysis, PREMISE LEVEL: the circulant operator of linear convection decoded from the code (STN + "
                         "GVN, see C11) is applied to exact cell averages of monomials; the moment conditions up to the design "
                         "order are exact rational identities and the condition at order+1 must fail; decides the spatial design "
                         "order of the unlimited schemes, not the convergence of solves")
    check.trusted += ["design-order table of the statement (c04.DESIGN_ORDER)"]
    check.assume("smooth data, linear convection, uniform periodic mesh, exact time integration; limited MUSCL ('about 2'), Riemann problems, monotone L1 decrease and the aerokit-based reference solutions are not decided")
    n = 0
    for cn, order in DESIGN_ORDER.items():
        if not proj.has_cls("xnum." + cn):
            continue
        n += 1
        for a_sign in (+1, -1):
            try:
                D, ci, val, a, dx = generic_residual(proj, cn, a_sign)
            except AnalysisError as e:
                check.undecided("ORDER-POLY", "xnum." + cn, str(e))
                continue
            A = D.alg
            f = proj.resolve(ci, "interp_face")
            top = order + 1
            for m in range(0, top + 1):
                got, avg0 = moment(D, val, m, dx)
                want = -a * m * avg0(m - 1) if m >= 1 else A.const(0)
                eq = A.equal(got, want)
                if m <= order:
                    if eq:
                        check.ok("ORDER-POLY", ci.qualname, "operator is exact on cell averages of x^%d (a %s 0): moment condition %d of design order %d" % (m, ">" if a_sign > 0 else "<", m, order), f.loc())
                    else:
                        check.violation("ORDER-POLY", ci.qualname, "operator applied to cell averages of x^%d gives %s, exact value %s (a %s 0): the scheme is below its design order %d" % (m, A.show(got, 80), A.show(want, 60), ">" if a_sign > 0 else "<", order), f.loc(), key="moment%d%+d" % (m, a_sign))
                else:
                    if cn == "extrapolk":
                        continue       # symbolic kappa: order 3 exactly at kappa = 1/3
                    if eq:
                        check.undecided("ORDER-POLY", ci.qualname, "operator is also exact on x^%d: design-order table of the checker is too low" % m, f.loc())
                    else:
                        check.ok("ORDER-POLY", ci.qualname, "moment condition %d fails as expected: the design order is exactly %d" % (m, order), f.loc(), nontrivial=False)
    check.floor("unlimited reconstruction classes", n, 7)
    # the operator is circulant: the cells next to the periodic seam carry the same stencil (C11 rule)
    from .c11 import kappa_stencil
    n0 = len(check.obs)
    for cn in ("extrapol2", "extrapol3", "extrapolk"):
        check.guarded("ORDER-POLY", "xnum." + cn, lambda: kappa_stencil(check, proj, cn))
    for o in check.obs[n0:]:
        if o.rule == "KAPPA-STENCIL":
            o.rule = "ORDER-CIRCULANT"
    check.guarded("REF-WIRING", "solution.euler_riemann", lambda: ref_wiring(check, proj))
    check.guarded("REF-STATE", "solution.euler_nozzle", lambda: ref_nozzle_state(check, proj))
    # premises of the statement's other factors.  'x high-order integrators': the explicit
    # integrators must reach their nominal order, otherwise the time error caps the observed order
    # (same exact-rational obligations as C05).  'every upwind flux ... rarefactions': the HLL-type
    # wave-speed estimates must contain the one-sided characteristic speeds (Einfeldt), otherwise a
    # transonic rarefaction is captured as an expansion shock and the L1 error stalls (same
    # obligation as C10 WAVE-ENCLOSE).
    check.guarded("INTEG-ORDER", "integration", lambda: integ_order(check, proj))
    # ... and the implicit names of order 2 (cranknicolson / trapezoidal / gear) are the theta / BDF2
    # schemes of that order (same obligations as C06 TH-SCHEME / LMM-ORDER)
    from . import c06
    for c in c06.implicit_classes(proj):
        n0 = len(check.obs)
        check.guarded("INTEG-ORDER", c.qualname, lambda: c06.th_scheme(check, proj, c), c.loc())
        kept = []
        for o in check.obs[n0:]:
            if o.rule == "LMM-ORDER" or o.status == "undecided":        # the order condition only; which theta is C06's clause
                o.rule = "INTEG-ORDER"
                kept.append(o)
        check.obs[n0:] = kept
    # 'MUSCL with every limiter (about 2)': on smooth data the two one-sided slopes agree to leading order, so
    # second order needs phi(s,s) = s on the statement's scale range -- an absolute cut-off on the slope product
    # above that range turns the scheme into first-order upwind for small-amplitude / long-wavelength data
    # (same obligations as C12 LIM-CONSIST / LIM-ZERO / LIM-ODD)
    from . import c12
    from ..disc1d import LIMITERS
    for ln_ in [n_ for n_ in LIMITERS if n_ in proj.module("xnum").functions]:
        n0 = len(check.obs)
        check.guarded("LIM-AXIOM", "xnum." + ln_, lambda: c12.analyse(check, proj, ln_))
        check.obs[n0:] = [o for o in check.obs[n0:] if o.rule in ("LIM-CONSIST", "LIM-ZERO", "LIM-ODD", "LIM-AXIOM")]
    # 'the error of solve(...)[-1] at time T': the snapshot returned for a save time is the state of the
    # trajectory advanced to exactly that time by one forward step (same obligations as C07 DRV-SNAPSHOT)
    from ..driver_rules import analyse_solve, analyse_entry_points
    from .c07 import report
    res_, _ = analyse_solve(proj)
    analyse_entry_points(proj, res_)
    # ... of a run that starts at the time of the field it is given, with the stopping criteria and options the caller passed,
    # whose dictionaries it leaves as it found them (a convergence study calls solve() many times with the same objects)
    report(check, res_, ("DRV-SNAPSHOT", "TS-FRESH-MAIN", "DRV-RESET", "DRV-FORWARD", "DRV-CALLER-PURE"))
    from .c07 import field_deepcopy
    check.guarded("FIELD-DEEPCOPY", "field.fdata", lambda: field_deepcopy(check))
    # implicit integrators re-use the Jacobian only for operators that ARE linear: a limited reconstruction that declares itself
    # linear freezes the Jacobian of the first step (order and stability are lost) -- same obligations as C06 JAC-GUARD / JAC-LINEAR
    from . import c06
    check.guarded("JAC-GUARD", "integration.implicitmodel.calc_jacobian", lambda: c06.jac_guard(check, proj))
    from .c10 import enclose
    n0 = len(check.obs)
    check.guarded("WAVE-ENCLOSE", "numflux", lambda: enclose(check, proj))
    check.obs[n0:] = [o for o in check.obs[n0:] if "shallowwater" not in o.construct]
