"""C14 — periodic boundaries are seamless (translation invariance).

Rule SEAM-EQUIV: every quantity the scheme forms at the periodic seam has the same decoded
expression as its interior template with indices wrapped modulo n and cell centres shifted
by the domain length.  1D here; the 2D closures are decoded by the 2D stencil rules."""
from ..disc1d import Disc1D, RECON_CLASSES, phi_axioms, N
from ..project import AnalysisError
from ..stencil import SArr, NLin
from .c02 import _decide
from .c11 import decoded


def wrap(D, val):
    """periodic extension: d[j+-n] = d[j], xc[j-n] = xc[j]-Len, xc[j+n] = xc[j]+Len, xf[n] = xf[0]+Len"""
    A = D.alg
    Len = D.Len

    def f(name, kind, idx):
        if kind != "abs":
            return None
        if name.startswith("d"):
            if idx.a == 0 and idx.b < 0:
                return D.stn.absol(name, idx + N)
            if idx.a == 1 and idx.b >= 0:
                return D.stn.absol(name, idx - N)
        if name == "xc":
            if idx.a == 0 and idx.b < 0:
                return D.stn.absol(name, idx + N) - Len
            if idx.a == 1 and idx.b >= 0:
                return D.stn.absol(name, idx - N) + Len
        if name == "xf":
            if idx.a == 0 and idx.b < 0:
                return D.stn.absol(name, idx + N) - Len
            if idx.a == 1 and idx.b >= 0:
                return D.stn.absol(name, idx - N) + Len
        return None
    return D.subst_names(val, f)


def seam(check, proj, clsname):
    D, ci, num, L, R = decoded(proj, clsname)
    f = proj.resolve(ci, "interp_face")
    A = D.alg
    fv = proj.func("modeldisc.fvm1d.calc_bc")
    # gradients first (for the gradient-based schemes)
    if clsname != "extrapol1":
        g = D.so.attrs["grad"][0]
        tl, th, tv = D.stn.interior(g)
        fg = proj.func("modeldisc.fvm1d.calc_bc_grad")
        for l, h, v in g.segs:
            if (h - l).a >= 1:
                continue
            if (h - l) != NLin(0, 1):
                check.undecided("SEAM-EQUIV", fg.qualname, "gradient segment [%r,%r) not a single face" % (l, h), fg.loc())
                continue
            got = wrap(D, D.stn.absolutize(v, l))
            want = wrap(D, D.stn.absolutize(tv, l))
            _decide(check, "SEAM-EQUIV", fg.qualname, fg.loc(), A, got, want,
                    "gradient at seam face %r == interior template with wrapped indices and centre distance shifted by the domain length" % l, key="grad-seam")
    D.so.attrs["pL"], D.so.attrs["pR"] = [L], [R]
    D.fvm("calc_bc")
    for side, arr in (("L", D.so.attrs["pL"][0]), ("R", D.so.attrs["pR"][0])):
        D.stn._check_cover(arr, "p%s after calc_bc" % side)
        tl, th, tv = D.stn.interior(arr)
        nseam = 0
        for l, h, v in arr.segs:
            if (h - l).a >= 1:
                continue
            if (h - l) != NLin(0, 1):
                check.undecided("SEAM-EQUIV", ci.qualname, "%s segment [%r,%r) not a single face" % (side, l, h), f.loc())
                continue
            nseam += 1
            got = wrap(D, D.stn.absolutize(v, l))
            want = wrap(D, D.stn.absolutize(tv, l))
            _decide(check, "SEAM-EQUIV", ci.qualname, f.loc(), A, got, want,
                    "%s state at face %r == interior template modulo n (what an interior face between cells n-1 and 0 would receive)" % (side, l), key="seam-" + side)
        check.inventory["%s seam faces %s" % (clsname, side)] = nseam


def seam_all_variables(check, proj):
    """systems: the periodic closure of the face gradient is applied to EVERY variable (two-variable
    abstract discretisation; a statement that slipped out of the loop over variables closes only
    the last one)"""
    D = Disc1D(proj, neq=2, periodic=True)
    A = D.alg
    D.fvm("calc_grad")
    D.fvm("calc_bc_grad")
    fg = proj.func("modeldisc.fvm1d.calc_bc_grad")
    grads = D.so.attrs["grad"]
    if len(grads) != 2:
        check.violation("SEAM-EQUIV", fg.qualname, "%d gradient arrays for 2 variables" % len(grads), fg.loc(), key="grad-count")
        return
    for iv, g in enumerate(grads):
        tl, th, tv = D.stn.interior(g)
        nseam = 0
        for l, h, v in g.segs:
            if (h - l).a >= 1:
                continue
            nseam += 1
            got = wrap(D, D.stn.absolutize(v, l))
            want = wrap(D, D.stn.absolutize(tv, l))
            _decide(check, "SEAM-EQUIV", "%s [variable %d of 2]" % (fg.qualname, iv), fg.loc(), A, got, want,
                    "gradient of variable %d at seam face %r == interior template with wrapped indices" % (iv, l), key="grad-seam-var%d" % iv)
        if nseam != 2:
            check.violation("SEAM-EQUIV", "%s [variable %d of 2]" % (fg.qualname, iv), "%d seam faces closed for variable %d (expected 2)" % (nseam, iv), fg.loc(), key="grad-seam-count%d" % iv)


def residual_uniform(check, proj):
    D = Disc1D(proj, periodic=True)
    D.so.attrs["flux"] = [D.stn.input("F", N + 1)]
    res = D.fvm("calc_res")
    f = proj.func("modeldisc.fvm1d.calc_res")
    r = res[0]
    if len(r.segs) == 1 and r.segs[0][0] == NLin(0, 0) and r.segs[0][1] == N:
        check.ok("SEAM-EQUIV", f.qualname, "the residual rule is one relation for all cells [0,n): cells 0 and n-1 are treated like any other", f.loc())
    else:
        check.violation("SEAM-EQUIV", f.qualname, "the residual is assembled by %d different relations: %s" % (len(r.segs), r), f.loc(), key="res-segs")


def body(check):
    from ..disc1d import over_cond_paths
    over_cond_paths(check, _body_paths)


def _body_paths(check):
    proj = check.proj
    check.explanation = ("static analysis: access-relation decoding (STN) of gradients, periodic closures, reconstructions and "
                         "calc_bc; each seam-face relation is compared, as a ring identity, with the interior template whose "
                         "indices are wrapped modulo n and whose centre distance is shifted by the domain length; parametric "
                         "in n; the same for the 2D strided closures and connected-tag copies when the 2D decoder is present")
    check.assume("xf[n] = xf[0] + length (MESH-SPAN, C20); n >= 8 for the order of segment bounds; point-wise fluxes (C01 POINTWISE)")
    classes = [c for c in RECON_CLASSES if proj.has_cls("xnum." + c)]
    check.floor("1D reconstruction classes", len(classes), 8)
    for c in classes:
        check.guarded("SEAM-EQUIV", "xnum." + c, lambda: seam(check, proj, c))
    check.guarded("SEAM-EQUIV", "modeldisc.fvm1d.calc_res", lambda: residual_uniform(check, proj))
    # invariance under a shift of the cell numbering needs fluxes that are element-wise in the face index: the value at
    # one face must not depend on where the face sits in the array (same obligation as C01 POINTWISE)
    from . import c01
    check.guarded("POINTWISE", "numflux", lambda: c01.pointwise(check, proj))
    check.guarded("SEAM-EQUIV", "modeldisc.fvm1d.calc_bc_grad", lambda: seam_all_variables(check, proj))
    # "all integrators": the implicit family packs cells and equations into one vector; rows and columns
    # of its Jacobian must use one interleaved layout, or cells exchange roles with equations
    from . import c06
    n0 = len(check.obs)
    check.guarded("LAYOUT-AGREE", "integration.implicitmodel.calc_jacobian", lambda: c06.fd_column(check, proj, conservation_only=True, only_kinds=("layout",)))
    check.obs[n0:] = [o for o in check.obs[n0:] if o.rule == "LAYOUT-AGREE" or o.status != "ok"]
    # "number of steps": the global time step is the minimum of a cell-wise quantity that is DEFINED in every cell -- an entry
    # left at nan makes min() depend on where the cell is (same obligation as C18 DT-REST)
    from . import c18
    check.guarded("DT-REST", "timestep kernels", lambda: c18.rest_alloc(check))
    # "all integrators": the implicit family packs the per-equation arrays into ONE vector; every term of the linear system must
    # use the same (interleaved) packing, or the contribution of cell i / variable q lands on another cell -- an assignment
    # anchored on cell 0 that does not commute with the shift (same obligations as C06 TH-SCHEME, the layout clauses only)
    for c in c06.implicit_classes(proj):
        n0 = len(check.obs)
        check.guarded("LAYOUT-AGREE", c.qualname, lambda: c06.th_scheme(check, proj, c), c.loc())
        kept = []
        for o in check.obs[n0:]:
            if (o.status == "violation" and o.key in ("dt-tiled", "col-scaling", "varmajor")) or o.status == "undecided":
                o.rule = "LAYOUT-AGREE"
                kept.append(o)
        check.obs[n0:] = kept
        if not kept:
            check.ok("LAYOUT-AGREE", c.qualname, "every term of the implicit system uses the interleaved packing (unknown q + neq*i is variable q of cell i)", c.loc())
    from . import c15
    if check.guarded("LAYOUT-AGREE", "modeldisc.fvm2dcart", lambda: c15.layout_agree(check)):
        check.guarded("SEAM-2D", "modeldisc.fvm2dcart.calc_bc_grad", lambda: c15.seam_2d(check))
        # the differences are defined on EVERY interior face (a row left at zero is a seam in the middle of the domain)
        n0 = len(check.obs)
        check.guarded("GRAD-2D", "modeldisc.fvm2dcart.calc_grad", lambda: c15.kappa_2d(check))
        check.obs[n0:] = [o for o in check.obs[n0:] if o.rule == "GRAD-2D"]
        check.guarded("PERIODIC-CLOSE", "modeldisc.fvm2dcart.calc_bc", lambda: c15.telescope_2d(check))
