"""C18 — the time step is CFL x cell size / fastest wave speed.

Rules: DT-FORMULA, DT-SIBLING, DT-POINTWISE, DT-CELLSIZE, DT-POS, DRV-DT-MIN (+ UNIT)."""
import ast

from ..interp import Vec, ObjStub, SelfObj, Interp
from ..models import Ctx, MODELS, flat
from ..project import AnalysisError, unparse
from .c02 import _decide
from .c07 import report
from ..driver_rules import analyse_solve

KEYS = ["convection", "burgers", "shallowwater", "euler1d", "nozzle", "euler2d"]


def formula(check, key):
    ctx = Ctx(check.proj, key)
    A = ctx.alg
    A.start_clock()
    f = ctx.method("timestep")
    W = ctx.prim("")
    q = ctx.prim2cons(W)
    dx = A.sym("dx", positive=True)
    cfl = A.sym("cfl", positive=True)
    dt = ctx.call(f, q, dx, cfl)
    construct = "%s [%s]" % (f.qualname, key)
    if not ctx.dom.is_value(dt):
        check.violation("DT-FORMULA", construct, "timestep does not return one value per cell", f.loc(), key="shape")
        return
    check.ok("DT-POINTWISE", construct, "element-wise in the cell index (no slice, shift or reduction): independent of the other cells", f.loc())
    lam = ctx.spectral_radius(W)
    _decide(check, "DT-FORMULA", construct, f.loc(), A, dt, cfl * dx / lam,
            "timestep(prim2cons(W), dx, cfl) == cfl*dx/spectral radius", key="formula")
    # DT-REST: where the wave speed VANISHES (a Burgers cell at rest, u = 0) the formula is cfl*dx/0 = +inf: no limit, and the
    # minimum over the cells skips it.  An entry left at its allocation value there (0 from np.zeros with `where=`, nan) makes
    # the global minimum 0 (time never advances) or nan (depending on WHERE the cell is: the builtin min keeps its first nan)
    if key == "burgers":
        import decimal
        hooks = dict(A.point_hooks)
        names = [A.atoms[a].name for a in A.atoms_of(W[0])]
        for nm in names:
            A.point_hooks[nm] = lambda k: 0.0
        vals = []
        try:
            for k in range(5000, 5012):
                A._memo.pop(k, None)
                if not A.admissible(k):
                    continue
                v = A.evalf(dt, k)
                vals.append(v)
                A._memo.pop(k, None)
        finally:
            A.point_hooks.clear()
            A.point_hooks.update(hooks)
        finite = [v for v in vals if v is not None and not v.is_nan() and not v.is_infinite()]
        if not vals:
            check.undecided("DT-REST", construct, "time step of a cell at rest not evaluable", f.loc())
        elif finite:
            check.violation("DT-REST", construct, "a cell AT REST (u = 0, no wave) gets the time step %s, not cfl*dx/0 = +inf (no limit): the entry is left at the value the array was allocated with (a conditional store, `where=` of a ufunc) -- the minimum over the cells is then %s whenever one cell is at rest" % (finite[0], "0: time never advances" if finite[0] == 0 else "that number"), f.loc(), key="rest-finite")
        elif any(v is not None and v.is_nan() for v in vals):
            check.violation("DT-REST", construct, "a cell at rest (u = 0) gets the time step nan, not +inf: min() over the cells is nan or not depending on WHERE the cell is (the builtin min returns its first argument when a comparison with nan is False)", f.loc(), key="rest-nan")
        else:
            check.ok("DT-REST", construct, "a cell at rest gets cfl*dx/0 (+inf, no limit): the formula is stored unconditionally", f.loc())
    s = A.sign(dt)
    if s in ("+", ">=0"):
        check.ok("DT-POS", construct, "time step > 0 for cfl, dx > 0 and admissible states%s" % ("" if s == "+" else " (non-zero wave speed)"), f.loc())
    else:
        check.undecided("DT-POS", construct, "sign of the time step not established (%s)" % s, f.loc())
    # sibling: the sound speed used by timestep is the registered `asound`
    if key in ("euler1d", "nozzle", "euler2d"):
        reg = check.proj.instance_registry(ctx.cls, "_vardict")
        if "asound" in reg and "velocitymag" in reg:
            a = ctx.call(reg["asound"], q)
            vm = ctx.call(reg["velocitymag"], q)
            _decide(check, "DT-SIBLING", construct, f.loc(), A, dt * (vm + a), cfl * dx,
                    "wave speed in timestep == velocitymag + asound (the model's own variables)", key="sibling")


def rest_alloc(check):
    """DT-REST (structure): a time-step kernel that stores its formula only in SOME cells (a store under an `if` on the data, a
    ufunc with `where=`) leaves the other cells at the value the result array was allocated with.  The formula's value there is
    cfl*dx/0 = +inf ("no limit"; the algebra reasons for generic states and does not see u = 0), so the allocation must be +inf:
    zeros make the global minimum 0 (time never advances), nan makes it nan depending on where the cell is."""
    import ast
    proj = check.proj
    seen = set()
    n = 0
    for key in KEYS:
        cls = proj.cls(MODELS[key]["cls"])
        f = proj.resolve(cls, "timestep")
        if f is None or f.qualname in seen:
            continue
        seen.add(f.qualname)
        n += 1
        rets = [r.value.id for r in ast.walk(f.node) if isinstance(r, ast.Return) and isinstance(r.value, ast.Name)]
        partial = []
        for name in set(rets):
            def under_if(stmts, inside):
                for st in stmts:
                    if isinstance(st, ast.If):
                        under_if(st.body, True)
                        under_if(st.orelse, True)
                    elif isinstance(st, (ast.For, ast.While, ast.With)):
                        under_if(st.body, inside)
                    elif inside and isinstance(st, (ast.Assign, ast.AugAssign)):
                        for t in (st.targets if isinstance(st, ast.Assign) else [st.target]):
                            if isinstance(t, ast.Subscript) and isinstance(t.value, ast.Name) and t.value.id == name:
                                partial.append((name, st.lineno, "a store under an `if`"))
            under_if(f.node.body, False)
            for c in ast.walk(f.node):
                if isinstance(c, ast.Call) and any(k.arg == "where" for k in c.keywords) and any(k.arg == "out" and isinstance(k.value, ast.Name) and k.value.id == name for k in c.keywords):
                    partial.append((name, c.lineno, "a ufunc with `where=`"))
        if not partial:
            check.ok("DT-REST", f.qualname, "the formula is stored in every cell (no conditional store, no `where=`)", f.loc(), nontrivial=False)
            continue
        name, ln, how = partial[0]
        allocs = [st for st in ast.walk(f.node) if isinstance(st, ast.Assign) and any(isinstance(t, ast.Name) and t.id == name for t in st.targets)]
        is_inf = lambda e: (isinstance(e, ast.Attribute) and e.attr in ("inf", "Inf", "infty", "PINF")) or (isinstance(e, ast.Call) and isinstance(e.func, ast.Name) and e.func.id == "float" and e.args and isinstance(e.args[0], ast.Constant) and str(e.args[0].value).lower() in ("inf", "+inf", "infinity"))
        good = bool(allocs) and all(isinstance(a.value, ast.Call) and isinstance(a.value.func, ast.Attribute) and a.value.func.attr in ("full", "full_like") and len(a.value.args) >= 2 and is_inf(a.value.args[1]) for a in allocs)
        if good:
            check.ok("DT-REST", f.qualname, "cells the formula is not stored in keep +inf (the array is allocated with it): no limit", f.loc())
        else:
            check.violation("DT-REST", f.qualname, "the time step is stored in SOME cells only (%s, line %d) and `%s` is allocated by `%s`: a cell with zero wave speed (a Burgers cell at rest) keeps that value instead of cfl*dx/0 = +inf -- with zeros the minimum over the cells is 0 and time never advances, with nan it is nan or not depending on where the cell is" % (how, ln, name, unparse(allocs[0].value)[:40] if allocs else "?"),
                            "%s:%d" % (f.module.relpath, ln), key="rest-alloc")
    check.floor("time-step kernels", n, 4)


def cellsize(check):
    proj = check.proj
    # 2D: characteristic length dx*dy/(dx+dy)
    c = proj.cls("modeldisc.fvm2dcart")
    f = proj.resolve(c, "calc_timestep")
    from ..algebra import Algebra
    from ..interp import GvnDomain
    A = Algebra()
    dom = GvnDomain(A)
    it = Interp(proj, dom)
    dx, dy = A.sym("dx", positive=True), A.sym("dy", positive=True)
    got = {}

    def timestep(data, ldim, cond):
        got["ldim"] = ldim
        got["data"] = data
        got["cond"] = cond
        return A.sym("dt")
    mesh = ObjStub("mesh", {"dx": lambda: dx, "dy": lambda: dy})
    model = ObjStub("model", {"timestep": timestep})
    so = SelfObj(c, {"mesh": mesh, "model": model})
    fld = ObjStub("field", {"data": "FIELD-DATA"})
    it.call_function(f, [so, fld, A.sym("cfl", positive=True)])
    if "ldim" not in got:
        check.violation("DT-CELLSIZE", f.qualname, "model.timestep is not called", f.loc(), key="nocall")
    else:
        _decide(check, "DT-CELLSIZE", f.qualname, f.loc(), A, got["ldim"], dx * dy / (dx + dy), "2D cell size == dx*dy/(dx+dy)", key="ldim2d")
        if got["data"] != "FIELD-DATA":
            check.violation("DT-CELLSIZE", f.qualname, "timestep is not computed from the field's data", f.loc(), key="data2d")
    # 1D: xf[c+1]-xf[c] passed with the field data and the CFL number; the call is interpreted on
    # the abstract 1D discretisation (symbolic ncell, free face array) and the cell-size argument
    # is compared, element by element, with the width of the same cell
    from ..disc1d import Disc1D, N
    from ..stencil import SArr
    c1 = proj.cls("modeldisc.fvm1d")
    f1 = proj.resolve(c1, "calc_timestep")
    d = Disc1D(proj, neq=1, periodic=True)
    A1 = d.alg
    got1 = {}

    def timestep1(data, ldim, cond):
        got1["ldim"], got1["data"], got1["cond"] = ldim, data, cond
        return A1.sym("dt")
    d.so.attrs["model"] = ObjStub("model", {"timestep": timestep1})
    cfl1 = A1.sym("cfl", positive=True)
    d.fvm("calc_timestep", ObjStub("field", {"data": "FIELD-DATA"}), cfl1)
    if "ldim" not in got1:
        check.violation("DT-CELLSIZE", f1.qualname, "model.timestep is not called", f1.loc(), key="nocall1d")
        return
    if got1["data"] != "FIELD-DATA" or got1["cond"] is not cfl1:
        check.violation("DT-CELLSIZE", f1.qualname, "timestep is not called with the field data and the CFL argument", f1.loc(), key="args1d")
    w = got1["ldim"]
    want = d.stn.rel("xf", 1) - d.stn.rel("xf", 0)
    if not isinstance(w, SArr):
        check.violation("DT-CELLSIZE", f1.qualname, "cell-size argument is %r, not one width per cell" % (w,), f1.loc(), key="dx1d")
    elif w.length != N:
        check.violation("DT-CELLSIZE", f1.qualname, "cell-size argument has %r entries, expected one per cell" % (w.length,), f1.loc(), key="dx1d")
    else:
        bad = [(l, h, v) for l, h, v in w.segs if not A1.equal(v, want)]
        if not bad:
            check.ok("DT-CELLSIZE", f1.qualname, "1D cell size decodes to xf[c+1]-xf[c] for every cell c in [0, ncell) of an arbitrary face array", f1.loc())
        else:
            l, h, v = bad[0]
            check.violation("DT-CELLSIZE", f1.qualname, "cell-size argument is %s for cells [%r,%r), not the cell's own width xf[c+1]-xf[c]: the step of a cell depends on its neighbours' sizes" % (A1.show(v) if hasattr(A1, "show") else v, l, h), f1.loc(), key="dx1d")


def local_update(check):
    """'with the local-time-step directive, each cell's own value': the state update of one step
    must be multiplied by the step argument itself (an array under `dtlocal`), not by its
    minimum or any other reduction; decided on the affine abstraction of every explicit step()"""
    from .c05 import explicit_classes
    from ..affine import run_step
    from .. import rk
    proj = check.proj
    classes = explicit_classes(proj)
    check.floor("explicit integrator classes", len(classes), 10)
    for c in classes:
        stepf = proj.resolve(c, "step")
        loc = stepf.loc() if stepf else c.loc()
        try:
            ai, outs = run_step(proj, c)
            T = rk.extract(outs[0], c.name)
        except AnalysisError as e:
            check.failed("DT-LOCAL", c.qualname, e, loc, "abstract interpretation failed")
            continue
        bad = [t for r, t in T.problems if r == "AFF-UPDATE" and ("reduced time step" in t or "not advanced with the step argument" in t)]
        if bad:
            check.violation("DT-LOCAL", c.qualname, "%s: with a local-time-step array the cells are not advanced with their own step" % bad[0], loc, key="local-update")
        else:
            check.ok("DT-LOCAL", c.qualname, "every stage and the final update multiply the residual by the step argument itself (each cell's own value under dtlocal); only the time uses its minimum", loc)


def local_implicit(check):
    """implicit family under dtlocal: the per-cell step enters the system on the diagonal / as a row
    scaling in the layout of the packed unknowns (cell-major), so that each cell uses its own value"""
    from . import c06
    proj = check.proj
    for c in c06.implicit_classes(proj):
        n0 = len(check.obs)
        check.guarded("DT-LOCAL", c.qualname, lambda: c06.th_scheme(check, proj, c), c.loc())
        kept = []
        for o in check.obs[n0:]:
            if o.status == "undecided" or (o.status == "violation" and o.key in ("dt-tiled", "col-scaling")):
                o.rule = "DT-LOCAL"
                kept.append(o)
        check.obs[n0:] = kept
        if not kept:
            check.ok("DT-LOCAL", c.qualname, "the time-step array enters the implicit system cell by cell (np.repeat over the equations of a cell, row side of the Jacobian)", c.loc())


def body(check):
    check.explanation = ("static analysis: each model's timestep() is lowered to value numbers and compared with "
                         "cfl*dx/spectral radius (specification table |a|, |u|, |u|+sqrt(g h), |V|+sqrt(gamma p/rho)) as a "
                         "ring identity for all states; sibling agreement with the model's own asound/velocitymag variables; "
                         "sign analysis; cell-size arguments decoded from the discretisation; min/local wiring from the "
                         "abstract interpretation of the solve driver")
    check.trusted += ["spectral-radius specification table (models.Ctx.spectral_radius)"]
    check.assume("admissible states; cfl > 0; cell sizes > 0")
    for key in KEYS:
        check.guarded("DT-FORMULA", key, lambda: formula(check, key))
    check.guarded("DT-REST", "timestep kernels", lambda: rest_alloc(check))
    check.guarded("DT-CELLSIZE", "modeldisc", lambda: cellsize(check))
    check.guarded("DT-LOCAL", "integration", lambda: local_update(check))
    check.guarded("DT-LOCAL", "integration (implicit)", lambda: local_implicit(check))
    res, info = analyse_solve(check.proj)
    from ..driver_rules import analyse_entry_points
    analyse_entry_points(check.proj, res)
    report(check, res, ("DRV-DT-MIN", "DRV-FORWARD"))
    # "a solve USES the minimum as its global step": the time of the field advances by exactly the step it is given --
    # every copy the driver and the stages make carries the time unmodified (same obligations as C07 FIELD-DEEPCOPY)
    from .c07 import field_deepcopy
    check.guarded("FIELD-DEEPCOPY", "field.fdata", lambda: field_deepcopy(check))
    from ..units import check_timestep_units
    check_timestep_units(check, "UNIT-HOMOG")
