"""C18 — the time step is CFL x cell size / fastest wave speed.

Rules: DT-FORMULA, DT-SIBLING, DT-POINTWISE, DT-CELLSIZE, DT-POS, DRV-DT-MIN (+ UNIT)."""
import ast

from ..interp import Vec, ObjStub, SelfObj, Interp
from ..models import Ctx, MODELS, flat
from ..project import AnalysisError, unparse
from .c02 import _decide
from .c07 import report
from ..driver_rules import analyse_solve

KEYS = ["convection", "burgers", "shallowwater", "euler1d", "nozzle", "euler2d"]


def formula(check, key):
    ctx = Ctx(check.proj, key)
    A = ctx.alg
    A.start_clock()
    f = ctx.method("timestep")
    W = ctx.prim("")
    q = ctx.prim2cons(W)
    dx = A.sym("dx", positive=True)
    cfl = A.sym("cfl", positive=True)
    dt = ctx.call(f, q, dx, cfl)
    construct = "%s [%s]" % (f.qualname, key)
    if not ctx.dom.is_value(dt):
        check.violation("DT-FORMULA", construct, "timestep does not return one value per cell", f.loc(), key="shape")
        return
    check.ok("DT-POINTWISE", construct, "element-wise in the cell index (no slice, shift or reduction): independent of the other cells", f.loc())
    lam = ctx.spectral_radius(W)
    _decide(check, "DT-FORMULA", construct, f.loc(), A, dt, cfl * dx / lam,
            "timestep(prim2cons(W), dx, cfl) == cfl*dx/spectral radius", key="formula")
    s = A.sign(dt)
    if s in ("+", ">=0"):
        check.ok("DT-POS", construct, "time step > 0 for cfl, dx > 0 and admissible states%s" % ("" if s == "+" else " (non-zero wave speed)"), f.loc())
    else:
        check.undecided("DT-POS", construct, "sign of the time step not established (%s)" % s, f.loc())
    # sibling: the sound speed used by timestep is the registered `asound`
    if key in ("euler1d", "nozzle", "euler2d"):
        reg = check.proj.instance_registry(ctx.cls, "_vardict")
        if "asound" in reg and "velocitymag" in reg:
            a = ctx.call(reg["asound"], q)
            vm = ctx.call(reg["velocitymag"], q)
            _decide(check, "DT-SIBLING", construct, f.loc(), A, dt * (vm + a), cfl * dx,
                    "wave speed in timestep == velocitymag + asound (the model's own variables)", key="sibling")


def cellsize(check):
    proj = check.proj
    # 2D: characteristic length dx*dy/(dx+dy)
    c = proj.cls("modeldisc.fvm2dcart")
    f = proj.resolve(c, "calc_timestep")
    from ..algebra import Algebra
    from ..interp import GvnDomain
    A = Algebra()
    dom = GvnDomain(A)
    it = Interp(proj, dom)
    dx, dy = A.sym("dx", positive=True), A.sym("dy", positive=True)
    got = {}

    def timestep(data, ldim, cond):
        got["ldim"] = ldim
        got["data"] = data
        got["cond"] = cond
        return A.sym("dt")
    mesh = ObjStub("mesh", {"dx": lambda: dx, "dy": lambda: dy})
    model = ObjStub("model", {"timestep": timestep})
    so = SelfObj(c, {"mesh": mesh, "model": model})
    fld = ObjStub("field", {"data": "FIELD-DATA"})
    it.call_function(f, [so, fld, A.sym("cfl", positive=True)])
    if "ldim" not in got:
        check.violation("DT-CELLSIZE", f.qualname, "model.timestep is not called", f.loc(), key="nocall")
    else:
        _decide(check, "DT-CELLSIZE", f.qualname, f.loc(), A, got["ldim"], dx * dy / (dx + dy), "2D cell size == dx*dy/(dx+dy)", key="ldim2d")
        if got["data"] != "FIELD-DATA":
            check.violation("DT-CELLSIZE", f.qualname, "timestep is not computed from the field's data", f.loc(), key="data2d")
    # 1D: xf[c+1]-xf[c] passed with the field data and the CFL number
    c1 = proj.cls("modeldisc.fvm1d")
    f1 = proj.resolve(c1, "calc_timestep")
    try:
        from ..stencil import decode_1d_expr
    except ImportError:
        decode_1d_expr = None
    call = None
    for n in ast.walk(f1.node):
        if isinstance(n, ast.Call) and isinstance(n.func, ast.Attribute) and n.func.attr == "timestep":
            call = n
    if call is None or len(call.args) != 3:
        check.violation("DT-CELLSIZE", f1.qualname, "model.timestep(data, dx, cfl) call not found", f1.loc(), key="nocall1d")
        return
    a0, a1, a2 = call.args
    ok0 = unparse(a0) == "%s.data" % f1.params[1]
    ok2 = isinstance(a2, ast.Name) and a2.id == f1.params[2]
    if not ok0 or not ok2:
        check.violation("DT-CELLSIZE", f1.qualname, "timestep is called with (%s, ..., %s), expected the field data and the CFL argument" % (unparse(a0), unparse(a2)), f1.loc(), key="args1d")
    if decode_1d_expr is not None:
        r = decode_1d_expr(proj, c1, f1, a1)
        if r is True:
            check.ok("DT-CELLSIZE", f1.qualname, "1D cell size decodes to xf[c+1]-xf[c] for c in [0, nelem)", f1.loc())
        elif r is None:
            check.undecided("DT-CELLSIZE", f1.qualname, "cell-size expression %s not decoded" % unparse(a1), f1.loc())
        else:
            check.violation("DT-CELLSIZE", f1.qualname, "cell-size argument %s is not the cell width xf[c+1]-xf[c]: %s" % (unparse(a1), r), f1.loc(), key="dx1d")


def body(check):
    check.explanation = ("static analysis: each model's timestep() is lowered to value numbers and compared with "
                         "cfl*dx/spectral radius (specification table |a|, |u|, |u|+sqrt(g h), |V|+sqrt(gamma p/rho)) as a "
                         "ring identity for all states; sibling agreement with the model's own asound/velocitymag variables; "
                         "sign analysis; cell-size arguments decoded from the discretisation; min/local wiring from the "
                         "abstract interpretation of the solve driver")
    check.trusted += ["spectral-radius specification table (models.Ctx.spectral_radius)"]
    check.assume("admissible states; cfl > 0; cell sizes > 0")
    for key in KEYS:
        check.guarded("DT-FORMULA", key, lambda: formula(check, key))
    check.guarded("DT-CELLSIZE", "modeldisc", lambda: cellsize(check))
    res, info = analyse_solve(check.proj)
    report(check, res, ("DRV-DT-MIN",))
    try:
        from ..units import check_timestep_units
    except ImportError:
        check_timestep_units = None
    if check_timestep_units is not None:
        check_timestep_units(check, "UNIT-HOMOG")
