"""C05 — explicit Runge-Kutta integrators meet their order conditions for every RHS.

AFF interprets `step` of every explicit integrator class with its literal tableau and
returns the realised (A, b), the stage evaluation states and times.  Obligations are exact
rational arithmetic: RK-ORDER, RK-WEIGHTS, AFF-TIME, AFF-UPDATE, RK-SSP, LSRK-POLY."""
from fractions import Fraction

from ..affine import run_step
from ..project import AnalysisError
from .. import rk


def explicit_classes(proj):
    tm = proj.cls("integration.timemodel")
    try:
        impl = proj.cls("integration.implicitmodel")
    except AnalysisError:
        impl = None
    out = []
    for c in proj.subclasses(tm, strict=True):
        if c.module.tail != "integration":
            continue
        if impl is not None and impl in proj.mro(c):
            continue
        if c.name in rk.ABSTRACT:
            continue
        out.append(c)
    return out


def body(check):
    proj = check.proj
    check.explanation = ("static analysis: abstract interpretation of every explicit integrator's step() in an affine "
                         "domain (heap with aliasing and in-place operators) yields the realised Butcher tableau, stage "
                         "states and stage times; order conditions (rooted trees up to order 4), weights, stage "
                         "abscissae, SSP (Kraaijevanger r=1) and stability polynomials are checked in exact rational "
                         "arithmetic; valid for every right-hand side because K_j are uninterpreted symbols")
    check.trusted += ["nominal orders table (rk.NOMINAL_ORDER)", "Bogey-Bailly 2004 published polynomial coefficients (12 digits)"]
    # stage times are read from copies of the field: the copies must carry data, time and tag (same obligations as C07)
    from .c07 import field_deepcopy
    check.guarded("FIELD-DEEPCOPY", "field.fdata", lambda: field_deepcopy(check))
    check.assume("a right-hand side owns the arrays it returns (as every discretisation of the library does): a callable that hands back the arrays of the field it is given is outside what is decided -- the library's add_res updates equation by equation and is itself order dependent for such a callable")
    check.assume("LSRK-POLY tolerance 2e-9 relative: the 14-digit betas in the source reproduce the published 12-digit gammas to <= 6e-10")
    check.exhaustive = True
    classes = explicit_classes(proj)
    check.floor("explicit integrator classes", len(classes), 10)
    for c in classes:
        name = c.name
        q = c.qualname
        stepf = proj.resolve(c, "step")
        loc = stepf.loc() if stepf else c.loc()
        try:
            ai, outs = run_step(proj, c, rhs_owned=True)      # "for every right-hand side": buffers may be re-used
        except AnalysisError as e:
            check.failed("AFF", q, e, loc, "abstract interpretation failed")
            continue
        T = rk.extract(outs[0], name)
        seen = set()
        for rule, text in T.problems:
            if (rule, text) in seen:
                continue
            seen.add((rule, text))
            check.violation(rule, q, text, loc, key=text.split(":")[0][:60])
        if any(r == "AFF-UPDATE" for r, _ in T.problems):
            continue
        s = len(T.b)
        check.ok("AFF-UPDATE", q, "one net update Q0 + dt*sum b_j K_j with b = %s, %d stages, same coefficients for every equation" % ([str(x) for x in T.b], s), loc)
        # final time
        adv = T.adv
        if adv.poly == {1: Fraction(1)} and adv.kinds == frozenset({"min"}):
            check.ok("AFF-TIME", q, "step advances time by exactly 1*min(dt)", loc)
        else:
            check.violation("AFF-TIME", q, "step advances time by %r (expected 1*dt{min})" % adv, loc, key="advance")
        # stage abscissae
        e = [Fraction(1)] * s
        c_rows = rk.matvec(T.A, e)
        for j, (ct, cr) in enumerate(zip(T.c_time, c_rows)):
            if ct is None:
                continue
            if ct == cr:
                check.ok("AFF-TIME", q, "stage %d is evaluated at time t + %s*dt = its abscissa c_%d" % (j, ct, j), loc)
            else:
                check.violation("AFF-TIME", q, "stage %d is evaluated at time t + %s*dt but its state is at abscissa c_%d = %s" % (j, ct, j, cr), loc, key="stage-time")
        # order conditions
        if name not in rk.NOMINAL_ORDER:
            # a class the statement does not name (added since): the generic clauses above apply to it (one update, exact
            # time advance, stage times = abscissae); its nominal order is not given, so it is held to consistency and
            # its own order is reported
            p = rk.achieved_order(T.A, T.b)
            if p >= 1:
                check.ok("RK-ORDER", q, "class not named by the statement: weights sum to one, and its tableau satisfies all order conditions up to order %d%s" % (p, "" if p < 4 else " (at least)"), loc, nontrivial=False)
            else:
                check.violation("RK-WEIGHTS", q, "class not named by the statement: the weights do not sum to one (sum b = %s): not a consistent Runge-Kutta step" % sum(T.b), loc, key="sum b = 1")
            continue
        order = rk.NOMINAL_ORDER[name]
        for cname, lhs, rhs in rk.order_conditions(T.A, T.b, order):
            rule = "RK-WEIGHTS" if cname.startswith("sum b =") else "RK-ORDER"
            if lhs == rhs:
                check.ok(rule, q, "order-%d condition %s holds exactly" % (order, cname), loc)
            else:
                check.violation(rule, q, "order-%d condition %s fails: lhs = %s" % (order, cname, lhs), loc, key=cname)
        if name in rk.SSP_CLASSES:
            bad = rk.ssp_r1(T.A, T.b)
            if not bad:
                check.ok("RK-SSP", q, "convex combination of forward-Euler steps (absolutely monotonic at r = 1)", loc)
            else:
                check.violation("RK-SSP", q, "not a convex combination of forward-Euler steps with SSP coefficient 1: %s" % "; ".join(bad[:4]), loc, key="ssp")
        if name.startswith("lsrk"):
            g = rk.stability_poly(T.A, T.b)
            if name == "lsrk4":
                ref = rk.TAYLOR4
                for k, (a, b) in enumerate(zip(g, ref), 1):
                    if a == b:
                        check.ok("LSRK-POLY", q, "gamma_%d = 1/%d! exactly" % (k, k), loc)
                    else:
                        check.violation("LSRK-POLY", q, "stability polynomial coefficient gamma_%d = %s, expected %s (Taylor)" % (k, a, b), loc, key="gamma%d" % k)
                if len(g) != len(ref):
                    check.violation("LSRK-POLY", q, "%d stages, expected 4" % len(g), loc, key="stages")
            elif name in rk.BOGEY_BAILLY:
                ref = [Fraction(x) for x in rk.BOGEY_BAILLY[name]]
                if len(g) != len(ref):
                    check.violation("LSRK-POLY", q, "%d stages, published scheme has %d" % (len(g), len(ref)), loc, key="stages")
                for k, (a, b) in enumerate(zip(g, ref), 1):
                    if k <= 2:
                        okk = (a == b)
                    else:
                        okk = abs(a - b) <= rk.LSRK_RTOL * b
                    if okk:
                        check.ok("LSRK-POLY", q, "gamma_%d = %.12f matches the published Bogey-Bailly coefficient %s" % (k, float(a), rk.BOGEY_BAILLY[name][k - 1]), loc)
                    else:
                        check.violation("LSRK-POLY", q, "gamma_%d = %.12f differs from the published coefficient %s" % (k, float(a), rk.BOGEY_BAILLY[name][k - 1]), loc, key="gamma%d" % k)
