"""C02 — numerical fluxes are consistent, mirror-symmetric and upwind.

Rules: REG-FLUX, GVN-CONSIST, SIBLING-AGREE, GVN-MIRROR, GVN-UPWIND, UNIT-HOMOG.
All identities are decided for all admissible states at once (ring identities over
symbolic states); a refutation carries an admissible witness state."""
import ast

from ..fluxes import (STATED, UPWIND, flux_kernels, call_flux, mirror_state, mirror_eps,
                      comp_names)
from ..interp import Vec
from ..models import Ctx, MODELS, flat
from ..project import AnalysisError

KEYS = ["convection", "burgers", "shallowwater", "euler1d", "euler2d"]


def _fmt_w(info):
    if not info:
        return ""
    pt = info.get("point", {})
    return " at witness state {%s}: %.6g vs %.6g" % (", ".join("%s=%s" % kv for kv in pt.items()), info["lhs"], info["rhs"])


def _decide(check, rule, construct, loc, alg, lhs, rhs, what, key=None):
    st, info = alg.decide_equal(lhs, rhs)
    if st == "proved":
        check.ok(rule, construct, what + " [ring identity]", loc)
    elif st == "refuted":
        check.violation(rule, construct, what + " FAILS" + _fmt_w(info), loc, key=key or what, info=info)
    else:
        check.undecided(rule, construct, what + ": " + str(info), loc)
    return st


# --------------------------------------------------------------------------- registry / dispatch
def _dispatch_semantic(proj, cls, nf):
    """True: numflux(self, NAME, L, R, D) looks NAME up in the registry once, calls what it finds once with (self, L, R, D) and
    returns its result.  str: what it does instead.  AnalysisError instance: not followed."""
    from ..algebra import Algebra
    from ..interp import Interp, GvnDomain, SelfObj, ObjStub

    class _Reg(dict):
        def __init__(self):
            dict.__init__(self)
            self.looked, self.calls = [], []
            self.result = ObjStub("flux result", {})

        def _fd_getitem(self, idx, interp):
            self.looked.append(idx)

            def entry(*a):
                self.calls.append((idx, a))
                return self.result
            return entry

        def __iter__(self):
            return iter(["<registered names>"])
    try:
        it = Interp(proj, GvnDomain(Algebra()))
        reg = _Reg()
        so = SelfObj(cls, {"_numfluxdict": ObjStub("_numfluxdict", {"dict": reg}), "equation": "model"})
        L, R, D = ObjStub("left state", {}), ObjStub("right state", {}), ObjStub("normal", {})
        out = it.call_function(nf, [so, "NAME", L, R, D])
    except AnalysisError as e:
        return e
    if reg.looked != ["NAME"]:
        return "the registry is looked up with %r, expected the name given" % (reg.looked,)
    if len(reg.calls) != 1:
        return "the registered function is called %d times" % len(reg.calls)
    a = reg.calls[0][1]
    if not (len(a) == 4 and a[0] is so and a[1] is L and a[2] is R and a[3] is D):
        return "the registered function is called with %s, expected (self, left, right, normal)" % ([getattr(x, "name", type(x).__name__) for x in a],)
    if out is not reg.result:
        return "the dispatcher does not return the value of the registered function"
    return True


def reg_flux(check):
    proj = check.proj
    n = 0
    for key, names in STATED.items():
        cls = proj.cls(MODELS[key]["cls"])
        reg = proj.instance_registry(cls, "_numfluxdict")
        for nm in names:
            n += 1
            if nm not in reg:
                check.violation("REG-FLUX", "%s._numfluxdict" % cls.qualname, "flux name %r of the statement is not registered" % nm, cls.loc(), key=nm)
            else:
                check.ok("REG-FLUX", "%s[%s]" % (cls.qualname, nm), "registered -> %s" % reg[nm].qualname, reg[nm].loc(), nontrivial=False)
        # dispatch: numflux(self, name, L, R, dir) must call registry[name](self, L, R, dir)
        nf = proj.resolve(cls, "numflux")
        ok = False
        why = "no dispatching call found"
        if nf is not None:
            ps = nf.params
            for node in ast.walk(nf.node):
                if isinstance(node, ast.Call) and isinstance(node.func, ast.Subscript):
                    argn = [a.id if isinstance(a, ast.Name) else None for a in node.args]
                    sub = node.func
                    idx = sub.slice
                    if isinstance(idx, ast.Name) and idx.id == ps[1] and argn == [ps[0]] + ps[2:5]:
                        ok = True
                    else:
                        why = "dispatch call passes %s, expected %s" % (argn, [ps[0]] + ps[2:5])
        n += 1
        if not ok and nf is not None:
            # not the one-line form: decide it on the abstract execution of the dispatcher with a recording registry
            sem = _dispatch_semantic(proj, cls, nf)
            if sem is True:
                ok = True
            elif isinstance(sem, str):
                why = sem
            elif why == "no dispatching call found":
                check.undecided("REG-FLUX", "%s.numflux" % cls.qualname, "dispatcher not in a form the analysis follows: %s" % (sem,), nf.loc())
                continue
        if ok:
            check.ok("REG-FLUX", "%s.numflux" % cls.qualname, "dispatches registry[name](self, L, R, dir) in that order", nf.loc())
        else:
            check.violation("REG-FLUX", "%s.numflux" % cls.qualname, why, nf.loc() if nf else "", key="dispatch")
    # the discretisations pass (tag, pL, pR[, dir])
    for q, want in (("modeldisc.fvm1d.calc_flux", ["numflux", "pL", "pR"]), ("modeldisc.fvm2dcart.calc_flux", ["numflux", "pL", "pR", None])):
        f = proj.func(q)
        got = None
        sn = f.params[0]

        def origin(a):
            """self attribute an argument denotes: self.X directly, or a local bound once to self.X"""
            if isinstance(a, ast.Attribute) and isinstance(a.value, ast.Name) and a.value.id == sn:
                return a.attr
            if isinstance(a, ast.Name):
                defs = [st.value for st in ast.walk(f.node) if isinstance(st, ast.Assign) and any(isinstance(t, ast.Name) and t.id == a.id for t in st.targets)]
                if len(defs) == 1:
                    return origin(defs[0])
            return None
        for node in ast.walk(f.node):
            if isinstance(node, ast.Call) and isinstance(node.func, ast.Attribute) and node.func.attr == "numflux":
                got = [origin(a) for a in node.args] + [k.arg for k in node.keywords]
        n += 1
        if got is not None and len(got) == len(want) and None in got[:3]:
            check.undecided("REG-FLUX", q, "arguments of the call to model.numflux could not be traced to attributes of the discretisation: %s" % got, f.loc())
        elif got is not None and got[:3] == want[:3] and len(got) == len(want):
            check.ok("REG-FLUX", q, "calls model.numflux(self.numflux, self.pL, self.pR%s)" % (", <face normals>" if len(want) == 4 else ""), f.loc())
        elif got is None:
            raise AnalysisError("%s: call to model.numflux not found" % q)
        else:
            check.violation("REG-FLUX", q, "calls model.numflux with arguments %s, expected (self.numflux, self.pL, self.pR%s) in this order" % (got, ", normals" if len(want) == 4 else ""), f.loc(), key="callorder")
    return n


# --------------------------------------------------------------------------- consistency
def consistency(check, key, f, names, results):
    ctx = Ctx(check.proj, key)
    A = ctx.alg
    A.start_clock()
    W = ctx.prim("")
    dirv = ctx.dir2d() if key == "euler2d" else None
    F = call_flux(ctx, f, W, W, dirv)
    spec = ctx.physical_flux(W, dirv)
    fl, sp = flat(F), flat(spec)
    if len(fl) != len(sp):
        check.violation("GVN-CONSIST", f.qualname, "returns %d components, model has %d" % (len(fl), len(sp)), f.loc(), key="ncomp")
        return
    for (lab, a), (_, b), cn in zip(fl, sp, comp_names(key)):
        _decide(check, "GVN-CONSIST", f.qualname, f.loc(), A, a, b,
                "F_%s(W,W) == physical flux f_%s(W)" % (cn, cn), key="consist:" + cn)
    results[f.qualname] = (ctx, [a for _, a in fl])


def sibling(check, key, kernels):
    """all fluxes of one model have the same value number at L == R (independent of the
    specification table): evaluated in ONE algebra so that atoms are shared"""
    if len(kernels) < 2:
        return
    ctx = Ctx(check.proj, key)
    A = ctx.alg
    A.start_clock()
    W = ctx.prim("")
    dirv = ctx.dir2d() if key == "euler2d" else None
    vals = []
    for f, names in kernels:
        vals.append((f, flat(call_flux(ctx, f, W, W, dirv))))
    ref_f, ref = vals[0]
    # majority reference: the value shared by most siblings
    for f, fl in vals[1:]:
        for (lab, a), (_, b), cn in zip(fl, ref, comp_names(key)):
            _decide(check, "SIBLING-AGREE", f.qualname, f.loc(), A, a, b,
                    "F_%s(W,W) agrees with sibling %s" % (cn, ref_f.name), key="sibling:" + cn)


# --------------------------------------------------------------------------- mirror symmetry
def mirror(check, key, f):
    ctx = Ctx(check.proj, key)
    A = ctx.alg
    A.start_clock()
    L, R = ctx.prim("L"), ctx.prim("R")
    if key == "euler2d":
        d = ctx.dir2d()
        F = call_flux(ctx, f, L, R, d)
        Fs = call_flux(ctx, f, R, L, Vec(-d.x, -d.y))
        what = "F(R,L,-n) == -F(L,R,n)"
    else:
        F = call_flux(ctx, f, L, R)
        if key == "convection":
            ctx.selfobj.attrs["convcoef"] = -ctx.selfobj.attrs["convcoef"]
        Fs = call_flux(ctx, f, mirror_state(ctx, R), mirror_state(ctx, L))
        what = "F(sigma(R),sigma(L)) == eps*F(L,R)"
    for (lab, a), (_, b), e, cn in zip(flat(F), flat(Fs), mirror_eps(key), comp_names(key)):
        _decide(check, "GVN-MIRROR", f.qualname, f.loc(), A, b, a * e,
                "%s for %s (eps=%+d)" % (what, cn, e), key="mirror:" + cn)


# --------------------------------------------------------------------------- upwinding
def _roe_facts(ctx, L, R, dirv, sign):
    """assume that L, R and their Roe average are supercritical in direction `sign`"""
    A = ctx.alg
    k = ctx.key
    if k == "shallowwater":
        g = ctx.selfobj.attrs["g"]
        (hL, uL), (hR, uR) = L, R
        cL, cR = A.sqrt(g * hL), A.sqrt(g * hR)
        sl, sr = A.sqrt(hL), A.sqrt(hR)
        uRoe = (sl * uL + sr * uR) / (sl + sr)
        cRoe = A.sqrt(g * (hL + hR) / 2)
        unL, unR = uL, uR
    else:
        gam = ctx.selfobj.attrs["gamma"]
        rhoL, VL, pL = L
        rhoR, VR, pR = R
        cL, cR = A.sqrt(gam * pL / rhoL), A.sqrt(gam * pR / rhoR)
        sl, sr = A.sqrt(rhoL), A.sqrt(rhoR)
        if k == "euler2d":
            unL = VL.x * dirv.x + VL.y * dirv.y
            unR = VR.x * dirv.x + VR.y * dirv.y
            keL = (VL.x * VL.x + VL.y * VL.y) / 2
            keR = (VR.x * VR.x + VR.y * VR.y) / 2
            vx = (sl * VL.x + sr * VR.x) / (sl + sr)
            vy = (sl * VL.y + sr * VR.y) / (sl + sr)
            keRoe = (vx * vx + vy * vy) / 2
        else:
            unL, unR = VL, VR
            keL, keR = VL * VL / 2, VR * VR / 2
            uu = (sl * VL + sr * VR) / (sl + sr)
            keRoe = uu * uu / 2
        HL = gam * pL / (rhoL * (gam - 1)) + keL
        HR = gam * pR / (rhoR * (gam - 1)) + keR
        uRoe = (sl * unL + sr * unR) / (sl + sr)
        HRoe = (sl * HL + sr * HR) / (sl + sr)
        cRoe = A.sqrt((gam - 1) * (HRoe - keRoe))
    if sign > 0:
        for e in (unL - cL, unR - cR, uRoe - cRoe):
            A.assume_pos(e)
    else:
        for e in (-(unL + cL), -(unR + cR), -(uRoe + cRoe)):
            A.assume_pos(e)


def _ranges(ctx, sign):
    r = ctx.alg.ranges
    lo, hi = (4.0, 9.0) if sign > 0 else (-9.0, -4.0)
    for tag in ("L", "R"):
        r["u" + tag] = (lo, hi)
        r["ux" + tag] = (lo, hi)
        r["uy" + tag] = (lo, hi)
        r["p" + tag] = (0.3, 1.2)
        r["rho" + tag] = (0.8, 3.0)
        r["h" + tag] = (0.3, 1.0)
    r["nx"] = (0.6, 1.0)
    r["ny"] = (0.6, 1.0)
    r["g"] = (1.0, 3.0)
    r["gamma"] = (1.1, 2.0)


def upwind(check, key, f):
    for sign in (+1, -1):
        side = "L" if sign > 0 else "R"
        ctx = Ctx(check.proj, key)
        A = ctx.alg
        A.start_clock()
        dirv = ctx.dir2d() if key == "euler2d" else None
        if key == "convection":
            a = A.sym("a_abs", positive=True)
            ctx.selfobj.attrs["convcoef"] = a if sign > 0 else -a
            L, R = ctx.prim("L"), ctx.prim("R")
            regime = "convection speed %s 0" % (">" if sign > 0 else "<")
        elif key == "burgers":
            uL, uR = A.sym("uLabs", positive=True), A.sym("uRabs", positive=True)
            L, R = ([uL], [uR]) if sign > 0 else ([-uL], [-uR])
            regime = "uL, uR %s 0" % (">" if sign > 0 else "<")
        else:
            L, R = ctx.prim("L"), ctx.prim("R")
            _roe_facts(ctx, L, R, dirv, sign)
            _ranges(ctx, sign)
            regime = "L, R and Roe average supercritical towards %s" % ("+x" if sign > 0 else "-x")
        F = call_flux(ctx, f, L, R, dirv)
        # HLLC: the contact-speed selector needs the stated assumption sL <= sM <= sR
        loc = ctx.interp.ev.locals.get(f.qualname, {})
        extra = ""
        if "sM" in loc and ctx.dom.is_value(loc["sM"]) and key not in ("convection", "burgers"):
            # second pass with the stated assumption on the contact speed
            ctx2 = Ctx(check.proj, key)
            A2 = ctx2.alg
            A2.start_clock()
            L2, R2 = ctx2.prim("L"), ctx2.prim("R")
            _roe_facts(ctx2, L2, R2, dirv, sign)
            _ranges(ctx2, sign)
            call_flux(ctx2, f, L2, R2, dirv)
            sM = ctx2.interp.ev.locals[f.qualname]["sM"]
            A2.assume_pos(sM if sign > 0 else -sM)
            ctx2.interp.ev.locals.clear()
            F = call_flux(ctx2, f, L2, R2, dirv)
            ctx, A, L, R = ctx2, A2, L2, R2
            extra = "; contact speed sM assumed to lie between sL and sR (stated, not derived)"
            check.assume("HLLC upwind clause: the contact speed estimate sM has the sign of the supercritical direction (sL <= sM <= sR)")
        spec = ctx.physical_flux(L if sign > 0 else R, dirv)
        for (lab, a), (_, b), cn in zip(flat(F), flat(spec), comp_names(key)):
            _decide(check, "GVN-UPWIND", f.qualname, f.loc(), A, a, b,
                    "F_%s(L,R) == f_%s(%s) when %s%s" % (cn, cn, side, regime, extra), key="upwind%+d:%s" % (sign, cn))


def body(check):
    proj = check.proj
    check.explanation = ("static analysis: every registered numerical-flux function is lowered from its AST to "
                         "value numbers in a commutative ring (sqrt bases, indicator atoms for where/min/max/abs, "
                         "hierarchical named sub-expressions); consistency, mirror symmetry and upwinding are "
                         "decided as identities for all states; refutations are witness states found by random "
                         "interpretation of the extracted value graph")
    check.trusted += ["physical-flux specification table (models.Ctx.physical_flux)", "Roe-average definition used for the regime assumptions"]
    check.assume("admissible states: rho, p, h, g > 0, gamma > 1; denominators (sR - sL etc.) non-zero")
    check.assume("measure-zero ties (sM == 0, vhalf == 0, equal wave speeds) are identified, not decided")
    reg_flux(check)
    nker = 0
    for key in KEYS:
        kernels = flux_kernels(proj, key)
        nker += len(kernels)
        results = {}
        for f, names in kernels:
            check.guarded("GVN-CONSIST", f.qualname, lambda: consistency(check, key, f, names, results), f.loc())
            check.guarded("GVN-MIRROR", f.qualname, lambda: mirror(check, key, f), f.loc())
            up = UPWIND.get(key, [])
            if any(n in up for n in names):
                check.guarded("GVN-UPWIND", f.qualname, lambda: upwind(check, key, f), f.loc())
        check.guarded("SIBLING-AGREE", key, lambda: sibling(check, key, kernels))
    check.floor("flux kernels", nker, 11)
    # units (dimensional homogeneity of each flux component)
    from ..units import check_flux_units
    check_flux_units(check, "UNIT-HOMOG")
