"""C08 — solve is pure: repeatable, unaffected by saving, monitoring or restart.

Rules: EFF-HIDDEN-STATE, EFF-SCRATCH, DISC-SCRATCH, TS-FRESH-MAIN, MON-PURE, MON-RECORD,
DRV-RESET, DRV-IT-STAMP, EFF-NONDET, EFF-DEFAULT-MUT."""
import ast

from ..affine import step_effects
from ..effects import MustDef, init_attrs, param_mutations
from ..project import AnalysisError, unparse
from .. import rk
from ..driver_rules import analyse_solve, analyse_entry_points
from .c07 import integrator_classes, report, field_deepcopy

# state allowed to survive a step, with the reason (single named symbols)
ALLOWED_HIDDEN = {
    "jacobian": "cached Jacobian: reuse is restricted to linear models by JAC-GUARD (C06), where dR/dQ is state independent",
    "jacobian_use": "cache flag of the Jacobian (same guard)",
    "neq": "dimension constants set with the Jacobian",
    "dim": "dimension constants set with the Jacobian",
}
SCRATCH = ("residual",)


def hidden_state(check):
    proj = check.proj
    classes = integrator_classes(proj)
    check.floor("integrator classes", len(classes), 15)
    for c in classes:
        q = c.qualname
        stepf = proj.resolve(c, "step")
        loc = stepf.loc()
        found = {}
        scratch_bad = []
        book = _bookkeeping(proj, c)
        book_reads = {}
        try:
            for lin in (0, 1):
                config, effs = step_effects(proj, c, lin)
                allw = set()
                for e in effs:
                    allw |= e["written"]
                for i, e in enumerate(effs):
                    for a, where in e["carried"]:
                        if a in book:
                            book_reads.setdefault(a, where)
                        if a in config and a not in allw:
                            continue          # configuration, never written by a step
                        if a in SCRATCH:
                            scratch_bad.append((a, where))
                            continue
                        found.setdefault(a, set()).add(("linear model" if lin else "nonlinear model", where))
        except AnalysisError as e:
            check.failed("EFF-HIDDEN-STATE", q, e, loc, "abstract interpretation failed")
            continue
        if book_reads:
            a, where = sorted(book_reads.items())[0]
            check.violation("EFF-RUN-COUNTER", q, "step() reads self.%s at %s, run-relative bookkeeping that reset() / _solve manage: the same state is advanced differently at iteration N of one solve and at the first iteration of a restart from that state" % (a, where), loc, key="counter-" + a)
        else:
            check.ok("EFF-RUN-COUNTER", q, "step() reads none of the driver's bookkeeping attributes (%s)" % ", ".join(sorted(book)), loc)
        if scratch_bad:
            a, where = scratch_bad[0]
            check.violation("EFF-SCRATCH", q, "self.%s is read at %s before calcrhs/solve_implicit defined it in this step: a value left by a monitor or an earlier step enters the trajectory" % (a, where), loc, key="scratch-" + a)
        else:
            check.ok("EFF-SCRATCH", q, "self.residual is (re)defined before any read on every step path", loc)
        bad = False
        for a, occ in sorted(found.items()):
            kinds = {k for k, w in occ}
            where = sorted(w for k, w in occ)[0]
            if a in ALLOWED_HIDDEN and kinds == {"linear model"}:
                continue
            if a in ALLOWED_HIDDEN:
                check.violation("EFF-HIDDEN-STATE", q, "self.%s survives between steps also on NONLINEAR models (read before written at %s): stale Jacobian" % (a, where), loc, key="hidden-nonlinear-" + a)
                bad = True
                continue
            check.violation("EFF-HIDDEN-STATE", q, "self.%s is read at %s before being written in the same step and is written by step(): state that survives a call (not reset by solve(), overwritten by snapshot side steps, absent on a fresh solver)" % (a, where), loc, key="hidden-" + a)
            bad = True
        if not bad:
            allowed = sorted(a for a in found if a in ALLOWED_HIDDEN)
            check.ok("EFF-HIDDEN-STATE", q, "no solver attribute survives a step%s" % ((" except %s on linear models (JAC-GUARD)" % allowed) if allowed else ""), loc)


def jac_cache_rounding(check):
    """the Jacobian kept on the solver object for linear operators (the exemption above) is the constant
    matrix in exact arithmetic only: when its entries are finite-difference quotients whose perturbation
    scales with the data of the field it was computed from, it carries that field's rounding -- a used
    solver, or a restart on a fresh one, is then not BIT-identical (the statement's word) to a fresh solve"""
    proj = check.proj
    from .c06 import run_jacobian
    from ..affine import JacMat, FDQuot
    c = proj.cls("integration.implicit")
    fq = proj.resolve(c, "calc_jacobian")
    ai, f, jm = run_jacobian(proj, c)
    if not isinstance(jm, JacMat) or not jm.stores:
        check.undecided("EFF-JAC-CACHE", fq.qualname, "Jacobian stores not found", fq.loc())
        return
    eps = [v.eps for (idx, v, sloc) in jm.stores if isinstance(v, FDQuot)]
    datadep = [e for e in eps if type(e).__name__ == "EpsVal" and getattr(e, "rel", 0) != 0]
    # is the matrix kept across calls at all?  (re-use path exists for linear model + linear reconstruction)
    from ..minieval import MiniEval, SelfRef, Stub
    kept = any(isinstance(n, ast.Call) and isinstance(n.func, ast.Name) and n.func.id == "hasattr" for n in ast.walk(fq.node)) or any(
        isinstance(n, ast.Attribute) and n.attr == "jacobian_use" for n in ast.walk(fq.node))
    if kept and datadep:
        check.violation("EFF-JAC-CACHE", fq.qualname, "the Jacobian re-used for linear operators is a finite-difference quotient whose perturbation is proportional to the mean |data| of the field it was computed from: exact in real arithmetic, but in floating point it keeps that field's rounding (relative 1e-8): a solver object that has solved another field before, or solve(N) + restart(M) on a fresh solver, is not bit-identical to a fresh solve(N+M)", fq.loc(), key="jac-cache-fd")
    else:
        check.ok("EFF-JAC-CACHE", fq.qualname, "no finite-difference Jacobian with a data-dependent step is kept across calls", fq.loc())


def _bookkeeping(proj, c):
    """attributes of the solver object managed by the driver: assigned in reset(), or in _solve from
    anything but a bare parameter (the CFL number `condition` is a legitimate input of a step)"""
    out = set()
    for nm in ("reset", "_solve"):
        f = proj.resolve(c, nm)
        if f is None:
            continue
        sn = f.params[0]
        for n in ast.walk(f.node):
            ts = n.targets if isinstance(n, ast.Assign) else ([n.target] if isinstance(n, ast.AugAssign) else [])
            for t in ts:
                if isinstance(t, ast.Attribute) and isinstance(t.value, ast.Name) and t.value.id == sn:
                    if nm == "_solve" and isinstance(n, ast.Assign) and isinstance(n.value, ast.Name) and n.value.id in f.params:
                        continue
                    out.add(t.attr)
    return out


def disc_scratch(check):
    proj = check.proj
    for qn in ("modeldisc.fvm1d", "modeldisc.fvm2dcart"):
        c = proj.cls(qn)
        rhs = proj.resolve(c, "rhs")
        if rhs is None:
            raise AnalysisError("%s.rhs not found" % qn)
        config = init_attrs(proj, c)
        md = MustDef(proj, c, config)
        reps = md.run(rhs)
        # a presence-tested attribute that the MEMO engine proves to be a COMPLETE cache (its re-use condition
        # determines everything it was computed from) is not a dependence on the previous call
        from .. import memo as _memo
        _f, _stats = _memo.analyse(proj, [k for k in proj.mro(c)])
        complete = {x.rsplit(".", 1)[1] for x in _stats["covered"]} - {x.attr for x in _f}
        cached = sorted({r[0] for r in reps if r[0] in complete})
        reps = [r for r in reps if r[0] not in complete]
        if cached:
            check.ok("DISC-SCRATCH", qn + ".rhs", "self.%s: lazily built, re-used only under a condition that determines all its inputs (complete cache, STATE-MEMO)" % ", self.".join(cached), rhs.loc())
        if reps:
            a, fq, ln, how = reps[0]
            check.violation("DISC-SCRATCH", qn + ".rhs", "self.%s is %s at %s:%d before rhs() wrote it in this call: the space operator depends on the previous call" % (a, "tested with hasattr" if how == "hasattr" else "read", fq, ln), rhs.loc(), key="disc-" + a)
        else:
            check.ok("DISC-SCRATCH", qn + ".rhs", "every attribute a stage reads is written earlier in the same rhs() call or at construction (%d configuration attributes)" % len(config), rhs.loc())
        # configuration must not be written by rhs
        sn = rhs.params[0]
        # (writes to config attributes inside the rhs chain)
        wr = set()

        def collect(f, depth=0):
            if depth > 6:
                return
            for n in ast.walk(f.node):
                if isinstance(n, ast.Attribute) and isinstance(n.value, ast.Name) and n.value.id == f.params[0] and isinstance(n.ctx, ast.Store):
                    wr.add((n.attr, n.lineno))
                if isinstance(n, ast.Call) and isinstance(n.func, ast.Attribute) and isinstance(n.func.value, ast.Name) and n.func.value.id == f.params[0]:
                    m = proj.resolve(c, n.func.attr)
                    if m is not None and m is not f:
                        collect(m, depth + 1)
        collect(rhs)
        cfg = {"model", "mesh", "num", "numflux", "bcL", "bcR", "_bclist", "neq", "nelem"} | {a for a, b in proj.ctor_summary(c).items() if b[0] == "param"}
        bad = sorted((a, ln) for a, ln in wr if a in cfg)
        if bad:
            check.violation("DISC-SCRATCH", qn + ".rhs", "rhs() overwrites configuration attribute self.%s (line %d)" % bad[0], rhs.loc(), key="cfg-" + bad[0][0])


def monitor_reset(check):
    """solve() starts every monitor of the dictionary it is given from an empty record: the
    function it calls to drop the previous 'output' does so for EVERY entry (a condition on the
    entry's name or type leaves the records of the others to accumulate over repeated solves);
    only a presence test of 'output' itself may guard the removal"""
    proj = check.proj
    tm = proj.cls("integration.timemodel")
    solve = proj.resolve(tm, "solve")
    sn = solve.params[0]
    cands = []
    for n in ast.walk(solve.node):
        if isinstance(n, ast.Call) and isinstance(n.func, ast.Attribute) and isinstance(n.func.value, ast.Name) and n.func.value.id == sn:
            g = proj.resolve(tm, n.func.attr)
            if g is not None:
                cands.append(g)
    cands.append(solve)

    def removals(fn):
        out = []

        def walk(stmts, guards, inloop):
            for st in stmts:
                if isinstance(st, ast.If):
                    walk(st.body, guards + [st.test], inloop)
                    walk(st.orelse, guards + [st.test], inloop)
                    continue
                if isinstance(st, (ast.For, ast.While)):
                    walk(st.body, guards, True)
                    continue
                for n in ast.walk(st):
                    is_pop = isinstance(n, ast.Call) and isinstance(n.func, ast.Attribute) and n.func.attr == "pop" and n.args and isinstance(n.args[0], ast.Constant) and n.args[0].value == "output"
                    is_del = isinstance(n, ast.Delete) and any(isinstance(t, ast.Subscript) and isinstance(t.slice, ast.Constant) and t.slice.value == "output" for t in n.targets)
                    if is_pop or is_del:
                        out.append((st.lineno, list(guards), inloop))
        walk(fn.node.body, [], False)
        return out
    found = [(g, r) for g in cands for r in removals(g)]
    if not found:
        check.violation("MON-RESET", solve.qualname, "solve() does not drop the previous 'output' of the monitors it is given: records accumulate over repeated solves", solve.loc(), key="no-reset")
        return
    for g, (ln, guards, inloop) in found:
        foreign = []
        for t in guards:
            consts = [c.value for c in ast.walk(t) if isinstance(c, ast.Constant) and isinstance(c.value, str)]
            if consts != ["output"] and not (consts == [] and False):
                foreign.append(unparse(t)[:70])
        if foreign:
            check.violation("MON-RESET", g.qualname, "the previous 'output' of a monitor is dropped only when `%s`: entries for which the condition fails (a monitor under a custom key with a 'type' entry) keep their records, which accumulate over repeated solves" % foreign[0], "%s:%d" % (g.module.relpath, ln), key="conditional-reset")
        elif not inloop:
            check.violation("MON-RESET", g.qualname, "the 'output' removal is not inside a loop over the monitor dictionary", "%s:%d" % (g.module.relpath, ln), key="no-loop")
        else:
            check.ok("MON-RESET", g.qualname, "every entry of the monitor dictionary loses its previous 'output' before the run (guarded at most by the presence of 'output')", "%s:%d" % (g.module.relpath, ln))


def monitor_store(check):
    """MON-STORE: monitor.append(it, time, value) keeps EVERY record it is given: each of its three parameters is
    appended to a list of the monitor on every path -- no condition, no early return (a guard against "duplicates"
    silently drops the records of a restart that starts from an earlier iteration)"""
    proj = check.proj
    if not proj.has_cls("monitors.monitor"):
        raise AnalysisError("monitors.monitor not found")
    c = proj.cls("monitors.monitor")
    f = proj.resolve(c, "append")
    if f is None:
        raise AnalysisError("monitors.monitor.append not found")
    params = f.params[1:4]

    def is_store(st):
        return isinstance(st, ast.Expr) and isinstance(st.value, ast.Call) and isinstance(st.value.func, ast.Attribute) and st.value.func.attr == "append" \
            and len(st.value.args) == 1 and isinstance(st.value.args[0], ast.Name) and st.value.args[0].id in params and not st.value.keywords

    def has_store(stmts):
        return any(is_store(n) for st in stmts for n in ast.walk(st) if isinstance(n, ast.Expr))

    def block(stmts, stored):
        """the parameters stored on EVERY path through the statements that reaches their end; (line, kind) of a silent exit taken
        before all of them are stored"""
        stored = set(stored)
        for st in stmts:
            if is_store(st):
                stored.add(st.value.args[0].id)
            elif isinstance(st, ast.If):
                s1, e1 = block(st.body, stored)
                s2, e2 = block(st.orelse, stored)
                if e1 or e2:
                    return stored, e1 or e2
                stored = (s1 if s1 is not None else s2) if (s1 is None or s2 is None) else (s1 & s2)
                if stored is None:
                    return None, None
            elif isinstance(st, ast.Return):
                if len(stored) < len(params):
                    return stored, (st.lineno, "return")
                return None, None
            elif isinstance(st, ast.Raise):
                return None, None           # a loud refusal, not a dropped record
            elif isinstance(st, (ast.For, ast.While, ast.Try, ast.With)) and (has_store([st]) or any(isinstance(n, ast.Return) for n in ast.walk(st))):
                raise AnalysisError("monitor.append stores or returns inside a `%s` statement at line %d: not decided" % (type(st).__name__.lower(), st.lineno))
            elif any(isinstance(n, ast.Name) and isinstance(n.ctx, ast.Store) and n.id in params for n in ast.walk(st)):
                raise AnalysisError("monitor.append rebinds a parameter at line %d: not decided" % st.lineno)
        return stored, None

    stored, silent = block(f.node.body, set())
    if silent:
        check.violation("MON-STORE", f.qualname, "a path through append() leaves by `%s` (line %d) before the record is stored: some records handed to the monitor are silently not kept (a guard on the iteration number drops every record of a restart from an earlier iteration than the last one recorded)" % (silent[1], silent[0]), "%s:%d" % (f.module.relpath, silent[0]), key="conditional-store")
    elif stored is not None and len(params) == 3 and stored == set(params):
        check.ok("MON-STORE", f.qualname, "the iteration, the time and the value are appended on every path that returns", f.loc())
    else:
        check.violation("MON-STORE", f.qualname, "append() does not store all of %s on every path (stored on all paths: %s)" % (params, sorted(stored or ())), f.loc(), key="partial-store")


def monitor_dispatch(check):
    """MON-DISPATCH: _parse_monitors hands EVERY entry of the monitor dictionary to its function at every
    iteration -- the loop over the dictionary has no exit that depends on one entry (break / return): a
    monitor that is not due must not end the dispatch of those after it"""
    proj = check.proj
    tm = proj.cls("integration.timemodel")
    f = proj.resolve(tm, "_parse_monitors")
    if f is None:
        raise AnalysisError("_parse_monitors not found")
    mparam = f.params[1] if len(f.params) > 1 else None
    loops = [n for n in ast.walk(f.node) if isinstance(n, ast.For) and any(isinstance(x, ast.Name) and x.id == mparam for x in ast.walk(n.iter))]
    if len(loops) != 1:
        check.undecided("MON-DISPATCH", f.qualname, "%d loops over the monitor dictionary (expected 1)" % len(loops), f.loc())
        return
    lp = loops[0]
    exits = []

    def scan(stmts, inner):
        for st in stmts:
            if isinstance(st, (ast.Break,)) and not inner:
                exits.append((st.lineno, "break"))
            elif isinstance(st, ast.Return):
                exits.append((st.lineno, "return"))
            elif isinstance(st, (ast.For, ast.While)):
                scan(st.body, True)
                scan(st.orelse, inner)
            elif isinstance(st, ast.If):
                scan(st.body, inner)
                scan(st.orelse, inner)
            elif isinstance(st, (ast.With, ast.Try)):
                scan(st.body, inner)
                for h in getattr(st, "handlers", []):
                    scan(h.body, inner)
    scan(lp.body, False)
    # the dispatch call: self._monitordict[...](entry) -- present in the loop
    # (directly, or through a local bound in the loop to the looked-up function)
    from_reg = lambda e: any(isinstance(x, ast.Attribute) and x.attr == "_monitordict" for x in ast.walk(e))
    bound = {t.id for n in ast.walk(lp) if isinstance(n, ast.Assign) and from_reg(n.value) and isinstance(n.value, (ast.Subscript, ast.Call)) for t in n.targets if isinstance(t, ast.Name)}
    disp = [n for n in ast.walk(lp) if isinstance(n, ast.Call) and ((isinstance(n.func, (ast.Subscript, ast.Call)) and from_reg(n.func))
                                                                     or (isinstance(n.func, ast.Name) and n.func.id in bound))]
    if not disp:
        check.violation("MON-DISPATCH", f.qualname, "no call of the registered monitor function inside the loop over the monitor dictionary", f.loc(), key="no-dispatch")
    elif exits:
        ln, kind = exits[0]
        check.violation("MON-DISPATCH", f.qualname, "the loop over the monitor dictionary is left by `%s` (line %d): a monitor that is not due (or any per-entry condition) ends the dispatch, the monitors after it in dictionary order are not evaluated at this iteration" % (kind, ln), "%s:%d" % (f.module.relpath, ln), key="loop-exit")
    else:
        check.ok("MON-DISPATCH", f.qualname, "every entry of the monitor dictionary reaches its registered function: the loop has no break / return", f.loc())


def monitors(check):
    monitor_reset(check)
    monitor_dispatch(check)
    check.guarded("MON-STORE", "monitors.monitor.append", lambda: monitor_store(check))
    proj = check.proj
    tm = proj.cls("integration.timemodel")
    init = proj.resolve(tm, "__init__")
    # functions registered in _monitordict
    funcs = []
    for n in ast.walk(init.node):
        if isinstance(n, ast.Assign) and any(isinstance(t, ast.Attribute) and t.attr == "_monitordict" for t in n.targets) and isinstance(n.value, ast.Dict):
            for k, v in zip(n.value.keys, n.value.values):
                if isinstance(v, ast.Attribute) and isinstance(k, ast.Constant):
                    f = proj.resolve(tm, v.attr)
                    if f is not None:
                        funcs.append((k.value, f))
    check.floor("monitor functions", len(funcs), 2)
    # MON-PURE by effect summaries (alias.py): a monitor may change its own parameter dictionary (the
    # output it hands back), the scratch residual and the scratch of the discretisation (rewritten by
    # every rhs() before it is read: DISC-SCRATCH); it must not change the state self.Qn nor the
    # driver's bookkeeping, directly or through anything it calls
    from ..common_rules import alias_analysis
    an = alias_analysis(proj)
    book = _bookkeeping(proj, tm) - {"residual"}
    for key, f in funcs:
        sn = f.params[0]
        problems = []
        for o, (ln, text, via, kind) in sorted(an.summ[f.qualname].mut.items()):
            if not o.startswith("S:"):
                continue
            root = o[2:].split(".")[0].split("[")[0]
            if root == "Qn" or root in book:
                problems.append("changes self.%s (`%s`, line %d%s)" % (o[2:], text[:50], ln, (", through %s" % via) if via else ""))
        if problems:
            check.violation("MON-PURE", f.qualname, "monitor '%s' %s: monitoring can perturb the trajectory" % (key, "; ".join(problems[:3])), f.loc(), key="impure")
        else:
            check.ok("MON-PURE", f.qualname, "monitor '%s' changes only its own output dictionary and scratch arrays; the state self.Qn and the driver's bookkeeping (%s) are not changed by it or by anything it calls" % (key, ", ".join(sorted(book))), f.loc())
        # MON-RECORD: the record is (cumulative iteration, current time, value computed from self.Qn),
        # appended exactly when the cumulative iteration is a multiple of the monitor's frequency.
        # Decided on expressions with locals expanded and self-methods with a single return inlined,
        # so keyword / positional arguments, a local holding the count, an early return instead of a
        # nested if, or `_itstart + _nit` written out are all the same thing.
        rec_ok, why = _mon_record(proj, tm, f)
        if rec_ok:
            check.ok("MON-RECORD", f.qualname, "records (cumulative iteration, current time, value from Qn) exactly when the cumulative iteration is a multiple of the frequency", f.loc())
        else:
            check.violation("MON-RECORD", f.qualname, "monitor '%s': %s" % (key, why), f.loc(), key="record")


def _mon_record(proj, tm, f):
    from ..memo import MethodCtx
    sn = f.params[0]
    ctx = MethodCtx(proj, f, set())

    def lin(e, depth=0):
        """{attr: coef} linear form over attributes of self (+ '' constant), or None"""
        e = ctx.expand1(e)
        if isinstance(e, ast.Constant) and isinstance(e.value, (int, float)) and not isinstance(e.value, bool):
            return {"": e.value} if e.value else {}
        if isinstance(e, ast.Attribute) and isinstance(e.value, ast.Name) and e.value.id == sn:
            return {e.attr: 1}
        if isinstance(e, ast.Attribute) and isinstance(e.value, ast.Attribute) and isinstance(e.value.value, ast.Name) and e.value.value.id == sn:
            return {"%s.%s" % (e.value.attr, e.attr): 1}
        if isinstance(e, ast.Call) and isinstance(e.func, ast.Attribute) and isinstance(e.func.value, ast.Name) and e.func.value.id == sn and not e.args and depth < 3:
            m = proj.resolve(tm, e.func.attr)
            if m is not None:
                rets = [st for st in m.node.body if not (isinstance(st, ast.Expr) and isinstance(st.value, ast.Constant))]
                if len(rets) == 1 and isinstance(rets[0], ast.Return) and rets[0].value is not None:
                    # the callee's self is this self
                    sub = ast.parse(ast.unparse(rets[0].value).replace(m.params[0] + ".", sn + "."), mode="eval").body
                    return lin(sub, depth + 1)
            return None
        if isinstance(e, ast.BinOp) and isinstance(e.op, (ast.Add, ast.Sub)):
            a, b = lin(e.left, depth), lin(e.right, depth)
            if a is None or b is None:
                return None
            out = dict(a)
            for k2, v2 in b.items():
                out[k2] = out.get(k2, 0) + (v2 if isinstance(e.op, ast.Add) else -v2)
            return {k2: v2 for k2, v2 in out.items() if v2}
        return None
    cumul = lin(ast.parse("%s.totnit()" % sn, mode="eval").body)
    if cumul is None:
        cumul = {"_itstart": 1, "_nit": 1}
    apps = [n for n in ast.walk(f.node) if isinstance(n, ast.Call) and isinstance(n.func, ast.Attribute) and n.func.attr == "append"
            and not (isinstance(n.func.value, ast.Attribute) and isinstance(n.func.value.value, ast.Name) and n.func.value.value.id == sn)]
    if len(apps) != 1:
        return False, "%d record calls (expected 1)" % len(apps)
    ap = apps[0]
    mon = proj.cls("monitors.monitor") if proj.has_cls("monitors.monitor") else None
    names = ["it", "time", "value"]
    if mon is not None and proj.resolve(mon, "append") is not None:
        names = proj.resolve(mon, "append").params[1:]
    argv = dict(zip(names, ap.args))
    for k2 in ap.keywords:
        if k2.arg:
            argv[k2.arg] = k2.value
    if len(names) < 3 or any(nm not in argv for nm in names[:3]):
        return False, "record call does not pass iteration, time and value"
    if lin(argv[names[0]]) != cumul:
        return False, "records it=%s, expected the cumulative iteration count (%s)" % (unparse(argv[names[0]]), " + ".join(sorted(cumul)))
    lt = lin(argv[names[1]])
    if lt not in ({"_time": 1}, {"Qn.time": 1}):
        return False, "records time=%s, expected the current time of the run (self._time / self.Qn.time)" % unparse(argv[names[1]])
    vexp = ctx.expand1(argv[names[2]])
    if not any(isinstance(n, ast.Attribute) and n.attr in ("Qn", "residual") for n in ast.walk(vexp)):
        return False, "value is not computed from the current state self.Qn"
    # path condition of the record
    def is_mod(t):
        return isinstance(t, ast.BinOp) and isinstance(t.op, ast.Mod) and lin(t.left) == cumul and "frequency" in unparse(ctx.expand1(t.right))

    def inline_helpers(t, depth=0):
        """self.helper(args) whose body is a single `return E`  ->  E with the parameters replaced by the arguments"""
        if depth > 3:
            return t

        class _Inl(ast.NodeTransformer):
            def visit_Call(self, n):
                self.generic_visit(n)
                if isinstance(n.func, ast.Attribute) and isinstance(n.func.value, ast.Name) and n.func.value.id == sn and not n.keywords:
                    m = proj.resolve(tm, n.func.attr)
                    if m is not None and not m.is_static:
                        body = [st for st in m.node.body if not (isinstance(st, ast.Expr) and isinstance(st.value, ast.Constant))]
                        if len(body) == 1 and isinstance(body[0], ast.Return) and body[0].value is not None and len(n.args) == len(m.params) - 1:
                            sub_ = dict(zip(m.params[1:], n.args))
                            sub_[m.params[0]] = ast.Name(id=sn, ctx=ast.Load())

                            class _Sub(ast.NodeTransformer):
                                def visit_Name(self, x):
                                    return sub_.get(x.id, x) if isinstance(x.ctx, ast.Load) else x
                            import copy
                            return inline_helpers(ast.fix_missing_locations(_Sub().visit(copy.deepcopy(body[0].value))), depth + 1)
                        # several statements / paths that all return the same expression of the arguments
                        from ..inline import as_expression
                        r_ = as_expression(proj, m, list(n.args), ast.Name(id=sn, ctx=ast.Load()), tm)
                        if r_ is not None:
                            return inline_helpers(r_, depth + 1)
                return n
        import copy
        return _Inl().visit(copy.deepcopy(t))

    def implies_multiple(t, taken):
        """does (t is `taken`) imply  count % frequency == 0 ?"""
        t = inline_helpers(ctx.expand1(t))
        if isinstance(t, ast.UnaryOp) and isinstance(t.op, ast.Not):
            return implies_multiple(t.operand, not taken)
        if is_mod(t):
            return not taken                      # `if count % f:` is true for NON-multiples
        if isinstance(t, ast.Compare) and len(t.ops) == 1 and is_mod(t.left) and isinstance(t.comparators[0], ast.Constant) and t.comparators[0].value == 0:
            if isinstance(t.ops[0], ast.Eq):
                return taken
            if isinstance(t.ops[0], ast.NotEq):
                return not taken
        return False

    def mentions_mod(t):
        return any(is_mod(x) for x in ast.walk(inline_helpers(ctx.expand1(t))))
    found = [False]
    wrong = [None]

    dominating = []     # statements executed on every path that reaches the record, before it

    def walk(stmts, conds):
        conds = list(conds)
        for st in stmts:
            if not any(ap is x for x in ast.walk(st)) and not isinstance(st, (ast.If, ast.For, ast.While, ast.Try, ast.With)):
                dominating.append(st)
            if any(ap is x for x in ast.walk(st)) and not isinstance(st, ast.If):
                if any(implies_multiple(t, taken) for t, taken in conds):
                    found[0] = True
                for t, taken in conds:
                    if mentions_mod(t) and not implies_multiple(t, taken):
                        wrong[0] = unparse(t)
                return True
            if isinstance(st, ast.If):
                has_ap = any(ap is x for x in ast.walk(st))
                if has_ap and (walk(st.body, conds + [(st.test, True)]) or walk(st.orelse, conds + [(st.test, False)])):
                    return True
                # early exit: the rest of the block runs only when the test failed
                if st.body and isinstance(st.body[-1], (ast.Return, ast.Raise)) and not st.orelse:
                    conds.append((st.test, False))
            elif isinstance(st, (ast.For, ast.While, ast.With)):
                if walk(st.body, conds):
                    return True
        return False
    walk(f.node.body, [])
    # a recorded value that reads self.residual needs the residual OF THE CURRENT STATE: a call
    # self.calcrhs(self.Qn) on every path to the record (not under a further condition)
    if any(isinstance(n, ast.Attribute) and n.attr == "residual" for n in ast.walk(vexp)):
        fresh = False
        for st in dominating:
            for n in ast.walk(st):
                if isinstance(n, ast.Call) and isinstance(n.func, ast.Attribute) and n.func.attr == "calcrhs" and len(n.args) == 1 and isinstance(n.args[0], ast.Attribute) and n.args[0].attr == "Qn":
                    fresh = True
        if not fresh:
            return False, "the recorded value reads self.residual, but self.calcrhs(self.Qn) is not executed on every path to the record: the value is the residual left by the last step (of the previous state, or the solved increment of an implicit step), stamped with the new iteration and time"
    if not found[0]:
        return False, ("the record is made when `%s` holds, which is not `cumulative iteration %% frequency == 0`" % wrong[0]) if wrong[0] else "the record is not conditional on cumulative iteration % frequency == 0"
    return True, ""


def nondet(check):
    proj = check.proj
    bad = []
    clock_uses = []
    for mod in proj.modules.values():
        if mod.tail in ("monitors",) or mod.short.startswith("solution"):
            continue
        for n in ast.walk(mod.tree):
            if isinstance(n, ast.Attribute):
                txt = unparse(n)
                if txt.startswith("np.random") or txt.startswith("numpy.random") or txt.startswith("random.") or txt in ("time.time", "time.perf_counter", "time.process_time", "time.clock", "os.urandom"):
                    if not (mod.tail == "integration" and txt == "time.process_time"):
                        bad.append("%s:%d %s" % (mod.relpath, n.lineno, txt))
            if isinstance(n, ast.Call) and isinstance(n.func, ast.Name) and n.func.id == "myclock":
                clock_uses.append((mod, n))
    # taint analysis: values derived from the clock may only flow into other clock-tainted
    # locals and into self._cputime
    integ = proj.module("integration")
    for fn in proj.all_functions():
        if fn.module is not integ:
            continue
        tainted = set()
        changed = True
        while changed:
            changed = False
            for n in ast.walk(fn.node):
                if isinstance(n, ast.Assign):
                    src = any((isinstance(x, ast.Call) and isinstance(x.func, ast.Name) and x.func.id == "myclock") or (isinstance(x, ast.Name) and x.id in tainted) for x in ast.walk(n.value))
                    if src:
                        for t in n.targets:
                            if isinstance(t, ast.Name) and t.id not in tainted:
                                tainted.add(t.id)
                                changed = True
        if not tainted and not any(isinstance(x, ast.Call) and isinstance(x.func, ast.Name) and x.func.id == "myclock" for x in ast.walk(fn.node)):
            continue
        for n in ast.walk(fn.node):
            if isinstance(n, ast.Assign):
                src = any((isinstance(x, ast.Call) and isinstance(x.func, ast.Name) and x.func.id == "myclock") or (isinstance(x, ast.Name) and x.id in tainted) for x in ast.walk(n.value))
                if src:
                    for t in n.targets:
                        if not (isinstance(t, ast.Name) or (isinstance(t, ast.Attribute) and t.attr == "_cputime")):
                            bad.append("%s:%d clock value flows into %s" % (integ.relpath, n.lineno, unparse(t)))
            elif isinstance(n, (ast.Call, ast.Compare, ast.If, ast.While, ast.Return, ast.AugAssign)):
                parts = []
                if isinstance(n, ast.Call) and not (isinstance(n.func, ast.Name) and n.func.id in ("print", "myclock")):
                    parts = n.args + [k.value for k in n.keywords]
                elif isinstance(n, ast.Compare):
                    parts = [n.left] + n.comparators
                elif isinstance(n, (ast.If, ast.While)):
                    parts = [n.test]
                elif isinstance(n, ast.Return) and n.value is not None:
                    parts = [n.value]
                elif isinstance(n, ast.AugAssign):
                    parts = [n.value]
                for prt in parts:
                    if any(isinstance(x, ast.Name) and x.id in tainted for x in ast.walk(prt)):
                        bad.append("%s:%d clock-derived value used in %s" % (integ.relpath, n.lineno, type(n).__name__))
    if bad:
        check.violation("EFF-NONDET", "flowdyn", "non-deterministic source on the numeric path: %s" % "; ".join(bad[:3]), key="nondet")
    else:
        check.ok("EFF-NONDET", "flowdyn", "no random source; the clock flows only into _cputime (%d uses)" % len(clock_uses))


def default_mut(check):
    proj = check.proj
    n = 0
    for f in proj.all_functions():
        for pn, d in f.defaults().items():
            if isinstance(d, (ast.Dict, ast.List, ast.Set)) or (isinstance(d, ast.Name) and d.id.startswith("_default")):
                n += 1
                muts = param_mutations(f, pn)
                if muts:
                    check.violation("EFF-DEFAULT-MUT", f.qualname, "mutable default argument %s is mutated (%s): state shared between calls" % (pn, muts[0][1]), f.loc(), key="mut-" + pn)
                else:
                    check.ok("EFF-DEFAULT-MUT", "%s(%s)" % (f.qualname, pn), "mutable default is never stored into", f.loc(), nontrivial=False)
    check.inventory["mutable defaults"] = n


def body(check):
    proj = check.proj
    check.explanation = ("static analysis: effect/typestate analyses — attributes of the solver object read before written in "
                         "step() (abstract execution of three consecutive steps, linear and nonlinear models), must-write "
                         "analysis of the discretisation's rhs(), fresh-copy typestate and iteration stamps from the "
                         "abstract interpretation of _solve/solve/restart, purity and record format of the monitor functions, "
                         "non-deterministic sources, mutable defaults")
    check.assume("numpy/BLAS are deterministic; user callables (sources, section laws) are pure")
    hidden_state(check)
    check.guarded("EFF-JAC-CACHE", "integration.implicitmodel.calc_jacobian", lambda: jac_cache_rounding(check))
    # the exemption of the Jacobian attributes on linear operators (EFF-HIDDEN-STATE) is only as good as the
    # guard that decides "linear": its two halves (C06's rules) are obligations of this property too
    from . import c06
    check.guarded("JAC-GUARD", "integration.implicitmodel.calc_jacobian", lambda: c06.jac_guard(check, check.proj))
    check.guarded("DISC-SCRATCH", "modeldisc", lambda: disc_scratch(check))
    check.guarded("MON-PURE", "integration.timemodel", lambda: monitors(check))
    check.guarded("EFF-NONDET", "flowdyn", lambda: nondet(check))
    check.guarded("EFF-DEFAULT-MUT", "flowdyn", lambda: default_mut(check))
    res, info = analyse_solve(proj)
    analyse_entry_points(proj, res)
    # "solving N iterations then restarting for M more": the iteration limit of a run counts THAT run's iterations (a criterion
    # that counts the restart offset stops the restart after M - N iterations, or at once) -- same obligation as C07 DRV-STOP
    from ..driver_rules import analyse_check_end
    analyse_check_end(proj, res)
    check.inventory.update(info)
    report(check, res, ("DRV-STOP", "TS-FRESH-MAIN", "DRV-SNAPSHOT", "DRV-IT-STAMP", "DRV-RESET", "DRV-FORWARD", "DRV-COUNT", "DRV-DT-MIN", "DRV-CALLER-PURE"))
    # restart continues from f.it: copies must carry the iteration tag
    check.guarded("FIELD-DEEPCOPY", "field.fdata", lambda: field_deepcopy(check))
