"""C08 — solve is pure: repeatable, unaffected by saving, monitoring or restart.

Rules: EFF-HIDDEN-STATE, EFF-SCRATCH, DISC-SCRATCH, TS-FRESH-MAIN, MON-PURE, MON-RECORD,
DRV-RESET, DRV-IT-STAMP, EFF-NONDET, EFF-DEFAULT-MUT."""
import ast

from ..affine import step_effects
from ..effects import MustDef, init_attrs, param_mutations
from ..project import AnalysisError, unparse
from .. import rk
from ..driver_rules import analyse_solve, analyse_entry_points
from .c07 import integrator_classes, report, field_deepcopy

# state allowed to survive a step, with the reason (single named symbols)
ALLOWED_HIDDEN = {
    "jacobian": "cached Jacobian: reuse is restricted to linear models by JAC-GUARD (C06), where dR/dQ is state independent",
    "jacobian_use": "cache flag of the Jacobian (same guard)",
    "neq": "dimension constants set with the Jacobian",
    "dim": "dimension constants set with the Jacobian",
}
SCRATCH = ("residual",)


def hidden_state(check):
    proj = check.proj
    classes = integrator_classes(proj)
    check.floor("integrator classes", len(classes), 15)
    for c in classes:
        q = c.qualname
        stepf = proj.resolve(c, "step")
        loc = stepf.loc()
        found = {}
        scratch_bad = []
        book = _bookkeeping(proj, c)
        book_reads = {}
        try:
            for lin in (0, 1):
                config, effs = step_effects(proj, c, lin)
                allw = set()
                for e in effs:
                    allw |= e["written"]
                for i, e in enumerate(effs):
                    for a, where in e["carried"]:
                        if a in book:
                            book_reads.setdefault(a, where)
                        if a in config and a not in allw:
                            continue          # configuration, never written by a step
                        if a in SCRATCH:
                            scratch_bad.append((a, where))
                            continue
                        found.setdefault(a, set()).add(("linear model" if lin else "nonlinear model", where))
        except AnalysisError as e:
            check.undecided("EFF-HIDDEN-STATE", q, "abstract interpretation failed: %s" % e, loc)
            continue
        if book_reads:
            a, where = sorted(book_reads.items())[0]
            check.violation("EFF-RUN-COUNTER", q, "step() reads self.%s at %s, run-relative bookkeeping that reset() / _solve manage: the same state is advanced differently at iteration N of one solve and at the first iteration of a restart from that state" % (a, where), loc, key="counter-" + a)
        else:
            check.ok("EFF-RUN-COUNTER", q, "step() reads none of the driver's bookkeeping attributes (%s)" % ", ".join(sorted(book)), loc)
        if scratch_bad:
            a, where = scratch_bad[0]
            check.violation("EFF-SCRATCH", q, "self.%s is read at %s before calcrhs/solve_implicit defined it in this step: a value left by a monitor or an earlier step enters the trajectory" % (a, where), loc, key="scratch-" + a)
        else:
            check.ok("EFF-SCRATCH", q, "self.residual is (re)defined before any read on every step path", loc)
        bad = False
        for a, occ in sorted(found.items()):
            kinds = {k for k, w in occ}
            where = sorted(w for k, w in occ)[0]
            if a in ALLOWED_HIDDEN and kinds == {"linear model"}:
                continue
            if a in ALLOWED_HIDDEN:
                check.violation("EFF-HIDDEN-STATE", q, "self.%s survives between steps also on NONLINEAR models (read before written at %s): stale Jacobian" % (a, where), loc, key="hidden-nonlinear-" + a)
                bad = True
                continue
            check.violation("EFF-HIDDEN-STATE", q, "self.%s is read at %s before being written in the same step and is written by step(): state that survives a call (not reset by solve(), overwritten by snapshot side steps, absent on a fresh solver)" % (a, where), loc, key="hidden-" + a)
            bad = True
        if not bad:
            allowed = sorted(a for a in found if a in ALLOWED_HIDDEN)
            check.ok("EFF-HIDDEN-STATE", q, "no solver attribute survives a step%s" % ((" except %s on linear models (JAC-GUARD)" % allowed) if allowed else ""), loc)


def _bookkeeping(proj, c):
    """attributes of the solver object managed by the driver: assigned in reset(), or in _solve from
    anything but a bare parameter (the CFL number `condition` is a legitimate input of a step)"""
    out = set()
    for nm in ("reset", "_solve"):
        f = proj.resolve(c, nm)
        if f is None:
            continue
        sn = f.params[0]
        for n in ast.walk(f.node):
            ts = n.targets if isinstance(n, ast.Assign) else ([n.target] if isinstance(n, ast.AugAssign) else [])
            for t in ts:
                if isinstance(t, ast.Attribute) and isinstance(t.value, ast.Name) and t.value.id == sn:
                    if nm == "_solve" and isinstance(n, ast.Assign) and isinstance(n.value, ast.Name) and n.value.id in f.params:
                        continue
                    out.add(t.attr)
    return out


def disc_scratch(check):
    proj = check.proj
    for qn in ("modeldisc.fvm1d", "modeldisc.fvm2dcart"):
        c = proj.cls(qn)
        rhs = proj.resolve(c, "rhs")
        if rhs is None:
            raise AnalysisError("%s.rhs not found" % qn)
        config = init_attrs(proj, c)
        md = MustDef(proj, c, config)
        reps = md.run(rhs)
        if reps:
            a, fq, ln, how = reps[0]
            check.violation("DISC-SCRATCH", qn + ".rhs", "self.%s is %s at %s:%d before rhs() wrote it in this call: the space operator depends on the previous call" % (a, "tested with hasattr" if how == "hasattr" else "read", fq, ln), rhs.loc(), key="disc-" + a)
        else:
            check.ok("DISC-SCRATCH", qn + ".rhs", "every attribute a stage reads is written earlier in the same rhs() call or at construction (%d configuration attributes)" % len(config), rhs.loc())
        # configuration must not be written by rhs
        sn = rhs.params[0]
        # (writes to config attributes inside the rhs chain)
        wr = set()

        def collect(f, depth=0):
            if depth > 6:
                return
            for n in ast.walk(f.node):
                if isinstance(n, ast.Attribute) and isinstance(n.value, ast.Name) and n.value.id == f.params[0] and isinstance(n.ctx, ast.Store):
                    wr.add((n.attr, n.lineno))
                if isinstance(n, ast.Call) and isinstance(n.func, ast.Attribute) and isinstance(n.func.value, ast.Name) and n.func.value.id == f.params[0]:
                    m = proj.resolve(c, n.func.attr)
                    if m is not None and m is not f:
                        collect(m, depth + 1)
        collect(rhs)
        bad = sorted((a, ln) for a, ln in wr if a in ("model", "mesh", "num", "numflux", "bcL", "bcR", "_bclist", "neq", "nelem"))
        if bad:
            check.violation("DISC-SCRATCH", qn + ".rhs", "rhs() overwrites configuration attribute self.%s (line %d)" % bad[0], rhs.loc(), key="cfg-" + bad[0][0])


def monitor_reset(check):
    """solve() starts every monitor of the dictionary it is given from an empty record: the
    function it calls to drop the previous 'output' does so for EVERY entry (a condition on the
    entry's name or type leaves the records of the others to accumulate over repeated solves);
    only a presence test of 'output' itself may guard the removal"""
    proj = check.proj
    tm = proj.cls("integration.timemodel")
    solve = proj.resolve(tm, "solve")
    sn = solve.params[0]
    cands = []
    for n in ast.walk(solve.node):
        if isinstance(n, ast.Call) and isinstance(n.func, ast.Attribute) and isinstance(n.func.value, ast.Name) and n.func.value.id == sn:
            g = proj.resolve(tm, n.func.attr)
            if g is not None:
                cands.append(g)
    cands.append(solve)

    def removals(fn):
        out = []

        def walk(stmts, guards, inloop):
            for st in stmts:
                if isinstance(st, ast.If):
                    walk(st.body, guards + [st.test], inloop)
                    walk(st.orelse, guards + [st.test], inloop)
                    continue
                if isinstance(st, (ast.For, ast.While)):
                    walk(st.body, guards, True)
                    continue
                for n in ast.walk(st):
                    is_pop = isinstance(n, ast.Call) and isinstance(n.func, ast.Attribute) and n.func.attr == "pop" and n.args and isinstance(n.args[0], ast.Constant) and n.args[0].value == "output"
                    is_del = isinstance(n, ast.Delete) and any(isinstance(t, ast.Subscript) and isinstance(t.slice, ast.Constant) and t.slice.value == "output" for t in n.targets)
                    if is_pop or is_del:
                        out.append((st.lineno, list(guards), inloop))
        walk(fn.node.body, [], False)
        return out
    found = [(g, r) for g in cands for r in removals(g)]
    if not found:
        check.violation("MON-RESET", solve.qualname, "solve() does not drop the previous 'output' of the monitors it is given: records accumulate over repeated solves", solve.loc(), key="no-reset")
        return
    for g, (ln, guards, inloop) in found:
        foreign = []
        for t in guards:
            consts = [c.value for c in ast.walk(t) if isinstance(c, ast.Constant) and isinstance(c.value, str)]
            if consts != ["output"] and not (consts == [] and False):
                foreign.append(unparse(t)[:70])
        if foreign:
            check.violation("MON-RESET", g.qualname, "the previous 'output' of a monitor is dropped only when `%s`: entries for which the condition fails (a monitor under a custom key with a 'type' entry) keep their records, which accumulate over repeated solves" % foreign[0], "%s:%d" % (g.module.relpath, ln), key="conditional-reset")
        elif not inloop:
            check.violation("MON-RESET", g.qualname, "the 'output' removal is not inside a loop over the monitor dictionary", "%s:%d" % (g.module.relpath, ln), key="no-loop")
        else:
            check.ok("MON-RESET", g.qualname, "every entry of the monitor dictionary loses its previous 'output' before the run (guarded at most by the presence of 'output')", "%s:%d" % (g.module.relpath, ln))


def monitors(check):
    monitor_reset(check)
    proj = check.proj
    tm = proj.cls("integration.timemodel")
    init = proj.resolve(tm, "__init__")
    # functions registered in _monitordict
    funcs = []
    for n in ast.walk(init.node):
        if isinstance(n, ast.Assign) and any(isinstance(t, ast.Attribute) and t.attr == "_monitordict" for t in n.targets) and isinstance(n.value, ast.Dict):
            for k, v in zip(n.value.keys, n.value.values):
                if isinstance(v, ast.Attribute) and isinstance(k, ast.Constant):
                    f = proj.resolve(tm, v.attr)
                    if f is not None:
                        funcs.append((k.value, f))
    check.floor("monitor functions", len(funcs), 2)
    RO_FIELD = {"average", "phydata", "stats", "isnan", "copy"}
    RO_SELF = {"totnit", "nit", "calcrhs", "cputime"}
    RO_DISC = {"all_L2average", "average"}
    for key, f in funcs:
        sn = f.params[0]
        pn = f.params[1] if len(f.params) > 1 else "params"
        problems = []
        for n in ast.walk(f.node):
            if isinstance(n, (ast.Assign, ast.AugAssign)):
                ts = n.targets if isinstance(n, ast.Assign) else [n.target]
                for t in ts:
                    for sub in ast.walk(t):
                        if isinstance(sub, ast.Attribute) and isinstance(sub.value, ast.Name) and sub.value.id == sn:
                            problems.append("stores self.%s (line %d)" % (sub.attr, n.lineno))
                        if isinstance(sub, ast.Attribute) and isinstance(sub.value, ast.Attribute) and sub.value.attr == "Qn":
                            problems.append("stores into self.Qn.%s (line %d)" % (sub.attr, n.lineno))
            if isinstance(n, ast.Call) and isinstance(n.func, ast.Attribute):
                v = n.func.value
                if isinstance(v, ast.Name) and v.id == sn and n.func.attr not in RO_SELF:
                    problems.append("calls self.%s() (line %d)" % (n.func.attr, n.lineno))
                if isinstance(v, ast.Attribute) and v.attr == "Qn" and n.func.attr not in RO_FIELD:
                    problems.append("calls self.Qn.%s() (line %d)" % (n.func.attr, n.lineno))
                if isinstance(v, ast.Attribute) and v.attr == "modeldisc" and n.func.attr not in RO_DISC:
                    problems.append("calls self.modeldisc.%s() (line %d)" % (n.func.attr, n.lineno))
                # self.Qn passed to something that may modify it
                for a in n.args:
                    if isinstance(a, ast.Attribute) and a.attr == "Qn" and not (isinstance(v, ast.Name) and v.id == sn and n.func.attr == "calcrhs"):
                        problems.append("passes self.Qn to %s (line %d)" % (unparse(n.func), n.lineno))
        if problems:
            check.violation("MON-PURE", f.qualname, "monitor '%s' %s: monitoring can perturb the trajectory" % (key, "; ".join(problems[:3])), f.loc(), key="impure")
        else:
            check.ok("MON-PURE", f.qualname, "monitor '%s' writes only the scratch residual, its own output and reads self.Qn through read-only calls" % key, f.loc())
        # MON-RECORD: guarded append with it / time / value
        apps = [n for n in ast.walk(f.node) if isinstance(n, ast.Call) and isinstance(n.func, ast.Attribute) and n.func.attr == "append"]
        rec_ok = True
        why = ""
        if len(apps) != 1:
            rec_ok, why = False, "%d append calls (expected 1)" % len(apps)
        else:
            ap = apps[0]
            kws = {k.arg: unparse(k.value) for k in ap.keywords}
            if kws.get("it") != "%s.totnit()" % sn:
                rec_ok, why = False, "records it=%s, expected the cumulative iteration self.totnit()" % kws.get("it")
            elif kws.get("time") != "%s._time" % sn:
                rec_ok, why = False, "records time=%s, expected self._time" % kws.get("time")
            elif "value" not in kws:
                rec_ok, why = False, "no value recorded"
            # guard
            guard = None
            for n in ast.walk(f.node):
                if isinstance(n, ast.If) and any(ap is x for b in n.body for x in ast.walk(b)):
                    t = n.test
                    if (isinstance(t, ast.Compare) and len(t.ops) == 1 and isinstance(t.ops[0], ast.Eq)
                            and isinstance(t.left, ast.BinOp) and isinstance(t.left.op, ast.Mod)
                            and isinstance(t.comparators[0], ast.Constant) and t.comparators[0].value == 0):
                        if unparse(t.left.left) == "%s.totnit()" % sn and "frequency" in unparse(t.left.right):
                            guard = n
                        elif guard is None:
                            why = "guard tests %s %% ... (expected self.totnit() %% frequency)" % unparse(t.left.left)
                    elif guard is None and isinstance(t, ast.Compare) and isinstance(t.left, ast.BinOp) and isinstance(t.left.op, ast.Mod):
                        why = "guard is %s (expected self.totnit() %% frequency == 0)" % unparse(t)
            if rec_ok and guard is None:
                rec_ok = False
                why = why or "append is not guarded by totnit() % frequency == 0"
            # value computed from self.Qn
            if rec_ok:
                uses_qn = any(isinstance(n, ast.Attribute) and n.attr == "Qn" for n in ast.walk(f.node))
                if not uses_qn:
                    rec_ok, why = False, "value is not computed from the current state self.Qn"
        if rec_ok:
            check.ok("MON-RECORD", f.qualname, "records (it=totnit(), time=_time, value from Qn) under totnit() %% frequency == 0", f.loc())
        else:
            check.violation("MON-RECORD", f.qualname, "monitor '%s': %s" % (key, why), f.loc(), key="record")


def nondet(check):
    proj = check.proj
    bad = []
    clock_uses = []
    for mod in proj.modules.values():
        if mod.tail in ("monitors",) or mod.short.startswith("solution"):
            continue
        for n in ast.walk(mod.tree):
            if isinstance(n, ast.Attribute):
                txt = unparse(n)
                if txt.startswith("np.random") or txt.startswith("numpy.random") or txt.startswith("random.") or txt in ("time.time", "time.perf_counter", "time.process_time", "time.clock", "os.urandom"):
                    if not (mod.tail == "integration" and txt == "time.process_time"):
                        bad.append("%s:%d %s" % (mod.relpath, n.lineno, txt))
            if isinstance(n, ast.Call) and isinstance(n.func, ast.Name) and n.func.id == "myclock":
                clock_uses.append((mod, n))
    # taint analysis: values derived from the clock may only flow into other clock-tainted
    # locals and into self._cputime
    integ = proj.module("integration")
    for fn in proj.all_functions():
        if fn.module is not integ:
            continue
        tainted = set()
        changed = True
        while changed:
            changed = False
            for n in ast.walk(fn.node):
                if isinstance(n, ast.Assign):
                    src = any((isinstance(x, ast.Call) and isinstance(x.func, ast.Name) and x.func.id == "myclock") or (isinstance(x, ast.Name) and x.id in tainted) for x in ast.walk(n.value))
                    if src:
                        for t in n.targets:
                            if isinstance(t, ast.Name) and t.id not in tainted:
                                tainted.add(t.id)
                                changed = True
        if not tainted and not any(isinstance(x, ast.Call) and isinstance(x.func, ast.Name) and x.func.id == "myclock" for x in ast.walk(fn.node)):
            continue
        for n in ast.walk(fn.node):
            if isinstance(n, ast.Assign):
                src = any((isinstance(x, ast.Call) and isinstance(x.func, ast.Name) and x.func.id == "myclock") or (isinstance(x, ast.Name) and x.id in tainted) for x in ast.walk(n.value))
                if src:
                    for t in n.targets:
                        if not (isinstance(t, ast.Name) or (isinstance(t, ast.Attribute) and t.attr == "_cputime")):
                            bad.append("%s:%d clock value flows into %s" % (integ.relpath, n.lineno, unparse(t)))
            elif isinstance(n, (ast.Call, ast.Compare, ast.If, ast.While, ast.Return, ast.AugAssign)):
                parts = []
                if isinstance(n, ast.Call) and not (isinstance(n.func, ast.Name) and n.func.id in ("print", "myclock")):
                    parts = n.args + [k.value for k in n.keywords]
                elif isinstance(n, ast.Compare):
                    parts = [n.left] + n.comparators
                elif isinstance(n, (ast.If, ast.While)):
                    parts = [n.test]
                elif isinstance(n, ast.Return) and n.value is not None:
                    parts = [n.value]
                elif isinstance(n, ast.AugAssign):
                    parts = [n.value]
                for prt in parts:
                    if any(isinstance(x, ast.Name) and x.id in tainted for x in ast.walk(prt)):
                        bad.append("%s:%d clock-derived value used in %s" % (integ.relpath, n.lineno, type(n).__name__))
    if bad:
        check.violation("EFF-NONDET", "flowdyn", "non-deterministic source on the numeric path: %s" % "; ".join(bad[:3]), key="nondet")
    else:
        check.ok("EFF-NONDET", "flowdyn", "no random source; the clock flows only into _cputime (%d uses)" % len(clock_uses))


def default_mut(check):
    proj = check.proj
    n = 0
    for f in proj.all_functions():
        for pn, d in f.defaults().items():
            if isinstance(d, (ast.Dict, ast.List, ast.Set)) or (isinstance(d, ast.Name) and d.id.startswith("_default")):
                n += 1
                muts = param_mutations(f, pn)
                if muts:
                    check.violation("EFF-DEFAULT-MUT", f.qualname, "mutable default argument %s is mutated (%s): state shared between calls" % (pn, muts[0][1]), f.loc(), key="mut-" + pn)
                else:
                    check.ok("EFF-DEFAULT-MUT", "%s(%s)" % (f.qualname, pn), "mutable default is never stored into", f.loc(), nontrivial=False)
    check.inventory["mutable defaults"] = n


def body(check):
    proj = check.proj
    check.explanation = ("static analysis: effect/typestate analyses — attributes of the solver object read before written in "
                         "step() (abstract execution of three consecutive steps, linear and nonlinear models), must-write "
                         "analysis of the discretisation's rhs(), fresh-copy typestate and iteration stamps from the "
                         "abstract interpretation of _solve/solve/restart, purity and record format of the monitor functions, "
                         "non-deterministic sources, mutable defaults")
    check.assume("numpy/BLAS are deterministic; user callables (sources, section laws) are pure")
    hidden_state(check)
    check.guarded("DISC-SCRATCH", "modeldisc", lambda: disc_scratch(check))
    check.guarded("MON-PURE", "integration.timemodel", lambda: monitors(check))
    check.guarded("EFF-NONDET", "flowdyn", lambda: nondet(check))
    check.guarded("EFF-DEFAULT-MUT", "flowdyn", lambda: default_mut(check))
    res, info = analyse_solve(proj)
    analyse_entry_points(proj, res)
    check.inventory.update(info)
    report(check, res, ("TS-FRESH-MAIN", "DRV-IT-STAMP", "DRV-RESET", "DRV-COUNT", "DRV-DT-MIN", "DRV-CALLER-PURE"))
    # restart continues from f.it: copies must carry the iteration tag
    check.guarded("FIELD-DEEPCOPY", "field.fdata", lambda: field_deepcopy(check))
