"""C01 — discrete conservation of every conserved variable.

Rules: TELESCOPE-1D (/2D), FLUX-SINGLE, POINTWISE, PERIODIC-CLOSE, WALL-ZERO, UPDATE-LINEAR,
IMPLICIT-FORM (from the C06 analyses)."""
import ast
from fractions import Fraction

from ..affine import run_step, NEQ
from ..disc1d import Disc1D, N
from ..fluxes import flux_kernels, call_flux, comp_names
from ..interp import Vec
from ..models import Ctx, MODELS, flat
from ..project import AnalysisError, unparse
from ..stencil import NLin, SArr
from .c02 import _decide
from .c07 import integrator_classes
from . import c06


def telescope_1d(check, proj):
    D = Disc1D(proj, neq=2, periodic=True)
    A = D.alg
    D.so.attrs["flux"] = [D.stn.input("F0", N + 1), D.stn.input("F1", N + 1)]
    res = D.fvm("calc_res")
    f = proj.func("modeldisc.fvm1d.calc_res")
    vol = D.call(D.mesh_cls, "vol", D.mesh)
    if not (isinstance(vol, SArr) and len(vol.segs) == 1):
        raise AnalysisError("mesh1d.vol does not decode to one relation")
    V = vol.segs[0][2]
    if not (isinstance(res, list) and len(res) == 2):
        check.violation("TELESCOPE-1D", f.qualname, "calc_res does not return one residual per equation", f.loc(), key="nres")
        return
    for i, r in enumerate(res):
        if not (isinstance(r, SArr) and r.length == N and len(r.segs) == 1):
            check.violation("TELESCOPE-1D", f.qualname, "residual of equation %d is not a single relation over the n cells: %s" % (i, r), f.loc(), key="segs")
            continue
        got = r.segs[0][2]
        want = -(D.stn.rel("F%d" % i, 1) - D.stn.rel("F%d" % i, 0)) / V
        _decide(check, "TELESCOPE-1D", f.qualname, f.loc(), A, got, want,
                "res_%d[c] == -(F_%d[c+1]-F_%d[c])/vol[c] with vol from mesh1d.vol(): sum vol*res telescopes to F[0]-F[n]" % (i, i, i), key="telescope")
    # the divisor mesh.dx() is the cell width of the FINAL face array for every mesh class
    from ..meshes import MeshBuild, MESH_CLASSES
    for cn in MESH_CLASSES:
        if not proj.has_cls("mesh." + cn):
            continue
        mb = MeshBuild(proj, cn)
        final = mb.final_xf()
        w = mb.stn.rel(final, 1) - mb.stn.rel(final, 0)
        for meth in ("dx", "vol"):
            v = mb.call(meth)
            ok = isinstance(v, SArr) and len(v.segs) == 1 and mb.alg.equal(v.segs[0][2], w)
            check.record("TELESCOPE-1D", "%s.%s" % (mb.cls.qualname, meth), ok,
                         "%s() == xf[c+1]-xf[c] of the final face array: the residual divisor is the weight of the conserved integral" % meth if ok else
                         "%s() is %s, not the widths of the final face array of this mesh class: sum vol*res no longer telescopes" % (meth, v), mb.init.loc(), key="weights-" + meth)


def periodic_close(check, proj):
    D = Disc1D(proj, neq=2, periodic=True)
    A = D.alg
    D.so.attrs["pL"] = [D.stn.input("L0", N + 1), D.stn.input("L1", N + 1)]
    D.so.attrs["pR"] = [D.stn.input("R0", N + 1), D.stn.input("R1", N + 1)]
    D.fvm("calc_bc")
    f = proj.func("modeldisc.fvm1d.calc_bc")
    for i in range(2):
        pl, pr = D.so.attrs["pL"][i], D.so.attrs["pR"][i]
        okL = A.equal(D.stn.elem(pl, 0), D.stn.absol("L%d" % i, N)) and A.equal(D.stn.elem(pl, N), D.stn.absol("L%d" % i, N))
        okR = A.equal(D.stn.elem(pr, N), D.stn.absol("R%d" % i, 0)) and A.equal(D.stn.elem(pr, 0), D.stn.absol("R%d" % i, 0))
        untouched = all(A.equal(v, D.stn.rel(nm % i, 0)) for arr, nm in ((pl, "L%d"), (pr, "R%d")) for l, h, v in arr.segs if (h - l).a >= 1)
        check.record("PERIODIC-CLOSE", f.qualname, okL and okR and untouched,
                     "equation %d: pL[0] := pL[n], pR[n] := pR[0], interior untouched: both end faces feed the same (L,R) pair to a point-wise flux" % i,
                     f.loc(), key="close%d" % i)


def pointwise(check, proj):
    n = 0
    for key in ("convection", "burgers", "shallowwater", "euler1d", "euler2d"):
        for f, names in flux_kernels(proj, key):
            n += 1
            ctx = Ctx(proj, key)
            L, R = ctx.prim("L"), ctx.prim("R")
            try:
                call_flux(ctx, f, L, R, ctx.dir2d() if key == "euler2d" else None)
            except AnalysisError as e:
                v_ = getattr(e, "violation", None)
                if v_ is not None and (len(v_) < 5 or check.pid in v_[4]):
                    check.violation(v_[0], v_[1], v_[2], f.loc(), key=v_[3])
                elif "non point-wise" in str(e) or "reduction" in str(e):
                    check.violation("POINTWISE", f.qualname, "flux function is not element-wise in the face index: %s" % e, f.loc(), key="pointwise")
                else:
                    check.undecided("POINTWISE", f.qualname, str(e), f.loc())
                continue
            check.ok("POINTWISE", f.qualname, "element-wise in the face index (no slice, shift, roll or reduction): the two neighbours of a face see one number", f.loc())
    check.floor("flux kernels", n, 11)


def _self_calls_in_order(f):
    """[(method name, under a condition or in a loop?)] of self.m() calls in source order"""
    sn = f.params[0]
    out = []

    def expr(e, cond):
        for n in ast.walk(e):
            if isinstance(n, ast.Call) and isinstance(n.func, ast.Attribute) and isinstance(n.func.value, ast.Name) and n.func.value.id == sn:
                out.append((n.func.attr, cond))

    def block(stmts, cond):
        for st in stmts:
            if isinstance(st, ast.If):
                expr(st.test, cond)
                block(st.body, True)
                block(st.orelse, True)
            elif isinstance(st, (ast.For, ast.While)):
                expr(st.iter if isinstance(st, ast.For) else st.test, cond)
                block(st.body, True)
                block(st.orelse, True)
            elif isinstance(st, (ast.With, ast.Try)):
                block(st.body, cond)
            else:
                expr(st, cond)
    block(f.node.body, False)
    return out


def flux_single(check, proj):
    for q in ("modeldisc.fvm1d", "modeldisc.fvm2dcart"):
        c = proj.cls(q)
        cf = proj.resolve(c, "calc_flux")
        calls = [n for n in ast.walk(cf.node) if isinstance(n, ast.Call) and isinstance(n.func, ast.Attribute) and n.func.attr == "numflux"]
        stores = [n for n in ast.walk(cf.node) if isinstance(n, ast.Assign) and any(isinstance(t, ast.Attribute) and t.attr == "flux" for t in n.targets)]
        ok = len(calls) == 1 and len(stores) == 1 and stores[0].value is calls[0]
        check.record("FLUX-SINGLE", cf.qualname, ok, "one numflux call on (pL, pR) whose result is the face flux array", cf.loc(), key="single")
        # rhs: on every path the face states are completed (interp_face, then calc_bc) before the one
        # flux evaluation, and the balance (calc_res) follows it; each of the four exactly once and
        # unconditionally.  (What calc_res reads is decided by TELESCOPE: a second flux-like input
        # would not telescope.)  Calls are taken in source order, conditionals noted.
        rhs = proj.resolve(c, "rhs")
        seq = _self_calls_in_order(rhs)
        need = ["interp_face", "calc_bc", "calc_flux", "calc_res"]
        got = [(nm, cond) for nm, cond in seq if nm in need]
        names = [nm for nm, _ in got]
        ok = names == need and not any(cond for _, cond in got)
        check.record("FLUX-SINGLE", rhs.qualname + " [%s]" % c.name, ok,
                     "interp_face -> calc_bc -> calc_flux -> calc_res run once each, unconditionally, in this order" if ok
                     else "face states / flux / balance stages run as %s (expected %s once each, unconditionally)" % (["%s%s" % (nm, " (conditional)" if cond else "") for nm, cond in got], need), rhs.loc(), key="order")


def wall_zero(check, proj):
    """no mass / energy (depth) flux through a slip wall, for every flux of the model"""
    cases = [("euler1d", [0, 2]), ("shallowwater", [0]), ("euler2d", [0, 3])]
    for key, comps in cases:
        for f, names in flux_kernels(proj, key):
            for side in ("right wall", "left wall"):
                ctx = Ctx(proj, key)
                A = ctx.alg
                A.start_clock()
                W = ctx.prim("")
                reg = proj.instance_registry(ctx.cls, "_bcdict")
                if "sym" not in reg:
                    raise AnalysisError("%s has no 'sym' condition" % key)
                if key == "euler2d":
                    n = ctx.dir2d()
                    # unit normal: eliminate ny^2 = 1 - nx^2 by parametrising n = (c, s)/(c^2+s^2)^(1/2)
                    cx, sy = A.sym("cn"), A.sym("sn")
                    nrm = A.sqrt(cx * cx + sy * sy)
                    n = Vec(cx / nrm, sy / nrm)
                    outward = n if side == "right wall" else Vec(-n.x, -n.y)
                    ghost = ctx.call(reg["sym"], outward, W, ParamNone())
                    F = call_flux(ctx, f, W, ghost, n) if side == "right wall" else call_flux(ctx, f, ghost, W, n)
                else:
                    d = 1 if side == "right wall" else -1
                    ghost = ctx.call(reg["sym"], d, W, ParamNone())
                    F = call_flux(ctx, f, W, ghost) if side == "right wall" else call_flux(ctx, f, ghost, W)
                fl = flat(F)
                for ci in comps:
                    lab, v = fl[ci]
                    _decide(check, "WALL-ZERO", f.qualname, f.loc(), A, v, A.const(0),
                            "%s flux through a 'sym' %s vanishes for every interior state" % (comp_names(key)[ci], side), key="wall-%s" % comp_names(key)[ci])


class ParamNone(dict):
    pass


def update_linear(check, proj):
    """the only stores into field data in integration.py go through add_res with one dt
    expression for all equations; every integrator's net update is linear in the residuals"""
    mod = proj.module("integration")
    stores = []
    for fn in proj.all_functions():
        if fn.module is not mod:
            continue
        for n in ast.walk(fn.node):
            if isinstance(n, (ast.Assign, ast.AugAssign)):
                ts = n.targets if isinstance(n, ast.Assign) else [n.target]
                for t in ts:
                    base = t
                    depth = 0
                    while isinstance(base, ast.Subscript):
                        base = base.value
                        depth += 1
                    if depth and isinstance(base, ast.Attribute) and base.attr == "data":
                        stores.append((fn, n))
    allowed = {"add_res", "calc_jacobian"}
    bad = [(fn, n) for fn, n in stores if fn.name not in allowed]
    if bad:
        fn, n = bad[0]
        check.violation("UPDATE-LINEAR", fn.qualname, "field data are written outside add_res: %s" % unparse(n), "%s:%d" % (fn.module.relpath, n.lineno), key="bypass")
    else:
        check.ok("UPDATE-LINEAR", "integration", "field data are stored only by add_res (and the scratch perturbation of calc_jacobian): %d store sites" % len(stores))
    one = {0: Fraction(1)}
    for c in integrator_classes(proj):
        q = c.qualname
        stepf = proj.resolve(c, "step")
        try:
            ai, outs = run_step(proj, c, 2)
        except AnalysisError as e:
            check.failed("UPDATE-LINEAR", q, e, stepf.loc(), "abstract interpretation failed")
            continue
        okc = True
        why = ""
        for o in outs:
            f = o["field"]
            forms = []
            for e in range(NEQ):
                form = f.data[e].form
                if form.get(("Q0", e)) != one:
                    okc, why = False, "state after the step is %s (initial state not carried with weight 1)" % f.data[e]
                rest = {}
                for b, p in form.items():
                    if b == ("Q0", e):
                        continue
                    if b[0] in ("K", "X", "L") and b[-1] == e:
                        rest[(b[0],) + tuple(b[1:-1])] = p
                    else:
                        okc, why = False, "equation %d receives the foreign term %s" % (e, b)
                forms.append(rest)
                # (which reduction of a local-time-step array multiplies the residual is C18's
                # clause: the statement here is about one global step)
            if any(r != forms[0] for r in forms):
                okc, why = False, "equations are updated with different coefficients: %s" % forms
        if okc:
            check.ok("UPDATE-LINEAR", q, "net update is Q + (same linear combination of residuals / solved increments for every equation)", stepf.loc())
        else:
            check.violation("UPDATE-LINEAR", q, why, stepf.loc(), key="update")


def implicit_conservative(check, proj, c):
    """with volume-weighted column sums of J equal to zero (FD-COLUMN), the increment x of
    (a/dt*I + b*J) x = r is conservative for ANY a != 0 and b as soon as r is a combination of
    residuals (and of earlier conservative increments) and the state receives a multiple of x:
    sum(vol*x) = dt/a * sum(vol*r) = boundary fluxes.  Which theta / xi the scheme uses is C06."""
    q = c.qualname
    stepf = proj.resolve(c, "step")
    loc = stepf.loc()
    ai, outs = run_step(proj, c, 2)
    for o in outs:
        where = "%s [%s]" % (q, o["typestate"])
        sv = o["solves"]
        if len(sv) != 1:
            check.violation("IMPLICIT-FORM", where, "%d linear solves in one step (expected 1)" % len(sv), loc, key="nsolve")
            continue
        mat, rhs = sv[0]
        bad = None
        # any row scaling D^s of (a/dt*I + b*J) x = r has the same solution: identity part one
        # monomial a*dt^(s-1), Jacobian rows scaled by dt^s, no column scaling, r scaled by dt^s
        if len(mat.ident) != 1:
            bad = "the identity part of the matrix is %r, not one monomial in dt times I" % (mat.ident,)
        else:
            (pw, a), = mat.ident.items()
            sc = pw + 1
            if mat.jac and (getattr(mat, "rowp", 0) != sc or getattr(mat, "colp", 0) != 0):
                bad = "the matrix %r is not a row scaling of a/dt*I + b*J" % (mat,)
            for e in range(NEQ):
                other = [b for b in rhs[e].form if b[0] not in ("K", "L") or b[-1] != e]
                if other:
                    bad = "the right-hand side of equation %d contains %s, not only residuals / earlier increments of that equation" % (e, other)
                if any(set(pp) != {sc} for b, pp in rhs[e].form.items()):
                    bad = "the right-hand side of equation %d (%s) is not scaled like the matrix (dt^%d)" % (e, rhs[e], sc)
        n = o["s0"]
        f = o["field"]
        coefs = set()
        for e in range(NEQ):
            form = dict(f.data[e].form)
            if form.pop(("Q0", e), None) != {0: Fraction(1)}:
                bad = "the state after the step does not carry the initial state with weight 1 (%s)" % f.data[e]
            x = form.pop(("X", n, e), None)
            coefs.add(repr(x))
            if form:
                bad = "the state after the step contains %s besides Q and the solved increment" % sorted(form)
        if len(coefs) != 1:
            bad = "equations receive different multiples of the solved increment"
        if bad:
            check.violation("IMPLICIT-FORM", where, bad, loc, key="implicit-form")
        else:
            check.ok("IMPLICIT-FORM", where, "one solve of (a/dt*I + b*J) x = combination of residuals; state := Q + c*x for every equation: conservative for any theta, xi", loc)


def global_dt(check, proj):
    from ..driver_rules import analyse_solve
    res, _ = analyse_solve(proj)
    f = proj.func("integration.timemodel._solve")
    keys = ("main-dt-global", "legacy-array")
    bad = [(text, ln, key) for rule, status, text, ln, key in res.items if rule == "DRV-DT-MIN" and status == "violation" and key in keys]
    und = [(text, ln) for rule, status, text, ln, key in res.items if rule == "DRV-DT-MIN" and status == "undecided"]
    for text, ln, key in bad:
        check.violation("GLOBAL-DT", "integration.timemodel", text, "%s:%d" % (f.module.relpath, ln or f.node.lineno), key=key)
    for text, ln in und:
        check.undecided("GLOBAL-DT", "integration.timemodel", text, "%s:%d" % (f.module.relpath, ln or f.node.lineno))
    from ..driver_rules import analyse_entry_points
    from .c07 import report
    analyse_entry_points(proj, res)
    report(check, res, ("DRV-FORWARD",))
    if not bad and not und:
        check.ok("GLOBAL-DT", "integration.timemodel", "_solve hands the per-cell array to step() only under the dtlocal directive, solve_legacy never: every cell advances by the same scalar step", f.loc())


def body(check):
    proj = check.proj
    check.explanation = ("static analysis: (1) access-relation decoding of calc_res / calc_bc (1D and 2D) shows the volume-weighted "
                         "residual telescopes and the periodic closure feeds identical pairs to both end faces; (2) every flux "
                         "kernel is element-wise (abstract interpretation fails on any shifted access) and calc_flux makes a "
                         "single call; (3) wall fluxes of mass / energy / depth vanish identically (GVN of bc_sym composed with "
                         "each flux); (4) AFF shows every integrator updates all equations with one linear combination of "
                         "residuals, and the implicit system / Jacobian layout rules of C06")
    check.assume("exact arithmetic (size of round-off not decided); one global time step (dtlocal excluded by the statement); sources are C19")
    check.guarded("TELESCOPE-1D", "modeldisc.fvm1d.calc_res", lambda: telescope_1d(check, proj))
    check.guarded("PERIODIC-CLOSE", "modeldisc.fvm1d.calc_bc", lambda: periodic_close(check, proj))
    check.guarded("POINTWISE", "numflux", lambda: pointwise(check, proj))
    check.guarded("FLUX-SINGLE", "modeldisc", lambda: flux_single(check, proj))
    check.guarded("WALL-ZERO", "bc_sym", lambda: wall_zero(check, proj))
    # ... and the pair that meets at a wall face is (interior FACE state, bc(that same state)): the
    # decoded call sites of calc_bc, 1D and 2D (same obligations as C16 / C15)
    from . import c16, c15
    check.guarded("WALL-SITE", "modeldisc.fvm1d.calc_bc", lambda: c16.sites_1d(check, proj, "WALL-SITE"))
    n0 = len(check.obs)
    check.guarded("WALL-SITE", "modeldisc.fvm2dcart.calc_bc", lambda: c15.bc_sites(check))
    for o in check.obs[n0:]:
        if o.rule == "BC-2D-SITE":
            o.rule = "WALL-SITE"
    check.obs[n0:] = [o for o in check.obs[n0:] if o.key != "normal-dtype"]       # the dtype of the normals is C15 / C16's clause
    # "... and the declared source terms": each declared source reaches its own equation exactly once
    # (same obligations as C19: add_source 1D / 2D, rhs wiring, nozzle composition)
    from . import c19
    n1 = len(check.obs)
    check.guarded("SRC-DECLARED", "modeldisc.add_source", lambda: c19.src_once(check, proj))
    check.guarded("SRC-DECLARED", "euler.nozzle", lambda: c19.noz_compose(check, proj))
    for o in check.obs[n1:]:
        if o.rule in ("SRC-ONCE", "NOZ-COMPOSE"):
            o.rule = "SRC-DECLARED"
    check.guarded("UPDATE-LINEAR", "integration", lambda: update_linear(check, proj))
    # "... a solve with any integrator using ONE GLOBAL time step": the drivers hand a scalar to step()
    # unless the local-time-step directive is on (driver interpretation, shared with C07 / C18)
    check.guarded("GLOBAL-DT", "integration.timemodel", lambda: global_dt(check, proj))
    # implicit family: what conservation needs of the linear system (any theta, any xi)
    for c in c06.implicit_classes(proj):
        check.guarded("IMPLICIT-FORM", c.qualname, lambda: implicit_conservative(check, proj, c), c.loc())
    check.guarded("IMPLICIT-FORM", "calc_jacobian", lambda: c06.fd_column(check, proj, conservation_only=True))
    from . import c15
    if check.guarded("LAYOUT-AGREE", "modeldisc.fvm2dcart", lambda: c15.layout_agree(check)):
        check.guarded("TELESCOPE-2D", "modeldisc.fvm2dcart.calc_res", lambda: c15.telescope_2d(check))
