"""C11 — reconstructions exact for linear data; linear schemes match the kappa stencil.

Rules: E1-ADJ, CONST-EXACT, LIN-EXACT, MUSCL-ARGS, KAPPA-STENCIL, KAPPA-SIBLING (1D; the 2D
k-extrapolation along each direction is decoded by the 2D stencil rules when available)."""
from fractions import Fraction

from ..disc1d import Disc1D, RECON_CLASSES, KAPPA_NOMINAL, phi_axioms, N
from ..interp import SelfObj
from ..project import AnalysisError
from ..stencil import SArr, NLin
from .c02 import _decide


def decoded(proj, clsname, periodic=True, neq=1):
    """(Disc1D, L, R) with decoded left/right face states of reconstruction `clsname`"""
    D = Disc1D(proj, neq=neq, periodic=periodic)
    ci, num = D.recon(clsname, limiter=phi_axioms(D.alg))
    # the stages run in the order, and under the conditions, of rhs() for this reconstruction class
    plan = D.stage_plan(ci)
    if "interp_face" not in plan:
        raise AnalysisError("rhs() does not call interp_face for %s" % ci.qualname)
    for st in plan[:plan.index("interp_face")]:
        if st in ("calc_grad", "calc_bc_grad"):
            D.fvm(st)
    L, R = D.interp_face(ci, num)
    if not (isinstance(L, list) and isinstance(R, list) and isinstance(L[0], SArr) and isinstance(R[0], SArr)):
        raise AnalysisError("%s.interp_face does not return lists of face arrays" % ci.qualname)
    return D, ci, num, L[0], R[0]


def each_variable(check, proj, clsname):
    """RECON-EACH-VAR: with several variables every variable gets ITS OWN face states: the states of variable k are built from
    the data of variable k only, in arrays of their own (`[np.zeros(n)] * neq` is neq references to ONE array: every variable
    writes into it and all of them end up with the last one's states -- invisible for scalar models)"""
    D = Disc1D(proj, neq=2, periodic=True)
    ci, num = D.recon(clsname, limiter=phi_axioms(D.alg))
    plan = D.stage_plan(ci)
    for st in plan[:plan.index("interp_face")] if "interp_face" in plan else []:
        if st in ("calc_grad", "calc_bc_grad"):
            D.fvm(st)
    L, R = D.interp_face(ci, num)
    f = proj.resolve(ci, "interp_face")
    bad = None
    for side, arrs in (("L", L), ("R", R)):
        if not (isinstance(arrs, list) and len(arrs) == 2 and all(isinstance(a, SArr) for a in arrs)):
            raise AnalysisError("%s.interp_face does not return one face array per variable" % ci.qualname)
        if arrs[0] is arrs[1]:
            bad = "the %s face states of the two variables are ONE array object (allocated once and referenced neq times: `[array] * neq`)" % side
            break
        for k, a in enumerate(arrs):
            seen = set()

            def rec(name, kind, idx):
                if name.startswith("d") and name[1:].isdigit():
                    seen.add(name)
                return None
            for seg in a.segs:
                D.subst_names(seg[2], rec)
            other = seen - {"d%d" % k}
            if other:
                bad = "the %s face states of variable %d are built from the data of variable %s" % (side, k, ", ".join(sorted(x[1:] for x in other)))
                break
        if bad:
            break
    if bad:
        check.violation("RECON-EACH-VAR", ci.qualname, bad + ": with several variables (Euler, shallow water) every variable carries another one's states; scalar models are unaffected", f.loc(), key="shared-face-array")
    else:
        check.ok("RECON-EACH-VAR", ci.qualname, "with two variables each gets face arrays of its own, built from its own data only", f.loc())


def linear_data(D, val, alpha, beta, xc_of_xf):
    """substitute d[j] = alpha + beta*xc[j], then xc[j] = decoded centre formula"""
    A = D.alg

    def f1(name, kind, idx):
        if name == "d":
            xc = D.stn.rel("xc", idx) if kind == "rel" else D.stn.absol("xc", idx)
            return alpha + beta * xc
        return None
    v = D.subst_names(val, f1)

    def f2(name, kind, idx):
        if name == "xc" and kind == "rel":
            return D.stn.shift(xc_of_xf, idx)
        return None
    return D.subst_names(v, f2)


def uniform_mesh(D, val, dx, x0, nn, relative):
    """substitute the uniform periodic mesh xf[j] = x0 + j*dx, xc[j] = x0 + (j+1/2)*dx, Len = n*dx"""
    A = D.alg
    xk = A.sym("Xk")

    def f(name, kind, idx):
        if name == "xf":
            if kind == "rel":
                return xk + idx * dx
            return x0 + (nn * idx.a + idx.b) * dx
        if name == "xc":
            if kind == "rel":
                return xk + (Fraction(1, 2) + idx) * dx
            return x0 + (nn * idx.a + idx.b + Fraction(1, 2)) * dx
        return None
    v = D.subst_names(val, f)
    return A.subst(v, {A.by_name["Len"].id: nn * dx})


def e1_adj(check, proj):
    D, ci, num, L, R = decoded(proj, "extrapol1")
    f = proj.resolve(ci, "interp_face")
    A = D.alg
    okL = any(l == NLin(0, 1) and h == N + 1 and A.equal(v, D.stn.rel("d", -1)) for l, h, v in L.segs)
    okR = any(l == NLin(0, 0) and h == N and A.equal(v, D.stn.rel("d", 0)) for l, h, v in R.segs)
    if okL and okR:
        check.ok("E1-ADJ", ci.qualname, "L[f] := d[f-1] for f in [1,n], R[f] := d[f] for f in [0,n): the adjacent cell values, nothing else", f.loc())
    else:
        check.violation("E1-ADJ", ci.qualname, "first-order states are not the adjacent cell values: L = %s ; R = %s" % (L, R), f.loc(), key="adj")


def exactness(check, proj, clsname):
    D, ci, num, L, R = decoded(proj, clsname)
    f = proj.resolve(ci, "interp_face")
    A = D.alg
    alpha, beta = A.sym("alpha"), A.sym("beta")
    xc_of_xf = D.centers()
    # CONST-EXACT on every segment that interp_face writes (periodic closure of gradients included)
    for side, arr, lo, hi in (("L", L, NLin(0, 1), N + 1), ("R", R, NLin(0, 0), N)):
        bad = None
        nseg = 0
        for l, h, v in arr.segs:
            if not (lo.le(l) and h.le(hi)):
                continue
            nseg += 1
            c = linear_data(D, v, alpha, A.const(0), xc_of_xf)
            if not A.equal(c, alpha):
                bad = (l, h, c)
        if bad:
            check.violation("CONST-EXACT", ci.qualname, "%s state of faces [%r,%r) is %s for constant data alpha" % (side, bad[0], bad[1], A.show(bad[2], 160)), f.loc(), key="const-" + side)
        else:
            check.ok("CONST-EXACT", ci.qualname, "%s states return the cell value for constant data on all %d face ranges (periodic seam included)" % (side, nseg), f.loc())
    # LIN-EXACT on the interior segment, arbitrary monotone faces
    for side, arr in (("L", L), ("R", R)):
        l, h, v = D.stn.interior(arr)
        got = linear_data(D, v, alpha, beta, xc_of_xf)
        want = alpha + beta * D.stn.rel("xf", 0)
        _decide(check, "LIN-EXACT", ci.qualname, f.loc(), A, got, want,
                "%s state at interior faces [%r,%r) reproduces alpha + beta*x at the face for any face distribution" % (side, l, h), key="lin-" + side)
    return D, ci, L, R


def muscl_args(check, proj):
    D, ci, num, L, R = decoded(proj, "muscl")
    f = proj.resolve(ci, "interp_face")
    A = D.alg
    g = lambda o: (D.stn.rel("d", o) - D.stn.rel("d", o - 1)) / (D.stn.rel("xc", o) - D.stn.rel("xc", o - 1))
    # L[f] extrapolates cell f-1 (faces f-1, f) ; R[f] extrapolates cell f (faces f, f+1)
    for side, arr, faces, cell in (("L", L, (-1, 0), -1), ("R", R, (0, 1), 0)):
        l, h, v = D.stn.interior(arr)
        ops = [A.atoms[a] for a in A.atoms_of(A.expand_all(v), "opaque") if A.atoms[a].name.startswith("phi(")]
        if len(ops) != 1:
            check.undecided("MUSCL-ARGS", ci.qualname, "%s state: %d limiter applications found" % (side, len(ops)), f.loc())
            continue
        args = ops[0].args
        want = [g(faces[0]), g(faces[1])]
        sgn = None
        for s in (1, -1):
            m = [[A.equal(x, w * s) for w in want] for x in args]
            if (m[0][0] and m[1][1]) or (m[0][1] and m[1][0]):
                sgn = s
                order = "downwind, upwind" if ((side == "L" and m[0][1]) or (side == "R" and m[0][0])) else "upwind, downwind"
        if sgn is None:
            check.violation("MUSCL-ARGS", ci.qualname, "%s state: limiter arguments %s are not the two face gradients of the extrapolated cell" % (side, [A.show(x, 80) for x in args]), f.loc(), key="args-" + side)
        else:
            check.ok("MUSCL-ARGS", ci.qualname, "%s state: limiter is applied to the two face gradients of the extrapolated cell (%s)" % (side, order), f.loc())
            check.inventory["muscl-%s-order" % side] = order
    oL, oR = check.inventory.get("muscl-L-order"), check.inventory.get("muscl-R-order")
    if oL and oR:
        if oL == oR:
            check.ok("MUSCL-ARGS", ci.qualname, "left and right statements pass (downwind, upwind) gradients in mirror-twin order", f.loc())
        else:
            check.violation("MUSCL-ARGS", ci.qualname, "left statement passes (%s) but right statement passes (%s): not mirror twins (matters for non-symmetric limiters)" % (oL, oR), f.loc(), key="twin-order")


def kappa_reference(D, kappa, a_sign, q):
    """residual of cell c of the reference kappa-scheme (van Leer) for linear convection on a
    uniform periodic mesh; q(j) = cell value at offset/index j relative to c"""
    A = D.alg
    a = A.by_name["a_abs"]
    a = A.atom_rf(a) * a_sign
    dx = A.atom_rf(A.by_name["dx"])
    km = (1 - kappa) / 4
    kp = (1 + kappa) / 4

    def qL(f):      # state on the left of face f (f relative to c: face f lies between cells f-1 and f)
        return q(f - 1) + km * (q(f - 1) - q(f - 2)) + kp * (q(f) - q(f - 1))

    def qR(f):
        return q(f) - km * (q(f + 1) - q(f)) - kp * (q(f) - q(f - 1))
    F = (lambda f: a * qL(f)) if a_sign > 0 else (lambda f: a * qR(f))
    return -(F(1) - F(0)) / dx


def kappa_stencil(check, proj, clsname):
    conv = proj.cls("convection.model")
    for a_sign in (+1, -1):
        D, ci, num, L, R = decoded(proj, clsname)
        f = proj.resolve(ci, "interp_face")
        A = D.alg
        kap = num.attrs.get("kprec") if clsname != "extrapol2" else Fraction(-1)
        if clsname in KAPPA_NOMINAL and clsname != "extrapol2":
            kv = kap if isinstance(kap, Fraction) else None
            if kv is None or kv != KAPPA_NOMINAL[clsname]:
                check.violation("KAPPA-STENCIL", ci.qualname, "constructor sets kappa = %s, the scheme is defined by kappa = %s" % (kap, KAPPA_NOMINAL[clsname]), ci.loc(), key="kappa-const")
                return
        kappa = A.lift(kap) if not hasattr(kap, "num") else kap
        a_abs = A.sym("a_abs", positive=True)
        dx = A.sym("dx", positive=True)
        x0, nn = A.sym("x0"), A.sym("Nn", positive=True)
        D.so.attrs["pL"], D.so.attrs["pR"] = [L], [R]
        D.fvm("calc_bc")
        model = SelfObj(conv, {"convcoef": a_abs * a_sign})
        flux = D.interp.call_function(proj.resolve(conv, "numflux"), [model, None, D.so.attrs["pL"], D.so.attrs["pR"]])
        D.so.attrs["flux"] = flux
        res = D.fvm("calc_res")
        r = res[0]
        D.stn._check_cover(r, "residual")
        nbad = 0
        for l, h, v in r.segs:
            generic = (h - l).a >= 1
            if generic:
                got = uniform_mesh(D, v, dx, x0, nn, True)
                want = kappa_reference(D, kappa, a_sign, lambda j: D.stn.rel("d", j))
                where = "generic cells [%r,%r)" % (l, h)
            else:
                if (h - l) != NLin(0, 1):
                    check.undecided("KAPPA-STENCIL", ci.qualname, "segment [%r,%r) neither generic nor a single cell" % (l, h), f.loc())
                    continue
                got = uniform_mesh(D, D.stn.absolutize(v, l), dx, x0, nn, False)

                def qabs(j, l=l):
                    idx = l + j
                    if idx.a == 0 and idx.b < 0:
                        idx = idx + N
                    elif idx.a == 1 and idx.b >= 0:
                        idx = idx - N
                    return D.stn.absol("d", idx)
                want = kappa_reference(D, kappa, a_sign, qabs)
                where = "cell %r next to the periodic seam" % l
            st = _decide(check, "KAPPA-STENCIL", ci.qualname, f.loc(), A, got, want,
                         "residual of %s == circulant kappa-scheme stencil (kappa = %s, a %s 0)" % (where, kap if clsname != "extrapolk" else "symbolic", ">" if a_sign > 0 else "<"),
                         key="stencil%+d" % a_sign)


def sibling(check, proj):
    """extrapol2 == extrapolk(-1) on arbitrary meshes"""
    D, ci, num, L, R = decoded(proj, "extrapolk")
    D2, ci2, num2, L2, R2 = decoded(proj, "extrapol2")
    f = proj.resolve(ci2, "interp_face")
    A = D.alg
    # re-evaluate extrapol2 in the same algebra
    ci2, num2 = D.recon("extrapol2")
    L2, R2 = D.interp_face(ci2, num2)
    kid = A.by_name["kappa"].id
    for side, a, b in (("L", L, L2[0]), ("R", R, R2[0])):
        l, h, v = D.stn.interior(a)
        l2, h2, v2 = D.stn.interior(b)
        _decide(check, "KAPPA-SIBLING", ci2.qualname, f.loc(), A, A.subst(v, {kid: A.const(-1)}), v2,
                "%s state of extrapol2 == extrapolk(kappa=-1) on any mesh" % side, key="sib-" + side)


def body(check):
    from ..disc1d import over_cond_paths
    over_cond_paths(check, _body_paths)


def face_buffer_dtype(check, proj, classes):
    """the face arrays are floating point whatever the dtype of the cell data: a buffer whose dtype follows the data
    (zeros_like, dtype=data[i].dtype) truncates the extrapolated states of integer-typed data (np.arange, unit impulses
    built with np.eye(n, dtype=int), np.where(..., 1, 0)) -- no scheme is then exact on linear data"""
    from ..pointwise import dtype_follow
    n = bad = 0
    for c in classes:
        f = proj.resolve(proj.cls("xnum." + c), "interp_face")
        if f is None:
            continue
        n += 1
        hits = dtype_follow(proj, f)
        if hits:
            bad += 1
            ln, buf, store = hits[0]
            check.violation("DTYPE-FOLLOW", f.qualname, "the face buffer `%s` takes the dtype of the cell data and receives `%s`: for integer-typed cell data the face states are truncated silently" % (buf, store), "%s:%d" % (f.module.relpath, ln), key="dtype-" + c)
    if n and not bad:
        check.ok("DTYPE-FOLLOW", "%d reconstruction classes" % n, "no face buffer inherits the dtype of the cell data while receiving extrapolated (floating-point) states", nontrivial=False)


def _body_paths(check):
    proj = check.proj
    check.explanation = ("static analysis: the slice code of fvm1d (gradients, periodic closure, calc_bc, calc_res), mesh1d "
                         "(centres, volumes) and every 1D reconstruction is decoded by the access-relation engine (STN) into "
                         "piecewise relations 'entity at index k := expression over entities at constant offsets' valid for all "
                         "n; constant / linear exactness on arbitrary face distributions and the circulant kappa stencil "
                         "(generic cell and the cells next to the seam, both convection signs) are then ring identities (GVN)")
    check.trusted += ["reference kappa-scheme face formula (c11.kappa_reference)", "nominal kappa table of the statement",
                      "limiter axioms phi(0,0)=0, phi(s,s)=s, phi odd: decided per limiter under C12"]
    check.assume("n >= 8 cells so that the order of segment bounds is fixed; exact arithmetic")
    classes = [c for c in RECON_CLASSES if proj.has_cls("xnum." + c)]
    check.floor("1D reconstruction classes", len(classes), 8)
    check.guarded("E1-ADJ", "xnum.extrapol1", lambda: e1_adj(check, proj))
    for c in classes:
        if c == "extrapol1":
            continue       # first order by definition: E1-ADJ is its clause
        check.guarded("LIN-EXACT", "xnum." + c, lambda: exactness(check, proj, c))
    check.guarded("MUSCL-ARGS", "xnum.muscl", lambda: muscl_args(check, proj))
    for c in classes:
        check.guarded("RECON-EACH-VAR", "xnum." + c, lambda: each_variable(check, proj, c))
    check.guarded("DTYPE-FOLLOW", "xnum", lambda: face_buffer_dtype(check, proj, classes))
    # "... and MUSCL with every limiter": exactness on linear data uses phi(s,s) = s (on the statement's scale
    # range), phi(0,0) = 0 and oddness of each provided limiter -- the same obligations as C12, kept here for
    # these three clauses only
    from . import c12
    from ..disc1d import LIMITERS
    for ln_ in [n_ for n_ in LIMITERS if n_ in proj.module("xnum").functions]:
        n0 = len(check.obs)
        check.guarded("LIM-AXIOM", "xnum." + ln_, lambda: c12.analyse(check, proj, ln_))
        check.guarded("LIM-PURE", "xnum." + ln_, lambda: c12.pure_and_unwrapped(check, proj, ln_))
        kept = []
        for o in check.obs[n0:]:
            if o.rule in ("LIM-CONSIST", "LIM-ZERO", "LIM-ODD", "LIM-PURE", "LIM-WRAP") or (o.rule == "LIM-HOMOG" and o.key == "abs-rounding"):
                kept.append(o)
            elif o.rule == "LIM-AXIOM":
                kept.append(o)
        check.obs[n0:] = kept
    for c in ["extrapol2", "extrapolk", "centered", "fromm", "quick", "extrapol3"]:
        check.guarded("KAPPA-STENCIL", "xnum." + c, lambda: kappa_stencil(check, proj, c))
    check.guarded("KAPPA-SIBLING", "xnum.extrapol2", lambda: sibling(check, proj))
    from . import c15
    if check.guarded("LAYOUT-AGREE", "modeldisc.fvm2dcart", lambda: c15.layout_agree(check)):
        check.guarded("KAPPA-2D", "xnum.extrapol2dk", lambda: c15.kappa_2d(check))
        # "along each 2D direction" includes the periodic seam of that direction, whatever the other pair of boundaries is
        check.guarded("SEAM-2D", "modeldisc.fvm2dcart.calc_bc_grad", lambda: c15.seam_2d(check))
        check.guarded("ROW-1D-AGREE", "xnum.extrapol2d*", lambda: c15.row_1d_agree(check))
