"""C19 — source terms are added exactly once, to their own equation.

Rules: SRC-ONCE, SRC-STORE, NOZ-COMPOSE (CLOSURE-LATE, ALIAS-SELFREF), NOZ-GEOM."""
import ast

from ..algebra import Algebra, RF
from ..disc1d import Disc1D, N
from ..interp import Interp, GvnDomain, SelfObj, OpaqueFn, ObjStub, SelfRecursion, BoundMethod
from ..models import Ctx, MODELS, flat
from ..project import AnalysisError, unparse
from ..stencil import SArr, NLin
from .c02 import _decide


def src_once(check, proj):
    base = proj.cls("modeldisc.base")
    rhs = proj.resolve(base, "rhs")
    sn = rhs.params[0]
    # rhs: one call of add_source, after calc_res, under `if self.model.source`
    calls = []

    def walk(stmts, guards):
        for st in stmts:
            if isinstance(st, ast.If):
                walk(st.body, guards + [unparse(st.test)])
                walk(st.orelse, guards + ["not " + unparse(st.test)])
            else:
                for n in ast.walk(st):
                    if isinstance(n, ast.Call) and isinstance(n.func, ast.Attribute) and isinstance(n.func.value, ast.Name) and n.func.value.id == sn:
                        calls.append((n.func.attr, n.lineno, list(guards)))
    walk(rhs.node.body, [])
    adds = [c for c in calls if c[0] == "add_source"]
    names = [c[0] for c in calls]
    if len(adds) != 1:
        check.violation("SRC-ONCE", rhs.qualname, "rhs calls add_source %d times (expected exactly once)" % len(adds), rhs.loc(), key="count")
    else:
        after = "calc_res" in names and names.index("calc_res") < names.index("add_source")
        guard_ok = adds[0][2] == ["%s.model.source" % sn]
        check.record("SRC-ONCE", rhs.qualname, after and guard_ok,
                     "add_source called once, after calc_res, under `if self.model.source`" if after and guard_ok else
                     "add_source is called %s with guard %s" % ("after calc_res" if after else "BEFORE the flux balance", adds[0][2]), rhs.loc(), key="rhs")
    # who may call add_source
    others = []
    for f in proj.all_functions():
        if f.module.tail != "modeldisc" or f is rhs:
            continue
        for n in ast.walk(f.node):
            if isinstance(n, ast.Call) and isinstance(n.func, ast.Attribute) and n.func.attr == "add_source":
                others.append("%s:%d" % (f.qualname, n.lineno))
    check.record("SRC-ONCE", "modeldisc", not others, "rhs is the only caller of add_source" if not others else "add_source is also called from %s" % others, key="callers")
    # add_source itself: abstract interpretation with uninterpreted sources
    for qn in ("modeldisc.fvm1d", "modeldisc.fvm2dcart"):
        c = proj.cls(qn)
        f = proj.resolve(c, "add_source")
        inplace = []
        for pattern in ([True, False, True], [False, True, False], [True, False, False], [False, False, True], [True, True, True]):
            A = Algebra()
            A.fold_enabled = False
            dom = GvnDomain(A)
            it = Interp(proj, dom)
            it.allow_try = True
            xc = A.sym("xc")
            qd = [A.sym("q%d" % i) for i in range(3)]
            R = [A.sym("R%d" % i) for i in range(3)]
            srcs = [OpaqueFn("S%d" % i) if on else None for i, on in enumerate(pattern)]
            so = SelfObj(c, {"neq": 3, "model": ObjStub("model", {"source": srcs}), "mesh": ObjStub("mesh", {"centers": lambda: xc}),
                             "qdata": list(qd), "pdata": [A.sym("prim%d" % i) for i in range(3)], "residual": list(R),
                             "field": ObjStub("field", {"time": A.sym("t_field"), "it": A.sym("it_field")}), "time": A.sym("t_disc")})
            it.call_function(f, [so])
            inplace += it.ev.inplace_owned
            res = so.attrs["residual"]
            ok = True
            why = ""
            for i in range(3):
                want = R[i] + (A.opaque("S%d" % i, [xc, qd]) if pattern[i] else 0)
                got = res[i]
                if not (isinstance(got, RF) and A.equal(got, want)):
                    ok = False
                    why = "equation %d becomes %s, expected %s" % (i, A.show(got, 120) if isinstance(got, RF) else got, A.show(want, 120))
            if so.attrs["qdata"] != qd and not all(a is b for a, b in zip(so.attrs["qdata"], qd)):
                ok, why = False, "conservative data are modified"
            if not ok and it.ev.try_paths:
                why += " [on the path where the `try` at line %d raises nothing: a source function that ACCEPTS the probing call -- an optional third parameter, *args -- is evaluated with it]" % it.ev.try_paths[0][1]
            if ok and it.ev.try_paths:
                raise AnalysisError("%s:%d the handlers of the try statement (%s) are not analysed" % (it.ev.try_paths[0][0], it.ev.try_paths[0][1], ", ".join(it.ev.try_paths[0][2])))
            check.record("SRC-ONCE", "%s [sources %s]" % (f.qualname, ["S" if x else "None" for x in pattern]), ok,
                         "residual[i] += source[i](centres, conservative data) for each given entry, None skipped, nothing else" if ok else why, f.loc(), key="add-" + "".join("1" if x else "0" for x in pattern))
        # (in-place updates of an array returned by a source function are collected by the
        # abstract interpreter: such an array is owned by the source function)
        if inplace:
            ln, nm = inplace[0]
            check.violation("SRC-ONCE", f.qualname, "line %d accumulates in place into `%s`, the array returned by (and owned by) the source function: a source returning a stored array is corrupted and its contribution drifts with call history" % (ln, nm), f.loc(), key="inplace")
        else:
            check.ok("SRC-ONCE", f.qualname, "no in-place update of an array returned by a source function", f.loc(), nontrivial=False)


def src_store(check, proj):
    for key in ("euler1d", "shallowwater", "euler2d"):
        cls = proj.cls(MODELS[key]["cls"])
        summ = proj.ctor_summary(cls)
        ok = summ.get("source") == ("param", "source")
        check.record("SRC-STORE", cls.qualname, ok, "constructor stores the user's source list unmodified" if ok else "self.source is %s" % (summ.get("source"),), cls.loc(), key="store")


def noz_compose(check, proj):
    cls = proj.cls("euler.nozzle")
    init = proj.resolve(cls, "__init__")
    loc = init.loc()
    for pattern in ([True, False, True], [True, True, False], [False, False, False]):
        ctx = Ctx(proj, "nozzle")
        A = ctx.alg
        it = ctx.interp
        it.follow_base_init = False
        user = [OpaqueFn("U%d" % i) if on else None for i, on in enumerate(pattern)]
        it.ev.base_init_calls.clear()
        tag = "".join("1" if x else "0" for x in pattern)
        before = list(user)
        try:
            it.call_function(init, [ctx.selfobj, OpaqueFn("A", positive=True), ctx.selfobj.attrs["gamma"], user if any(pattern) else None])
        except AnalysisError as e:
            check.undecided("NOZ-COMPOSE", init.qualname, "constructor not interpretable: %s" % e, loc)
            return
        if len(user) != len(before) or any(a is not b for a, b in zip(user, before)):
            check.violation("NOZ-COMPOSE", init.qualname, "the constructor writes the composed (user + geometric) sources back into the CALLER's source list: a second model built from the same list gets the first nozzle's geometric sources added again, and None entries are no longer empty", loc, key="caller-list")
        else:
            check.ok("NOZ-COMPOSE", "%s [user sources %s]" % (init.qualname, tag), "the caller's source list is left untouched", loc, nontrivial=False)
        # arguments of the base constructor bound by ITS signature (positional or keyword)
        calls = []
        for ci_, args_, kw_ in it.ev.base_init_calls:
            binit = proj.resolve(ci_, "__init__")
            bound = dict(zip(binit.params, args_)) if binit is not None else {}
            bound.update(kw_)
            if "source" in bound:
                calls.append((ci_, args_, bound))
        if len(calls) != 1:
            check.undecided("NOZ-COMPOSE", init.qualname, "source list passed to the base constructor not found", loc)
            return
        srcs = calls[0][2]["source"]
        if not (isinstance(srcs, list) and len(srcs) == 3):
            check.violation("NOZ-COMPOSE", init.qualname, "composed source is not a list of three callables", loc, key="shape")
            return
        x = A.sym("x")
        q = [A.sym("Qr", positive=True), A.sym("Qm"), A.sym("QE", positive=True)]
        builtin = [ctx.call(ctx.method(nm), x, q) for nm in ("src_mass", "src_mom", "src_energy")]
        for i in range(3):
            want = builtin[i] + (A.opaque("U%d" % i, [x, q]) if pattern[i] else 0)
            try:
                got = it.call_value(srcs[i], [x, q])
            except SelfRecursion as e:
                check.violation("NOZ-COMPOSE", init.qualname, "ALIAS-SELFREF: the composed source of equation %d calls itself (the composed list aliases the list it reads): RecursionError at the first residual evaluation" % i, loc, key="selfref")
                continue
            except AnalysisError as e:
                check.violation("NOZ-COMPOSE", init.qualname, "composed source of equation %d is not callable as (x, q): %s" % (i, e), loc, key="call-%d" % i)
                continue
            ok = isinstance(got, RF) and A.equal(got, want)
            check.record("NOZ-COMPOSE", "%s [user sources %s]" % (init.qualname, tag), ok,
                         "equation %d: composed source == %sbuilt-in area source" % (i, "user source + " if pattern[i] else "") if ok else
                         "CLOSURE-LATE: equation %d gets %s, expected %s (loop variables are read when the lambda is called, after the loop)" % (i, A.show(got, 100) if isinstance(got, RF) else got, A.show(want, 100)),
                         loc, key="compose-%d" % i)


def noz_geom(check, proj):
    # built-in sources == -G * (mass, momentum-convective, enthalpy) fluxes
    ctx = Ctx(proj, "nozzle")
    A = ctx.alg
    W = ctx.prim("")
    q = ctx.prim2cons(W)
    G = ctx.selfobj.attrs["geomterm"]
    rho, u, p = W
    gam = ctx.selfobj.attrs["gamma"]
    H = gam * p / (rho * (gam - 1)) + u * u / 2
    want = {"src_mass": -G * rho * u, "src_mom": -G * rho * u * u, "src_energy": -G * rho * u * H}
    x = A.sym("x")
    for nm, w in want.items():
        f = ctx.method(nm)
        got = ctx.call(f, x, q)
        _decide(check, "NOZ-GEOM", f.qualname, f.loc(), A, got, w, "%s == -(1/A dA/dx) * %s flux" % (nm, {"src_mass": "mass", "src_mom": "momentum-convective", "src_energy": "enthalpy"}[nm]), key="geom")
    # G decoded from initdisc
    D = Disc1D(proj)
    A2 = D.alg
    cls = proj.cls("euler.nozzle")
    f = proj.resolve(cls, "initdisc")
    # a test on the VALUES of the geometric term (np.all / np.any of it: "no section variation") is met with both outcomes: the
    # formula must hold on each (one cell of constant section must not switch the term off everywhere)
    used = []
    outcome = [True]

    D.interp.np_hooks["all"] = lambda args, kwargs: (used.append("all"), outcome[0])[1]
    D.interp.np_hooks["any"] = lambda args, kwargs: (used.append("any"), outcome[0])[1]
    so = SelfObj(cls, {"sectionlaw": OpaqueFn("A", positive=True)})
    D.interp.call_function(f, [so, D.mesh])
    g = so.attrs.get("geomterm")
    if used:
        # the other outcome: whatever it stores must be the same term
        outcome[0] = False
        so2 = SelfObj(cls, {"sectionlaw": OpaqueFn("A", positive=True)})
        D.interp.call_function(f, [so2, D.mesh])
        g2 = so2.attrs.get("geomterm")
        same = isinstance(g, SArr) and isinstance(g2, SArr) and len(g.segs) == len(g2.segs) == 1 and A2.equal(g.segs[0][2], g2.segs[0][2])
        # (np.any(...) False says EVERY entry vanishes: storing zeros there stores the same values)
        allzero = set(used) == {"any"} and isinstance(g2, SArr) and len(g2.segs) == 1 and g2.segs[0][2].is_zero()
        if not same and not allzero:
            check.violation("NOZ-GEOM", f.qualname, "the geometric term depends on a REDUCTION over its own values (np.all / np.any of the array, line %s): one outcome stores %s, the other %s -- a property of one cell (a cell of constant section has a zero term) decides the term of every cell" % (getattr(D.interp.dom, "cur_line", "?"), A2.show(g.segs[0][2], 60) if isinstance(g, SArr) else g, A2.show(g2.segs[0][2], 60) if isinstance(g2, SArr) else g2), f.loc(), key="G-reduction")
            return
    if not (isinstance(g, SArr) and g.length == N and len(g.segs) == 1):
        check.violation("NOZ-GEOM", f.qualname, "geomterm is not one relation over the n cells: %s" % (g,), f.loc(), key="gshape")
        return
    xf0, xf1, xc0 = D.stn.rel("xf", 0), D.stn.rel("xf", 1), D.stn.rel("xc", 0)
    sec = lambda z: A2.opaque("A", [z], positive=True)
    wantg = (sec(xf1) - sec(xf0)) / ((xf1 - xf0) * sec(xc0))
    _decide(check, "NOZ-GEOM", f.qualname, f.loc(), A2, g.segs[0][2], wantg,
            "geomterm[c] == (A(xf[c+1])-A(xf[c])) / ((xf[c+1]-xf[c]) * A(xc[c])) (zero for a constant section)", key="G")
    xcattr = so.attrs.get("_xc")
    ok = isinstance(xcattr, SArr) and A2.equal(xcattr.segs[0][2], xc0)
    check.record("NOZ-GEOM", f.qualname, ok, "the nozzle's cell positions are the mesh centres", f.loc(), key="xc")


def body(check):
    proj = check.proj
    check.explanation = ("static analysis: add_source is abstractly interpreted with uninterpreted per-equation sources (each "
                         "equation receives exactly its own source once, None skipped); rhs wiring and callers by AST query; the "
                         "nozzle constructor is interpreted with Python's closure semantics (free variables read at call time, "
                         "defaults bound at definition, self-recursion detected) and each composed callable compared with "
                         "user + built-in; built-in sources and the geometric factor are ring identities against the flux table")
    check.assume("user source callables are pure functions of (x, q) returning fresh arrays or scalars")
    check.guarded("SRC-ONCE", "modeldisc", lambda: src_once(check, proj))
    check.guarded("SRC-STORE", "modelphy", lambda: src_store(check, proj))
    check.guarded("NOZ-COMPOSE", "euler.nozzle", lambda: noz_compose(check, proj))
    check.guarded("NOZ-GEOM", "euler.nozzle", lambda: noz_geom(check, proj))
    from ..units import check_source_units
    check_source_units(check, "UNIT-HOMOG")
