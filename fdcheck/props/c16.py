"""C16 — boundary states satisfy the conditions that define them.

Rules: REG-BC (registry, signature, dispatch, call sites), BC-EQUIVARIANT (reflection / grid
symmetry equivariance as ring identities: the clause 'on either side / all four sides'),
BC-DEF (defining identities of each condition), BC-INFLOW (sign of the normal velocity)."""
import ast

from ..disc1d import Disc1D, N
from ..interp import Vec, ParamDict, ObjStub
from ..models import Ctx, MODELS, flat
from ..project import AnalysisError, unparse
from ..stencil import SArr
from .c02 import _decide, _fmt_w

STATED = {
    "euler1d": ["dirichlet", "sym", "insub", "insub_cbc", "insup", "outsub", "outsub_prim", "outsub_qtot", "outsub_rh", "outsub_nrcbc", "outsup"],
    "euler2d": ["dirichlet", "sym", "insub", "insup", "outsub", "outsup"],
    "shallowwater": ["dirichlet", "sym", "inf"],
    "convection": ["dirichlet"],
    "burgers": ["dirichlet"],
}


def reg_bc(check):
    proj = check.proj
    n = 0
    for key, names in STATED.items():
        cls = proj.cls(MODELS[key]["cls"])
        reg = proj.instance_registry(cls, "_bcdict")
        for nm in names:
            n += 1
            if nm not in reg:
                check.violation("REG-BC", "%s._bcdict" % cls.qualname, "boundary condition %r of the statement is not registered" % nm, cls.loc(), key=nm)
                continue
            f = reg[nm]
            ok = len(f.params) == 4
            check.record("REG-BC", "%s[%s]" % (cls.qualname, nm), ok, "registered -> %s(self, dir, data, param)" % f.qualname if ok else "%s has signature %s" % (f.qualname, f.params), f.loc(), key="sig-" + nm, nontrivial=False)
    check.inventory["registered boundary conditions"] = n
    f = proj.func("modelphy.base.model.namedBC")
    ok = False
    for node in ast.walk(f.node):
        if isinstance(node, ast.Call) and isinstance(node.func, ast.Subscript):
            args = [a.id if isinstance(a, ast.Name) else None for a in node.args]
            if args == [f.params[0], f.params[2], f.params[3], f.params[4]] and isinstance(node.func.slice, ast.Name) and node.func.slice.id == f.params[1] and "_bcdict" in unparse(node.func.value):
                ok = True
    check.record("REG-BC", f.qualname, ok, "namedBC(name, dir, data, param) calls _bcdict[name](self, dir, data, param)", f.loc(), key="dispatch")
    sites_1d(check, proj, "REG-BC")


class _UserBcDict(dict):
    """the user's boundary-condition dictionary as the call site may use it: its 'type', and the dictionary as a
    whole (handed to the boundary function).  Any other key read at the call site is a value the LIBRARY wrote into
    the user's object (the constructor adding the face direction, an index ...): one dictionary object used for both
    ends, or re-used for a second discretisation, carries a single value"""
    def _fd_missing(self, key, func, ln):
        e = AnalysisError("%s:%d the boundary call site reads key %r of the user's boundary dictionary" % (func.qualname, ln, key))
        e.violation = ("BC-SITE-DICT", func.qualname, "the call site reads `[%r]` from the user's boundary-condition dictionary (line %d) -- a value the library itself stores there: when one dictionary object serves both ends (bcL is bcR) or is re-used for another discretisation (a mirrored twin built with the dictionaries exchanged), the later write wins and one end gets the other's value (for 'dir': inflow conditions flow out, characteristic outlets keep the wrong invariant)" % (key, ln),
                       "site-dict-" + str(key), {"C16", "C13", "C01", "C03"})
        return e


def sites_1d(check, proj, rule="REG-BC"):
    """the two namedBC call sites of fvm1d.calc_bc, decoded: which direction, which interior face
    state is handed over, where the result is stored"""
    # 1D call sites, decoded
    D = Disc1D(proj, neq=2, periodic=False)
    A = D.alg
    D.so.attrs["bcL"] = _UserBcDict({"type": "TYPE-L", "tag": "L"})
    D.so.attrs["bcR"] = _UserBcDict({"type": "TYPE-R", "tag": "R"})
    D.so.attrs["pL"] = [D.stn.input("L0", N + 1), D.stn.input("L1", N + 1)]
    D.so.attrs["pR"] = [D.stn.input("R0", N + 1), D.stn.input("R1", N + 1)]
    calls = []

    def namedBC(name, dirv, data, param):
        out = [A.sym("B%s%d" % (param.get("tag"), i)) for i in range(2)]
        calls.append((name, dirv, data, param, out))
        return out
    D.so.attrs["model"] = ObjStub("model", {"namedBC": namedBC})
    D.fvm("calc_bc")
    g = proj.func("modeldisc.fvm1d.calc_bc")
    if len(calls) != 2:
        check.violation(rule, g.qualname, "%d namedBC calls for two non-periodic boundaries" % len(calls), g.loc(), key="ncalls")
        return
    for name, dirv, data, param, out in calls:
        side = param.get("tag")
        want_dir = -1 if side == "L" else 1
        idx = 0 if side == "L" else N
        src = "R" if side == "L" else "L"         # interior side of the face
        dst = "L" if side == "L" else "R"
        ok = name == "TYPE-%s" % side and dirv == want_dir
        ok_in = isinstance(data, list) and len(data) == 2 and all(A.equal(data[i], D.stn.absol("%s%d" % (src, i), idx)) for i in range(2))
        arrs = D.so.attrs["p" + dst]
        ok_out = all(A.equal(D.stn.elem(arrs[i], idx), out[i]) for i in range(2))
        other = D.so.attrs["p" + src]
        ok_keep = all(A.equal(D.stn.elem(other[i], idx), D.stn.absol("%s%d" % (src, i), idx)) for i in range(2))
        good = ok and ok_in and ok_out and ok_keep
        check.record(rule, "%s [%s boundary]" % (g.qualname, "left" if side == "L" else "right"), good,
                     "namedBC(type, %+d, interior p%s[.][%s], bc dict) and the result is stored as the exterior state p%s[.][%s]" % (want_dir, src, "0" if side == "L" else "n", dst, "0" if side == "L" else "n") if good else
                     "call site passes type=%s dir=%s interior-ok=%s stores-exterior=%s interior-kept=%s (expected dir %+d, interior side p%s, exterior side p%s)" % (name, dirv, ok_in, ok_out, ok_keep, want_dir, src, dst),
                     g.loc(), key="site-" + side)


# --------------------------------------------------------------------------- equivariance
def sigma1d(ctx, W):
    return [(-v if par == "odd" else v) for v, par in zip(W, ctx.spec["parity"])]


def params_1d(ctx, tag=""):
    A = ctx.alg
    return ParamDict({}, make=lambda k: (ctx.prim("prm") if k == "prim" else A.sym("param_" + k, positive=True)))


def equivariant(check, key):
    proj = check.proj
    cls = proj.cls(MODELS[key]["cls"])
    reg = proj.instance_registry(cls, "_bcdict")
    seen = set()
    for name, f in sorted(reg.items()):
        if f.qualname in seen or name == "dirichlet":
            continue
        seen.add(f.qualname)
        construct = f.qualname
        try:
            if MODELS[key]["dim"] == 1:
                ctx = Ctx(proj, key)
                A = ctx.alg
                A.start_clock()
                d = A.sym("dir", unit=True)
                W = ctx.prim("")
                prm = params_1d(ctx)
                out1 = ctx.call(f, d, W, prm)
                out2 = ctx.call(f, -d, sigma1d(ctx, W), prm)
                want = sigma1d(ctx, out1)
                for (lab, a), (_, b), cn in zip(flat(out2), flat(want), ctx.spec["prim"]):
                    _decide(check, "BC-EQUIVARIANT", construct, f.loc(), A, a, b,
                            "bc(-dir, mirror(W)).%s == mirror(bc(dir, W)).%s : the condition is the same on the left and on the right side" % (cn, cn), key="equiv-" + cn)
            else:
                for gen in ("reflect-x", "reflect-y", "swap-xy"):
                    for angle in ((False, True) if "insup" in name else (False,)):
                        ctx = Ctx(proj, key)
                        A = ctx.alg
                        A.start_clock()
                        n = ctx.dir2d()
                        W = ctx.prim("")
                        if angle and gen != "reflect-x":
                            continue
                        prm = ParamDict({}, make=lambda k: A.sym("param_" + k, positive=True))
                        if angle:
                            prm.present.add("angle")

                        def g(v):
                            if gen == "reflect-x":
                                return Vec(-v.x, v.y)
                            if gen == "reflect-y":
                                return Vec(v.x, -v.y)
                            return Vec(v.y, v.x)
                        if angle:
                            continue     # imposed flow direction: not a symmetry of the condition, see BC-DEF
                        out1 = ctx.call(f, n, W, prm)
                        out2 = ctx.call(f, g(n), [W[0], g(W[1]), W[2]], prm)
                        want = [out1[0], g(out1[1]), out1[2]]
                        for (lab, a), (_, b) in zip(flat(out2), flat(want)):
                            _decide(check, "BC-EQUIVARIANT", construct, f.loc(), A, a, b,
                                    "bc commutes with the grid symmetry %s (component %s): same condition on all four sides" % (gen, lab), key="equiv-%s-%s" % (gen, lab))
        except AnalysisError as e:
            check.undecided("BC-EQUIVARIANT", construct, "analysis error: %s" % e, f.loc())


# --------------------------------------------------------------------------- definitions
def totals(A, gam, rho, v2, p):
    F = 1 + (gam - 1) / 2 * rho * v2 / (gam * p)
    return p * A.pow(F, gam / (gam - 1)), p / rho * F


def bc_def_1d(check, proj):
    key = "euler1d"
    cls = proj.cls(MODELS[key]["cls"])
    reg = proj.instance_registry(cls, "_bcdict")

    def setup():
        ctx = Ctx(proj, key)
        A = ctx.alg
        A.start_clock()
        return ctx, A, ctx.selfobj.attrs["gamma"], A.sym("dir", unit=True), ctx.prim("")

    def dec(rule, f, A, a, b, what, k):
        _decide(check, rule, f.qualname, f.loc(), A, a, b, what, key=k)

    # ---- inlets
    for name in ("insub", "insup"):
        if name not in reg:
            continue
        f = reg[name]
        ctx, A, gam, d, W = setup()
        rho, u, p = W
        M2 = A.sym("Min2", positive=True)
        rttot = A.sym("rttot", positive=True)
        pref = p if name == "insub" else A.sym("p_imposed", positive=True)
        ptot = pref * A.pow(1 + (gam - 1) / 2 * M2, gam / (gam - 1))       # any ptot >= p, parametrised by Min2 >= 0
        prm = ParamDict({"ptot": ptot, "rttot": rttot, "p": pref})
        out = ctx.call(f, d, W, prm)
        r1, u1, p1 = out
        PT, RT = totals(A, gam, r1, u1 * u1, p1)
        dec("BC-DEF", f, A, p1, pref, "%s: pressure == %s" % (name, "interior pressure" if name == "insub" else "imposed pressure"), "p")
        dec("BC-DEF", f, A, PT, ptot, "%s: total pressure of the boundary state == imposed ptot (regime ptot >= p, parametrised)" % name, "ptot")
        dec("BC-DEF", f, A, RT, rttot, "%s: total temperature of the boundary state == imposed rttot" % name, "rttot")
        s = A.sign(u1 * d)
        check.record("BC-INFLOW", f.qualname, True if s in ("-", "<=0") else None, "%s: normal velocity u'*dir <= 0 (flow enters the domain) on either side" % name if s in ("-", "<=0") else "sign of u'*dir is %s" % s, f.loc(), key="inflow")
    # ---- characteristic inlet
    if "insub_cbc" in reg:
        f = reg["insub_cbc"]
        ctx, A, gam, d, W = setup()
        rho, u, p = W
        ptot, rttot = A.sym("ptot", positive=True), A.sym("rttot", positive=True)
        out = ctx.call(f, d, W, ParamDict({"ptot": ptot, "rttot": rttot}))
        r1, u1, p1 = out
        PT, RT = totals(A, gam, r1, u1 * u1, p1)
        dec("BC-DEF", f, A, PT, ptot, "insub_cbc: total pressure == imposed ptot", "ptot")
        dec("BC-DEF", f, A, RT, rttot, "insub_cbc: total temperature == imposed rttot", "rttot")
        a0 = A.sqrt(gam * p / rho)
        # the invariant carried by the characteristic leaving the domain through this boundary,
        # J = u + dir*2a/(gamma-1):  J' == J  <=>  (J - u')^2 (gamma-1)^2/4 == a'^2 = gamma p'/rho'
        # (squared form: no root selection; the regime a' > 0 is assumed)
        J = u + d * 2 * a0 / (gam - 1)
        dec("BC-DEF", f, A, (J - u1) * (J - u1) * (gam - 1) * (gam - 1) / 4, gam * p1 / r1,
            "insub_cbc: outgoing Riemann invariant u + dir*2a/(gamma-1) of the returned state == interior one (squared form, a' = sqrt(gamma p'/rho') of the returned state)", "invariant")
    # ---- outlets
    for name in ("outsub", "outsub_prim"):
        if name in reg:
            f = reg[name]
            ctx, A, gam, d, W = setup()
            pp = A.sym("p_imposed", positive=True)
            out = ctx.call(f, d, W, ParamDict({"p": pp}))
            for (lab, a), b, cn in zip(flat(out), [W[0], W[1], pp], ["density copied", "velocity copied", "pressure imposed"]):
                dec("BC-DEF", f, A, a, b, "%s: %s" % (name, cn), "def-" + lab)
    if "outsub_qtot" in reg:
        f = reg["outsub_qtot"]
        ctx, A, gam, d, W = setup()
        rho, u, p = W
        PTi, RTi = totals(A, gam, rho, u * u, p)
        Mo2 = A.sym("Mout2", positive=True)
        pp = PTi / A.pow(1 + (gam - 1) / 2 * Mo2, gam / (gam - 1))        # any imposed p <= interior ptot
        out = ctx.call(f, d, W, ParamDict({"p": pp}))
        r1, u1, p1 = out
        PT, RT = totals(A, gam, r1, u1 * u1, p1)
        dec("BC-DEF", f, A, p1, pp, "outsub_qtot: pressure == imposed p", "p")
        dec("BC-DEF", f, A, PT, PTi, "outsub_qtot: total pressure == interior total pressure (regime p <= ptot, parametrised)", "ptot")
        dec("BC-DEF", f, A, RT, RTi, "outsub_qtot: total temperature == interior total temperature", "rttot")
        s = A.sign(u1 * d)
        check.record("BC-INFLOW", f.qualname, True if s in ("+", ">=0") else None, "outsub_qtot: normal velocity u'*dir >= 0 (flow leaves the domain) on either side" if s in ("+", ">=0") else "sign of u'*dir is %s" % s, f.loc(), key="outflow")
    if "outsub_nrcbc" in reg:
        f = reg["outsub_nrcbc"]
        ctx, A, gam, d, W = setup()
        rho, u, p = W
        pp = A.sym("p_imposed", positive=True)
        out = ctx.call(f, d, W, ParamDict({"p": pp}))
        r1, u1, p1 = out
        dec("BC-DEF", f, A, p1, pp, "outsub_nrcbc: pressure == imposed p", "p")
        dec("BC-DEF", f, A, p1 / A.pow(r1, gam), p / A.pow(rho, gam), "outsub_nrcbc: entropy p/rho^gamma == interior entropy", "entropy")
        a0, a1 = A.sqrt(gam * p / rho), A.sqrt(gam * p1 / r1)
        # the same outgoing invariant as for insub_cbc: carried by the characteristic that leaves the
        # domain through this boundary (C+ on the right, C- on the left)
        dec("BC-DEF", f, A, u1 + d * 2 * a1 / (gam - 1), u + d * 2 * a0 / (gam - 1),
            "outsub_nrcbc: outgoing Riemann invariant u + dir*2a/(gamma-1) == interior value", "invariant")
    if "outsub_rh" in reg:
        f = reg["outsub_rh"]
        ctx, A, gam, d, W = setup()
        rho, u, p = W
        pp = A.sym("p_imposed", positive=True)
        out = ctx.call(f, d, W, ParamDict({"p": pp}))
        r1, u1, p1 = out
        dec("BC-DEF", f, A, p1, pp, "outsub_rh: pressure == imposed p", "p")
        Ws = (r1 * u1 - rho * u) / (r1 - rho)                 # shock speed defined by mass conservation
        v0, v1 = u - Ws, u1 - Ws
        dec("BC-DEF", f, A, rho * v0 * v0 + p, r1 * v1 * v1 + p1, "outsub_rh: Rankine-Hugoniot momentum jump relation in the shock frame", "rh-mom")
        h0, h1 = gam / (gam - 1) * p / rho, gam / (gam - 1) * p1 / r1
        dec("BC-DEF", f, A, h0 + v0 * v0 / 2, h1 + v1 * v1 / 2, "outsub_rh: Rankine-Hugoniot energy jump relation in the shock frame", "rh-en")
        # the shock belongs to the family that enters the domain through this boundary: Ws*dir <= u*dir
        loc = ctx.interp.ev.locals.get(f.qualname, {})
    if "outsup" in reg:
        f = reg["outsup"]
        ctx, A, gam, d, W = setup()
        out = ctx.call(f, d, W, ParamDict({}))
        for (lab, a), (_, b) in zip(flat(out), flat(W)):
            dec("BC-DEF", f, A, a, b, "outsup: copies the interior state (component %s)" % lab, "copy-" + lab)
    if "sym" in reg:
        f = reg["sym"]
        ctx, A, gam, d, W = setup()
        out = ctx.call(f, d, W, ParamDict({}))
        for (lab, a), b, cn in zip(flat(out), [W[0], -W[1], W[2]], ["density kept", "normal velocity reversed", "pressure kept"]):
            dec("BC-DEF", f, A, a, b, "sym: %s" % cn, "sym-" + lab)


def bc_def_other(check, proj):
    # shallow water
    key = "shallowwater"
    cls = proj.cls(MODELS[key]["cls"])
    reg = proj.instance_registry(cls, "_bcdict")
    for name, wantf in (("sym", lambda W: [W[0], -W[1]]), ("inf", lambda W: [W[0], W[1]])):
        if name not in reg:
            continue
        f = reg[name]
        ctx = Ctx(proj, key)
        A = ctx.alg
        W = ctx.prim("")
        out = ctx.call(f, A.sym("dir", unit=True), W, ParamDict({}))
        ok = len(flat(out)) == 2
        if not ok:
            check.violation("BC-DEF", f.qualname, "%s returns %d components" % (name, len(flat(out))), f.loc(), key="ncomp")
            continue
        for (lab, a), b in zip(flat(out), wantf(W)):
            _decide(check, "BC-DEF", f.qualname, f.loc(), A, a, b, "shallow water %s: %s" % (name, "[h, -u]" if name == "sym" else "copies the interior state"), key="sw-%s-%s" % (name, lab))
    # dirichlet for every model: the function each model's registry binds to the name (the base one, or an override)
    seen_d = set()
    for mkey in ("euler1d", "euler2d", "shallowwater", "convection", "burgers", "nozzle"):
        if mkey not in MODELS or not proj.has_cls(MODELS[mkey]["cls"]):
            continue
        mcls = proj.cls(MODELS[mkey]["cls"])
        f = proj.instance_registry(mcls, "_bcdict").get("dirichlet")
        if f is None or (f.qualname, mkey == "euler2d") in seen_d:
            continue
        seen_d.add((f.qualname, mkey == "euler2d"))
        ctx = Ctx(proj, mkey)
        A = ctx.alg
        prim = ctx.prim("prm")
        nrm = Vec(A.sym("nx"), A.sym("ny")) if mkey == "euler2d" else A.sym("dir", unit=True)
        try:
            out = ctx.call(f, nrm, ctx.prim(""), ParamDict({"prim": prim}))
        except AnalysisError as e:
            check.failed("BC-DEF", "%s [%s]" % (f.qualname, mkey), e, f.loc())
            continue
        ok = isinstance(out, (list, tuple)) and len(out) == len(prim) and all(A.equal(a, b) for (_, a), (_, b) in zip(flat(list(out)), flat(prim))) and len(flat(list(out))) == len(flat(prim))
        check.record("BC-DEF", "%s [%s]" % (f.qualname, mkey), ok, "dirichlet returns param['prim'] unmodified", f.loc(), key="dirichlet")
    # 2D Euler
    key = "euler2d"
    cls = proj.cls(MODELS[key]["cls"])
    reg = proj.instance_registry(cls, "_bcdict")

    def setup2():
        ctx = Ctx(proj, key)
        A = ctx.alg
        A.start_clock()
        cx, sy = A.sym("cn"), A.sym("sn")
        nrm = A.sqrt(cx * cx + sy * sy)
        return ctx, A, ctx.selfobj.attrs["gamma"], Vec(cx / nrm, sy / nrm), ctx.prim("")
    if "sym" in reg:
        f = reg["sym"]
        ctx, A, gam, n, W = setup2()
        out = ctx.call(f, n, W, ParamDict({}))
        V, V1 = W[1], out[1]
        dot = lambda a, b: a.x * b.x + a.y * b.y
        _decide(check, "BC-DEF", f.qualname, f.loc(), A, dot(V1, n), -dot(V, n), "2D sym: normal velocity reversed for any unit normal", key="sym-n")
        tx, ty = -n.y, n.x
        _decide(check, "BC-DEF", f.qualname, f.loc(), A, V1.x * tx + V1.y * ty, V.x * tx + V.y * ty, "2D sym: tangential velocity kept", key="sym-t")
        _decide(check, "BC-DEF", f.qualname, f.loc(), A, out[0], W[0], "2D sym: density kept", key="sym-rho")
        _decide(check, "BC-DEF", f.qualname, f.loc(), A, out[2], W[2], "2D sym: pressure kept", key="sym-p")
    for name in ("insub", "insup"):
        if name not in reg:
            continue
        f = reg[name]
        for with_angle in ((False, True) if name == "insup" else (False,)):
            ctx, A, gam, n, W = setup2()
            rho, V, p = W
            M2 = A.sym("Min2", positive=True)
            rttot = A.sym("rttot", positive=True)
            pref = p if name == "insub" else A.sym("p_imposed", positive=True)
            ptot = pref * A.pow(1 + (gam - 1) / 2 * M2, gam / (gam - 1))
            ent = {"ptot": ptot, "rttot": rttot, "p": pref}
            if name == "insub":
                # 'insub' takes its pressure from the interior and its direction from the normal: keys of OTHER conditions
                # left in the caller's dictionary (one reference dictionary whose 'type' is switched) must not matter
                ent["p"] = A.sym("p_spare_key", positive=True)
                ent["angle"] = A.sym("angle_spare_key")
            ang = None
            if with_angle:
                ent["angle"] = A.sym("angle_deg")
                # (cos, sin) of the imposed angle: a symbolic unit vector (C, S)/sqrt(C^2+S^2)
                C, S_ = A.sym("Cang"), A.sym("Sang")
                nr = A.sqrt(C * C + S_ * S_)
                ang = (C / nr, S_ / nr)
                ctx.interp.np_hooks = {"deg2rad": lambda a, k: a[0], "cos": lambda a, k: ang[0], "sin": lambda a, k: ang[1]}
            prm = ParamDict(ent)
            try:
                out = ctx.call(f, n, W, prm)
            except AnalysisError as e:
                check.undecided("BC-DEF", f.qualname, "2D %s%s: %s" % (name, " with angle" if with_angle else "", e), f.loc())
                continue
            r1, V1, p1 = out
            v2 = V1.x * V1.x + V1.y * V1.y
            if with_angle:
                _decide(check, "BC-DEF", f.qualname, f.loc(), A, V1.x * ang[1] - V1.y * ang[0], A.const(0), "2D insup with angle: velocity is along the unit vector (cos, sin) of the imposed angle", key="angle-dir")
                s = A.sign(V1.x * ang[0] + V1.y * ang[1])
                check.record("BC-INFLOW", f.qualname, True if s in ("+", ">=0") else None, "2D insup with angle: velocity points along (cos, sin), not against it" if s in ("+", ">=0") else "sign of V'.(cos,sin) is %s" % s, f.loc(), key="angle-sense")
            suffix = " (imposed angle)" if with_angle else ""
            PT, RT = totals(A, gam, r1, v2, p1)
            _decide(check, "BC-DEF", f.qualname, f.loc(), A, p1, pref, "2D %s%s: pressure == %s" % (name, suffix, "interior pressure" if name == "insub" else "imposed pressure"), key="p" + suffix)
            _decide(check, "BC-DEF", f.qualname, f.loc(), A, PT, ptot, "2D %s%s: total pressure == imposed ptot" % (name, suffix), key="ptot" + suffix)
            _decide(check, "BC-DEF", f.qualname, f.loc(), A, RT, rttot, "2D %s%s: total temperature == imposed rttot" % (name, suffix), key="rttot" + suffix)
            if not with_angle:
                _decide(check, "BC-DEF", f.qualname, f.loc(), A, V1.x * n.y - V1.y * n.x, A.const(0), "2D %s: velocity is along the boundary normal" % name, key="normal")
                s = A.sign(V1.x * n.x + V1.y * n.y)
                check.record("BC-INFLOW", f.qualname, True if s in ("-", "<=0") else None, "2D %s: V'.n <= 0 (flow enters through any side)" % name if s in ("-", "<=0") else "sign of V'.n is %s" % s, f.loc(), key="inflow")
    if "outsub" in reg:
        f = reg["outsub"]
        ctx, A, gam, n, W = setup2()
        pp = A.sym("p_imposed", positive=True)
        out = ctx.call(f, n, W, ParamDict({"p": pp}))
        for (lab, a), (_, b) in zip(flat(out), flat([W[0], W[1], pp])):
            _decide(check, "BC-DEF", f.qualname, f.loc(), A, a, b, "2D outsub: density and velocity copied, pressure imposed (component %s)" % lab, key="o-" + lab)
    if "outsup" in reg:
        f = reg["outsup"]
        ctx, A, gam, n, W = setup2()
        out = ctx.call(f, n, W, ParamDict({}))
        for (lab, a), (_, b) in zip(flat(out), flat(W)):
            _decide(check, "BC-DEF", f.qualname, f.loc(), A, a, b, "2D outsup: copies the interior state (component %s)" % lab, key="c-" + lab)


def body(check):
    proj = check.proj
    check.explanation = ("static analysis: registry / signature / dispatch / call-site decoding (which side passes which direction "
                         "and interior state); every boundary-condition function lowered to value numbers with `dir` a symbolic "
                         "unit (dir^2 = 1) or symbolic unit normal: reflection / grid-symmetry equivariance and the defining "
                         "identities (total pressure and temperature with exponents in Q(gamma), entropy, Riemann invariants "
                         "modulo the square-root atom, Rankine-Hugoniot jump relations) are ring identities for all interior "
                         "states and parameters; regimes (ptot >= p) are parametrised, not sampled")
    check.trusted += ["definitions of total pressure / total temperature / invariants transcribed from the statement (c16.totals)"]
    check.assume("regimes: inlets ptot >= p and qtot outlet p <= interior ptot (the max(0,.) clamp is inactive); admissible states")
    check.assume("'outgoing Riemann invariant' (insub_cbc, outsub_nrcbc) is u + dir*2a/(gamma-1): the invariant of the characteristic of speed u + dir*a, which leaves the domain through a boundary of outward normal dir")
    reg_bc(check)
    for key in ("euler1d", "shallowwater", "euler2d"):
        check.guarded("BC-EQUIVARIANT", key, lambda: equivariant(check, key))
    check.guarded("BC-DEF", "euler1d", lambda: bc_def_1d(check, proj))
    check.guarded("BC-DEF", "other", lambda: bc_def_other(check, proj))
    check.floor("registered boundary conditions", check.inventory.get("registered boundary conditions", 0), 22)
    from . import c15
    if check.guarded("LAYOUT-AGREE", "modeldisc.fvm2dcart", lambda: c15.layout_agree(check)):
        check.guarded("BC-2D-SITE", "modeldisc.fvm2dcart.calc_bc", lambda: c15.bc_sites(check))
