"""C20 — meshes are valid partitions with consistent connectivity.

Rules: MESH-COUNT, MESH-SPAN, MESH-CENTRE, MESH-VOL, MESH-MONO, MESH-REFINED, INT-TRUNC,
MESH-AVG, MESH2D-COUNT, MESH2D-BC, MESH2D-VOL."""
import ast
from fractions import Fraction

from ..algebra import Algebra, RF
from ..interp import Interp, GvnDomain, SelfObj, Vec
from ..meshes import MeshBuild, MESH_CLASSES, FaceSeq, N
from ..project import AnalysisError, unparse
from ..stencil import SArr, NLin
from .c02 import _decide


def mesh_1d(check, proj, clsname):
    mb = MeshBuild(proj, clsname)
    A = mb.alg
    q = mb.cls.qualname
    loc = mb.init.loc()
    n1 = mb.ncell_atom + 1
    final = mb.final_xf()
    # MESH-COUNT: every assignment to xf has ncell+1 faces
    for name, v in mb.versions:
        sq = mb.seq_of(v)
        _decide(check, "MESH-COUNT", q, loc, A, sq.count, n1, "face array %s has ncell+1 entries" % name, key="count")
    sq = mb.seq_of(mb.versions[-1][1])
    # MESH-SPAN
    x0 = mb.params.get("x0", A.const(0))
    length = mb.params["length"]
    if "morph" in mb.params:
        wf, wl = A.opaque("morph", [x0]), A.opaque("morph", [x0 + length])
        what = "the image [morph(x0), morph(x0+length)]"
    else:
        wf, wl = x0, x0 + length
        what = "[x0, x0+length]"
    _decide(check, "MESH-SPAN", q, loc, A, sq.first, wf, "first face == lower end of %s" % what, key="first")
    _decide(check, "MESH-SPAN", q, loc, A, sq.last, wl, "last face == upper end of %s" % what, key="last")
    if sq.parts:
        a, b = sq.parts
        _decide(check, "MESH-SPAN", q, loc, A, a.last + a.spacing, b.first, "the two zones join without gap or overlap", key="junction")
    # MESH-CENTRE / MESH-VOL with the FINAL face array (ordering rule)
    xf0, xf1 = mb.stn.rel(final, 0), mb.stn.rel(final, 1)
    xc = mb.call("centers")
    okc = isinstance(xc, SArr) and len(xc.segs) == 1 and xc.length == N and A.equal(xc.segs[0][2], (xf0 + xf1) / 2)
    if okc:
        check.ok("MESH-CENTRE", q, "centres are the midpoints of the final face array %s" % final, loc)
    else:
        stale = isinstance(xc, SArr) and any(nm in repr(xc) for nm, _ in mb.versions[:-1])
        check.violation("MESH-CENTRE", q, "centres() is %s: not the midpoints of the final faces%s" % (xc, " (computed from an earlier version of xf: calc_centers() must follow the last store to xf)" if stale else ""), loc, key="centre")
    for meth in ("vol", "dx"):
        v = mb.call(meth)
        okv = isinstance(v, SArr) and len(v.segs) == 1 and v.length == N and A.equal(v.segs[0][2], xf1 - xf0)
        if okv:
            check.ok("MESH-VOL", q, "%s() == xf[c+1]-xf[c] of the final face array" % meth, loc)
        else:
            check.violation("MESH-VOL", q, "%s() is %s, not the cell widths xf[c+1]-xf[c] of the final faces (stale or wrong sizes break conservation on this mesh)" % (meth, v), loc, key=meth)
    # MESH-MONO
    seqs = sq.parts or [sq]
    for i, part in enumerate(seqs):
        if part.spacing is None:
            continue
        if "morph" in mb.params:
            check.assume("monotone morphing function (user callable)")
            continue
        # rounding hypothesis for the refined mesh
        sp = part.spacing
        s = A.sign(sp)
        if s == "+":
            check.ok("MESH-MONO", q, "spacing of zone %d is positive for positive length, ratio, proportions" % (i + 1), loc)
        else:
            hyp = sp
            for ev in mb.int_events:
                hyp = A.subst(hyp, {next(iter(A.atoms_of(ev["atom"]))): ev["expr"]})
            s2 = A.sign(hyp)
            # the zone size is the ROUNDED proportion: any integer within 1/2 (rounding) or below by
            # less than 1 (truncation) of the real value.  Witness search over small meshes and a grid
            # of ratios / proportions, with the integer computed from the real value as the code does.
            w = _mono_witness(A, sp, mb)
            if w is not None:
                check.violation("MESH-MONO", q, "spacing of zone %d is %.4g <= 0 for %s: the zone sizes are rounded to integers but the cell size is computed from the real-valued proportion, so the first zone can already exceed the length and the faces of the second one run backwards (negative cell volumes)" % (i + 1, w[0], w[1]), loc, key="mono-%d" % (i + 1))
            elif s2 == "+":
                check.ok("MESH-MONO", q, "spacing of zone %d is positive with the zone size at its exact proportion, and on every small mesh of the witness grid with the rounded size" % (i + 1), loc)
            else:
                check.undecided("MESH-MONO", q, "sign of the spacing of zone %d not established" % (i + 1), loc)
    # MESH-REFINED + INT-TRUNC
    robust = False
    if sq.parts and "ratio" in mb.params:
        a, b = sq.parts
        # does the ratio hold for ANY integer zone size (cell size computed from the actual counts)?
        robust = A.equal(b.spacing, mb.params["ratio"] * a.spacing)
        if robust:
            check.ok("MESH-REFINED", q, "second-zone spacing == ratio * first-zone spacing for every zone size the rounding can produce (the cell size is computed from the actual cell counts)", loc)
        else:
            sub = {}
            for ev in mb.int_events:
                sub[next(iter(A.atoms_of(ev["atom"])))] = ev["expr"]
            s1, s2 = A.subst(a.spacing, sub), A.subst(b.spacing, sub)
            _decide(check, "MESH-REFINED", q, loc, A, s2, mb.params["ratio"] * s1,
                    "second-zone spacing == ratio * first-zone spacing when the proportion is a whole number of cells", key="ratio")
        _decide(check, "MESH-COUNT", q, loc, A, a.count + b.count, n1, "zone sizes nc1 + (nc2+1) == ncell+1", key="zones")
    for ev in mb.int_events:
        if ev["rounded"]:
            check.ok("INT-TRUNC", q, "cell count int(round(%s)) is rounding-safe" % A.show(ev["expr"], 60), loc)
        else:
            check.violation("INT-TRUNC", q, "float quotient %s converted with bare int(): 9.999999999999998 truncates to 9 although the requested proportion is a whole number of cells -- the first zone gets one cell fewer than requested%s" % (A.show(ev["expr"], 80), "" if robust else ", and the size ratio holds only at the exact proportion"), loc, key="int-trunc")


def _mono_witness(A, sp, mb):
    """-> (value, text) of a non-positive spacing on the witness grid, or None"""
    import itertools
    names = {"ncell": None, "length": 1.0}
    ints = [(next(iter(A.atoms_of(ev["atom"]))), ev) for ev in mb.int_events]
    saved = dict(A.point_hooks)
    try:
        for n, r, a, b in itertools.product(range(2, 41), (0.1, 0.25, 0.5, 2.0, 4.0, 10.0), (0.5, 1.0, 2.0, 5.0, 9.0), (1.0, 2.0, 3.0)):
            vals = {"ncell": float(n), "length": 1.0, "ratio": r, "nratioa": a, "nratiob": b, "x0": 0.0}
            for nm, v in vals.items():
                A.point_hooks[nm] = (lambda k, v=v: v)
            k = 9000
            A._memo.pop(k, None)
            ok = True
            for aid, ev in ints:
                x = A.evalf(ev["expr"], k)
                if x is None:
                    ok = False
                    break
                xi = float(round(float(x))) if ev["rounded"] else float(int(float(x)))
                A.point_hooks[A.atoms[aid].name] = (lambda k, v=xi: v)
            A._memo.pop(k, None)
            if not ok:
                continue
            v = A.evalf(sp, k)
            if v is not None and not v.is_nan() and float(v) <= 0.0:
                ctx = ", ".join("%s=%g" % (nm, vals[nm]) for nm in ("ncell", "ratio", "nratioa", "nratiob")) + "; " + ", ".join("%s=%g" % (A.atoms[aid].name, A.point_hooks[A.atoms[aid].name](k)) for aid, ev in ints)
                return float(v), ctx
        return None
    finally:
        A.point_hooks.clear()
        A.point_hooks.update(saved)


def averages(check, proj):
    """volume-weighted averages: the three methods are interpreted on the abstract 1D mesh (free
    face array, symbolic ncell) with an arbitrary data array d; sums over cells are symbolic
    (linear, index-free factors taken out), so  average == Sum(d*vol)/Sum(vol)  etc. are ring
    identities, and exactness for a constant follows by substituting d := c"""
    mb = MeshBuild(proj, "mesh1d")
    A = mb.alg
    mb.it.count_rf = mb.ncell_atom
    xf = mb.final_xf()
    vol = SArr(N, [(0, N, mb.stn.rel(xf, 1) - mb.stn.rel(xf, 0))])
    d = mb.stn.input("d", N)
    c = A.sym("cst")
    cst = SArr(N, [(0, N, c)])
    S = lambda arr: mb.stn.summation(arr, mb.ncell_atom)
    mul = lambda a, b: mb.stn.zip_map(lambda u, v: u * v, a, b)
    absd = mb.stn.zip_map(lambda u: A.abs(u), d)
    want = {"average": (S(mul(d, vol)) / S(vol), c, "Sum(d*vol)/Sum(vol)", "c"),
            "L1average": (S(mul(absd, vol)) / S(vol), A.abs(c), "Sum(|d|*vol)/Sum(vol)", "|c|"),
            "L2average": (A.sqrt(S(mul(mul(d, d), vol)) / S(vol)), A.abs(c), "sqrt(Sum(d^2*vol)/Sum(vol))", "|c|")}
    for name, (w_arr, w_cst, text, ctext) in want.items():
        f = proj.resolve(mb.cls, name)
        if f is None:
            raise AnalysisError("mesh1d.%s not found (anchor vanished?)" % name)
        # tolerance comparisons (np.isclose / allclose) the method may make are opaque conditions: each outcome
        # is realised by some mesh, so the identity must hold on every outcome path
        import itertools
        mb.it.cond_policy, mb.it.cond_log = [True] * 8, []
        mb.it.call_function(f, [mb.obj, d])
        ncond = len(mb.it.cond_log)
        if ncond > 3:
            raise AnalysisError("%s: more than 3 tolerance comparisons" % f.qualname)
        for pol in itertools.product((True, False), repeat=ncond):
            mb.it.cond_policy, mb.it.cond_log = list(pol), []
            got = mb.it.call_function(f, [mb.obj, d])
            path = (" [on the path: %s]" % "; ".join(mb.it.cond_log)) if ncond else ""
            _decide(check, "MESH-AVG", f.qualname, f.loc(), A, got, w_arr, "%s(d) == %s for every data array and every face array (volume weighted)%s" % (name, text, path), key="weights")
            mb.it.cond_policy, mb.it.cond_log = list(pol), []
            gotc = mb.it.call_function(f, [mb.obj, cst])
            _decide(check, "MESH-AVG", f.qualname, f.loc(), A, gotc, w_cst, "%s of a constant c == %s exactly%s" % (name, ctext, path), key="const")
        mb.it.cond_policy = None
        # ... and the constant ZERO in particular (a residual component that vanishes identically): the average of
        # zeros is 0, not 0/0
        zero = SArr(N, [(0, N, A.const(0))])
        try:
            got0 = mb.it.call_function(f, [mb.obj, zero])
            _decide(check, "MESH-AVG", f.qualname, f.loc(), A, got0 if not isinstance(got0, (int, Fraction)) else A.const(got0), A.const(0), "%s of an identically zero array == 0" % name, key="zero")
        except AnalysisError as e:
            if "division by literal zero" in str(e):
                check.violation("MESH-AVG", f.qualname, "%s of an identically zero array divides by an expression that is exactly zero there (0/0 = NaN): not exact for the constant 0 (a vanishing residual component is reported as NaN)" % name, f.loc(), key="zero-div")
            else:
                check.undecided("MESH-AVG", f.qualname, "%s of a zero array: %s" % (name, e), f.loc())


from ..stencil2d import Family         # index table a*k + b, k in [0, count)


def mesh_2d(check, proj):
    """every class of the 2D mesh family (mesh2d and the names derived from it, e.g. the `unimesh`
    alias) is constructed through ITS OWN constructor chain with symbolic (nx, ny, lx, ly)"""
    base = proj.cls("mesh2d.mesh2d")
    fam = [c for c in proj.subclasses(base) if c.module is base.module]
    check.floor("2D mesh classes", len(fam), 2)
    for cls in fam:
        _mesh_2d(check, proj, cls)


def _mesh_2d(check, proj, cls):
    A = Algebra()
    A.fold_enabled = False
    dom = GvnDomain(A)
    it = Interp(proj, dom)
    nx, ny = A.sym("nx", positive=True), A.sym("ny", positive=True)
    A.integer_atoms |= {A.by_name["nx"].id, A.by_name["ny"].id}
    lx, ly = A.sym("lx", positive=True), A.sym("ly", positive=True)
    it.np_hooks = {"builtin:slice": lambda args, kw: Family(A, it.lift(args[1]) - it.lift(args[0]), A.const(1), it.lift(args[0])),
                   "arange": lambda args, kw: _arange(args, kw), "linspace": lambda args, kw: _linspace(args, kw), "meshgrid": lambda args, kw: _meshgrid(args, kw),
                   "repeat": lambda args, kw: ("repeat", it.lift(args[0]), it.lift(args[1])),
                   "full": lambda args, kw: ("repeat", it.lift(args[1]), it.lift(args[0]))}
    # ---- cell centres: 1-D abscissae (count, first, step), meshgrid, flatten
    from ..interp import ObjStub

    class Grid1D:
        def __init__(self, count, first, step):
            self.count, self.first, self.step = count, first, step

        def _fd_binop(self, op, other, reflected, interp):
            o = interp.lift(other)
            if isinstance(op, ast.Add):
                return Grid1D(self.count, self.first + o, self.step)
            if isinstance(op, ast.Sub) and not reflected:
                return Grid1D(self.count, self.first - o, self.step)
            if isinstance(op, ast.Mult):
                return Grid1D(self.count, self.first * o, self.step * o)
            raise AnalysisError("unsupported arithmetic on cell abscissae")

    def _linspace(args, kw):
        a, b, n = it.lift(args[0]), it.lift(args[1]), it.lift(args[2] if len(args) > 2 else kw.get("num"))
        ep = args[3] if len(args) > 3 else kw.get("endpoint", True)
        return Grid1D(n, a, (b - a) / (n if ep is False else n - 1))

    def _arange(args, kw):
        if len(args) == 1:
            return Family(A, it.lift(args[0]), A.const(1), A.const(0))
        ints = {A.by_name[n_].id for n_ in ("nx", "ny") if n_ in A.by_name}

        def integral(v):
            v = it.lift(v)
            return not v.den and set(A.atoms_of(v)) <= ints and all(c.denominator == 1 for c in v.num.values())
        if len(args) == 2 and not kw and integral(args[0]) and integral(args[1]):
            return Family(A, it.lift(args[1]) - it.lift(args[0]), A.const(1), it.lift(args[0]))       # integer bounds: b - a entries
        e = AnalysisError("np.arange with a non-integer step in the 2D mesh")
        e.violation = ("MESH2D-CENTRE", cls.qualname, "abscissae built by np.arange with non-integer arguments: the number of entries is ceil((stop-start)/step) evaluated in floating point, i.e. decided by rounding -- lx/(lx/nx) is not always nx (1/(1/49) = 49.00000000000001), so for some grids there are nx+1 abscissae, the last outside the domain, and (nx+1)*ny centres for nx*ny cells; np.linspace(0, lx, nx, endpoint=False) fixes the count",
                       "float-arange-2d", {"C20", "C15", "C14", "C01"})
        raise e

    def _meshgrid(args, kw):
        gx, gy = args[0], args[1]
        if not (isinstance(gx, Grid1D) and isinstance(gy, Grid1D)) or kw.get("indexing", "xy") != "xy":
            raise AnalysisError("np.meshgrid of unsupported operands")
        mk = lambda which: ObjStub("meshgrid " + which, {"flatten": (lambda *a_, **k_: ("centres", which, gx, gy, "C")), "ravel": (lambda *a_, **k_: ("centres", which, gx, gy, "C")),
                                                          "T": ObjStub("meshgrid %s transposed" % which, {"flatten": (lambda *a_, **k_: ("centres", which, gx, gy, "F")), "ravel": (lambda *a_, **k_: ("centres", which, gx, gy, "F"))})})
        return [mk("x"), mk("y")]
    obj = SelfObj(cls, {})
    init = proj.resolve(cls, "__init__")
    given = {"nx": nx, "ny": ny, "lx": lx, "ly": ly}
    unknown = [p_ for p_ in init.params[1:] if p_ not in given]
    if unknown:
        raise AnalysisError("%s.__init__ has parameters %s unknown to the checker" % (cls.qualname, unknown))
    it.call_function(init, [obj] + [given[p_] for p_ in init.params[1:]])
    loc = init.loc()
    q = cls.qualname
    at = obj.attrs
    _decide(check, "MESH2D-COUNT", q, loc, A, it.lift(at.get("ncell")), nx * ny, "ncell == nx*ny", key="ncell")
    nbf = it.call_function(proj.resolve(cls, "nbfaces"), [obj])
    _decide(check, "MESH2D-COUNT", q + ".nbfaces", loc, A, it.lift(nbf), (nx + 1) * ny + nx * (ny + 1), "nbfaces == (nx+1)*ny + nx*(ny+1)", key="nbfaces")
    vol = it.call_function(proj.resolve(cls, "vol"), [obj])
    if isinstance(vol, tuple) and vol[0] == "repeat":
        _decide(check, "MESH2D-VOL", q + ".vol", loc, A, vol[1], lx / nx * ly / ny, "cell volume == dx*dy", key="vol")
        _decide(check, "MESH2D-VOL", q + ".vol", loc, A, vol[2], nx * ny, "one volume per cell (nx*ny)", key="volcount")
    else:
        check.undecided("MESH2D-VOL", q + ".vol", "vol() is not np.repeat(dx*dy, ncell) / np.full(ncell, dx*dy)", loc)
    # cell centres: cell j*nx + i (row by row, x fastest -- the order of the data arrays) has centre ((i+1/2) lx/nx, (j+1/2) ly/ny)
    cf = proj.resolve(cls, "centers")
    if cf is not None:
        try:
            cen = it.call_function(cf, [obj])
            okc = isinstance(cen, (list, tuple)) and len(cen) == 2 and all(isinstance(c_, tuple) and c_ and c_[0] == "centres" for c_ in cen)
            if not okc:
                check.undecided("MESH2D-CENTRE", q + ".centers", "centers() is not (xx.flatten(), yy.flatten()) of a meshgrid of two abscissa arrays", cf.loc())
            else:
                (_, wx, gx, gy, ox), (_, wy, gx2, gy2, oy) = cen
                good = wx == "x" and wy == "y" and ox == "C" and oy == "C"
                why = "" if good else "centers() returns (%s, %s) flattened in %s order, expected (x, y) row by row (x fastest)" % (wx, wy, ox)
                for g_, n_, l_, nm_ in ((gx, nx, lx, "x"), (gy, ny, ly, "y")):
                    if good and not (A.equal(g_.count, n_) and A.equal(g_.first, l_ / n_ / 2) and A.equal(g_.step, l_ / n_)):
                        good = False
                        why = "%s abscissae: %s entries starting at %s with step %s, expected %s entries (k + 1/2) * %s" % (nm_, A.show(g_.count), A.show(g_.first), A.show(g_.step), A.show(n_), A.show(l_ / n_))
                check.record("MESH2D-CENTRE", q + ".centers", good, "cell j*nx + i has centre ((i + 1/2) lx/nx, (j + 1/2) ly/ny): nx*ny points, x fastest" if good else why, cf.loc(), key="centres")
        except AnalysisError as e:
            check.failed("MESH2D-CENTRE", q + ".centers", e, cf.loc(), "centers()")
    # boundary tables: layout  i-face(i,j) = j*(nx+1)+i ;  j-face(i,j) = ny*(nx+1) + j*nx + i
    io = at.get("_io_bcfaces")
    ori = at.get("_bcfaces_orientation")
    if not isinstance(io, dict) or not isinstance(ori, dict):
        raise AnalysisError("mesh2d boundary tables are not literal dictionaries")
    fs = ny * (nx + 1)
    want = {
        "left": (ny, nx + 1, A.const(0), "i-faces (0, j)", "inward"),
        "right": (ny, nx + 1, nx, "i-faces (nx, j)", "outward"),
        "bottom": (nx, A.const(1), fs, "j-faces (i, 0)", "inward"),
        "top": (nx, A.const(1), fs + ny * nx, "j-faces (i, ny)", "outward"),
    }
    tags = at.get("_bctags")
    from ..interp import OneShot
    if isinstance(tags, OneShot):
        check.violation("MESH2D-BC", q, "the boundary tags are kept as a generator object (line %d): the first enumeration exhausts it, every later list_of_bctags() yields nothing -- a second discretisation on the same mesh sees no boundary at all" % tags.line, loc, key="tags-oneshot")
        tags = list(tags.items)
    check.record("MESH2D-BC", q, isinstance(tags, list) and sorted(tags) == sorted(want), "boundary tags are exactly left/right/top/bottom", loc, key="tags")
    for tag, (cnt, a, b, what, orient) in want.items():
        fam = io.get(tag)
        if not isinstance(fam, Family):
            check.violation("MESH2D-BC", q, "index table of '%s' is not an affine family" % tag, loc, key="fam-" + tag)
            continue
        ok = A.equal(fam.count, cnt) and A.equal(fam.a, a) and A.equal(fam.b, b)
        if ok:
            check.ok("MESH2D-BC", q + "[%s]" % tag, "table is %s*k + %s, k in [0,%s): exactly the %s of the layout, which have no %s neighbour cell" % (A.show(fam.a), A.show(fam.b), A.show(fam.count), what, "left/lower" if orient == "inward" else "right/upper"), loc)
        else:
            check.violation("MESH2D-BC", q + "[%s]" % tag, "table is %s*k + %s with %s entries; the boundary %s are %s*k + %s with %s entries" % (A.show(fam.a), A.show(fam.b), A.show(fam.count), what, A.show(a), A.show(b), A.show(cnt)), loc, key="table-" + tag)
        if ori.get(tag) == orient:
            check.ok("MESH2D-BC", q + "[%s]" % tag, "orientation '%s': these faces lack %s state" % (orient, "an L" if orient == "inward" else "an R"), loc, nontrivial=False)
        else:
            check.violation("MESH2D-BC", q + "[%s]" % tag, "orientation is %r, the faces %s lack %s state so it must be '%s'" % (ori.get(tag), what, "an L" if orient == "inward" else "an R", orient), loc, key="orient-" + tag)
        # outward unit normal
        nf = proj.resolve(cls, "normal_of_bc")
        try:
            nrm = it.call_function(nf, [obj, tag])
        except AnalysisError as e:
            check.undecided("MESH2D-BC", nf.qualname, "normal of '%s': %s" % (tag, e), nf.loc())
            continue
        wantn = {"left": (-1, 0), "right": (1, 0), "bottom": (0, -1), "top": (0, 1)}[tag]
        okn = isinstance(nrm, Vec) and A.equal(it.lift(nrm.x), A.const(wantn[0])) and A.equal(it.lift(nrm.y), A.const(wantn[1]))
        if okn:
            check.ok("MESH2D-BC", nf.qualname + "[%s]" % tag, "normal is the outward unit vector %s" % (wantn,), nf.loc())
        else:
            got = (A.show(it.lift(nrm.x)), A.show(it.lift(nrm.y))) if isinstance(nrm, Vec) else nrm
            check.violation("MESH2D-BC", nf.qualname + "[%s]" % tag, "normal is %s, the outward unit normal of the '%s' faces is %s" % (got, tag, wantn), nf.loc(), key="normal-" + tag)


def body(check):
    proj = check.proj
    check.explanation = ("static analysis: the constructor chain of every mesh class is abstractly interpreted with symbolic "
                         "sizes (np.linspace / np.append / int(round()) as abstract face sequences, each store to xf a new "
                         "version); counts, span, junction, midpoint centres and widths w.r.t. the FINAL face array, "
                         "refined-zone ratio and rounding safety, and the 2D index tables / orientations / normals / volumes "
                         "are decided as ring identities in the symbolic sizes")
    check.assume("positive length, ratio, proportions, nx, ny, lx, ly; rounding inside np.linspace not decided; user morphing monotone")
    base1 = proj.cls("mesh.mesh1d")
    classes = [c.name for c in proj.subclasses(base1) if c.module is base1.module]      # the whole 1D family, aliases and later subclasses included
    missing = [c for c in MESH_CLASSES if c not in classes]
    if missing:
        raise AnalysisError("1D mesh classes %s of the statement not found" % missing)
    check.floor("1D mesh classes", len(classes), 4)
    for c in classes:
        check.guarded("MESH-COUNT", "mesh." + c, lambda: mesh_1d(check, proj, c))
    check.guarded("MESH-AVG", "meshbase", lambda: averages(check, proj))
    check.guarded("MESH2D-BC", "mesh2d.mesh2d", lambda: mesh_2d(check, proj))
