"""C12 — slope limiters lie in the second-order TVD region.

Rules: LIM-ZERO, LIM-SIGN, LIM-BOUND2, LIM-BOUNDMAX, LIM-SYM, LIM-ODD, LIM-CONSIST, LIM-HOMOG,
LIM-ELEMENTWISE, MAG-MUST-OVERFLOW.  The (a,b) plane is enumerated exhaustively by 21
positively parametrised sign/order regions; inside a region every min/max/where resolves
and each clause is a sign certificate (all coefficients of an expanded polynomial
non-negative) or a ring identity."""
from fractions import Fraction

from ..disc1d import LIMITERS
from ..limiters import LimCtx, regions, nonneg, must_overflow, THRESH
from ..project import AnalysisError

EPS53 = Fraction(1, 2 ** 53)


def analyse(check, proj, name):
    lc = LimCtx(proj, name)
    f = lc.f
    q = f.qualname
    loc = f.loc()
    A0, _ = lc.fresh()
    nreg = len(regions(A0))
    rational = None
    fails = {}

    def bad(rule, text, key):
        if (rule, key) not in fails:
            fails[(rule, key)] = text
    proved = {r: 0 for r in ("LIM-ZERO", "LIM-SIGN", "LIM-BOUND2", "LIM-BOUNDMAX", "LIM-SYM", "LIM-ODD", "LIM-CONSIST", "LIM-HOMOG", "LIM-DEFINED")}
    und = []
    import itertools
    policies = [()]
    pi = 0
    while pi < len(policies):
        lc.policy = policies[pi]
        single_only = pi > 0
        pi += 1
        for ri in range(nreg):
            for regime in ("above", "below"):
                A, it = lc.fresh()
                rname, a, b, kind, s, lo, hi = regions(A)[ri]
                lam = A.sym("lam", positive=True)
                if kind == "same":
                    # regularised limiters switch off below a product threshold: two regimes
                    p = a * b
                    if regime == "above":
                        A.assume_pos(p - THRESH)
                    else:
                        A.assume_nonneg(A.const(THRESH) - p)
                elif regime == "below":
                    continue
                stage = "phi(a, b)"
                try:
                    v = lc.phi(A, it, a, b)
                    vpath, nfree = lc.path, lc.free_used
                    stage = "phi(b, a), the arguments exchanged"
                    vs = lc.phi(A, it, b, a)
                    nfree += lc.free_used
                    stage = "phi(-a, -b)"
                    vo = lc.phi(A, it, -a, -b)
                    nfree += lc.free_used
                except AnalysisError as e:
                    v_ = getattr(e, "violation", None)
                    if v_ is not None and (len(v_) < 5 or check.pid in v_[4]):
                        bad(v_[0], v_[2], v_[3])
                        continue
                    if "division by literal zero" in str(e):
                        bad("LIM-DEFINED", "in region %s, evaluating %s, the body divides by an expression that vanishes there (x/0, 0/0 on flat data): numpy evaluates both branches of np.where before selecting, so plain Python floats raise ZeroDivisionError and arrays compute an invalid value first" % (rname, stage), "defined")
                    else:
                        und.append("%s: %s" % (rname, e))
                    continue
                # clauses that compare two evaluations are decided only when no reduction outcome was
                # free (the array contexts of the two evaluations differ); single-evaluation clauses are
                # decided on every path
                multi = nfree == 0 and not single_only
                if A.atoms_of(v, "ind"):
                    # a selection that the region and regime do not resolve (a threshold other than the
                    # one the regimes are built on, e.g. the hidden absolute tolerance of np.isclose):
                    # the clauses are evaluated at witness points of the region spread log-uniformly over
                    # the statement's scale range [1e-8, 1e8]; a failing point is a refutation, agreement
                    # decides nothing
                    w = _numeric_refutation(A, lc, it, v, a, b, kind, s, lo, hi, rname, regime)
                    if w is not None:
                        bad(w[0], w[1], w[2])
                    else:
                        und.append("%s [%s]: selection not resolved (%s)" % (rname, regime, A.show(v, 100)))
                    continue
                where = "%s%s" % (rname, "" if kind != "same" else (" (product above the regularisation threshold)" if regime == "above" else " (product below the threshold)"))
                if vpath:
                    where += " [entry of an array on which%s]" % vpath
                # symmetry and oddness: ring identities
                if not multi:
                    pass
                elif A.equal(v, vs):
                    proved["LIM-SYM"] += 1
                else:
                    bad("LIM-SYM", "phi(a,b) != phi(b,a) in region %s: %s vs %s" % (where, A.show(v, 80), A.show(vs, 80)), "sym")
                if not multi:
                    pass
                elif A.equal(vo, -v):
                    proved["LIM-ODD"] += 1
                else:
                    bad("LIM-ODD", "phi(-a,-b) != -phi(a,b) in region %s: %s vs %s" % (where, A.show(vo, 80), A.show(-v, 80)), "odd")
                if kind == "zero":
                    if v.is_zero():
                        proved["LIM-ZERO"] += 1
                    else:
                        bad("LIM-ZERO", "phi = %s in region %s (must be 0 when the slopes have opposite signs or one vanishes)" % (A.show(v, 100), where), "zero")
                    continue
                if regime == "below":
                    # statement allows 0 for tiny same-sign products; anything else must still obey the bounds
                    if v.is_zero():
                        proved["LIM-ZERO"] += 1
                        continue
                sv = v * s
                ok, sg = nonneg(A, sv)
                if ok:
                    proved["LIM-SIGN"] += 1
                elif sg is None:
                    und.append("%s: sign of phi not established" % where)
                else:
                    bad("LIM-SIGN", "phi = %s has the sign opposite to its arguments in region %s" % (A.show(v, 100), where), "sign")
                for rule, bound, txt in (("LIM-BOUND2", 2 * lo, "2*min(|a|,|b|)"), ("LIM-BOUNDMAX", hi, "max(|a|,|b|)")):
                    ok, sg = nonneg(A, bound - sv)
                    if ok:
                        proved[rule] += 1
                    elif sg in ("-", "<=0"):
                        bad(rule, "|phi| = %s exceeds %s = %s everywhere in region %s" % (A.show(sv, 100), txt, A.show(bound, 60), where), rule)
                    else:
                        st, info = A.decide_equal(A.maximum(bound - sv, A.const(0)), bound - sv)
                        if st == "refuted":
                            bad(rule, "|phi| = %s exceeds %s in region %s, e.g. at %s" % (A.show(sv, 100), txt, where, info.get("point")), rule)
                        else:
                            und.append("%s: %s - |phi| = %s: no sign certificate" % (where, txt, A.show(bound - sv, 120)))
                # homogeneity (exact for the order-based limiters)
                is_rational = bool(v.den) or any(len(m) != 1 for m in v.num) and False
                if v.den:
                    rational = True
                try:
                    vh = lc.phi(A, it, lam * a, lam * b) if multi and regime == "above" and not v.den else None
                except AnalysisError:
                    vh = None
                if vh is not None and not A.atoms_of(vh, "ind"):
                    if A.equal(vh, lam * v):
                        proved["LIM-HOMOG"] += 1
                    else:
                        bad("LIM-HOMOG", "phi(lam*a, lam*b) != lam*phi(a,b) in region %s" % where, "homog")
                # consistency on the diagonal
                if multi and rname.endswith("|a| = |b|"):
                    dev = a * s - sv          # |a| - |phi|
                    if dev.is_zero():
                        proved["LIM-CONSIST"] += 1
                    else:
                        # phi = a*(1 - delta): 0 <= delta and (delta <= 1e-20/a^2 or delta <= 2^-53 [not representable])
                        x = a * s
                        ok0, _ = nonneg(A, dev)
                        okA, _ = nonneg(A, A.const(Fraction("1e-20")) - x * dev)
                        if ok0 and okA:
                            proved["LIM-CONSIST"] += 1
                        else:
                            # split at |a| = 1
                            okall = ok0
                            for side in ("small", "large"):
                                A2, it2 = lc.fresh()
                                t = A2.sym("t", positive=True)
                                xx = (1 / (1 + t)) if side == "small" else (1 + t)
                                aa = xx * s
                                A2.assume_pos(aa * aa - THRESH)
                                try:
                                    v2 = lc.phi(A2, it2, aa, aa) * s
                                except AnalysisError:
                                    okall = False
                                    continue
                                d2 = xx - v2
                                if side == "small":
                                    o, _ = nonneg(A2, A2.const(Fraction("1e-20")) - xx * d2)
                                else:
                                    o, _ = nonneg(A2, A2.const(EPS53) * xx - d2)
                                okall = okall and o
                            if okall:
                                proved["LIM-CONSIST"] += 1
                            else:
                                bad("LIM-CONSIST", "phi(a,a) = %s deviates from a by more than the relative 1e-20/a^2 of the statement (and more than half an ulp) in region %s" % (A.show(v, 100), where), "consist")
        if pi == 1 and lc.max_free:
            if lc.max_free > 4:
                raise AnalysisError("%s: more than 4 free reduction outcomes on a path" % q)
            policies += [pl for pl in itertools.product((True, False), repeat=lc.max_free) if not all(pl)]
    check.inventory["%s reduction paths" % name] = len(policies)
    for (rule, key), text in fails.items():
        check.violation(rule, q, text, loc, key=key)
    for rule, n in proved.items():
        if n and not any(r == rule for (r, k) in fails):
            check.ok(rule, q, "holds in all %d applicable region/regime combinations of the exhaustive partition of the (a,b) plane" % n, loc)
    for u in und[:4]:
        check.undecided("LIM-REGION", q, u, loc)
    if len(policies) == 1:
        check.ok("LIM-ELEMENTWISE", q, "body uses element-wise operations only (abstract interpretation point-wise, no reduction or Python branch on an array)", loc, nontrivial=False)
    elif not any(r in ("LIM-ZERO", "LIM-SIGN", "LIM-BOUND2", "LIM-BOUNDMAX") for (r, k) in fails):
        check.ok("LIM-ELEMENTWISE", q, "np.all / np.any are used as branch conditions only; the single-entry clauses hold on all %d outcome paths (any array context)" % len(policies), loc)


def _numeric_refutation(A, lc, it, v, a, b, kind, s, lo, hi, rname, regime):
    """-> (rule, text, key) or None"""
    import re
    from decimal import Decimal
    rx = re.compile(r"^[xyz]$")
    saved = list(A.point_pattern_hooks)
    A.point_pattern_hooks.append((rx, lambda m, k, h: 10.0 ** (-8.0 + 16.0 * h)))
    try:
        tried = 0
        for k in range(5000, 5400):
            A._memo.pop(k, None)
            if not A.admissible(k):
                continue
            va, vb, vv = A.evalf(A.lift(a), k), A.evalf(A.lift(b), k), A.evalf(v, k)
            if va is None or vb is None or vv is None:
                continue
            tried += 1
            fa, fb, fv = float(va), float(vb), float(vv)
            pt = "a = %.3g, b = %.3g -> %.3g" % (fa, fb, fv)
            if kind == "zero":
                if fv != 0.0:
                    return ("LIM-ZERO", "phi(%s) in region %s, must be 0" % (pt, rname), "zero")
                continue
            m, M = min(abs(fa), abs(fb)), max(abs(fa), abs(fb))
            if fv * s < 0:
                return ("LIM-SIGN", "phi(%s) has the sign opposite to its arguments (region %s)" % (pt, rname), "sign")
            if abs(fv) > 2 * m * (1 + 1e-12):
                return ("LIM-BOUND2", "phi(%s) exceeds 2*min(|a|,|b|) (region %s)" % (pt, rname), "LIM-BOUND2")
            if abs(fv) > M * (1 + 1e-12):
                return ("LIM-BOUNDMAX", "phi(%s) exceeds max(|a|,|b|) (region %s)" % (pt, rname), "LIM-BOUNDMAX")
            if m >= 1e-8 and rname.endswith("|a| = |b|"):
                if abs(abs(fv) - m) > max(1e-20 / m, 1e-15 * m):
                    return ("LIM-CONSIST", "phi(a,a) with %s deviates from a by more than the statement's relative 1e-20/a^2 although |a| >= 1e-8 (region %s)" % (pt, rname), "consist")
            if m >= 1e-8 and fv == 0.0 and regime == "above":
                return ("LIM-HOMOG", "phi(%s) = 0 for same-sign slopes above the regularisation scale 1e-8: not positively homogeneous (phi(t*a, t*b) is non-zero for larger t) (region %s)" % (pt, rname), "homog")
        return None
    finally:
        A.point_pattern_hooks[:] = saved


ROUND_MAX_ULPS = 2 ** 20      # ~1e6 u = 1.2e-10 relative: far above what a well-conditioned formula commits


def rounding(check, proj, name):
    """LIM-ROUND: first-order forward error analysis (rounding.py) of the limiter's own expression
    tree in every same-sign region; the relative error bound of the RESULT, a ring element, is
    evaluated at witness points spread log-uniformly over slope magnitudes 1e-8 .. 1e8"""
    import re
    from ..interp import Interp
    from ..rounding import ErrDomain, EV
    lc = LimCtx(proj, name)
    f = lc.f
    A0, _ = lc.fresh()
    nreg = len(regions(A0))
    worst = None
    analysed = 0
    for ri in range(nreg):
        A, _ = lc.fresh()
        rname, a, b, kind, s, lo, hi = regions(A)[ri]
        if kind != "same":
            continue
        A.assume_pos(a * b - THRESH)
        dom = ErrDomain(A)
        it = Interp(proj, dom)
        it.fold_locals = False
        try:
            r = it.call_function(f, [EV(A.lift(a), A.const(0)), EV(A.lift(b), A.const(0))])
        except AnalysisError as e:
            check.undecided("LIM-ROUND", f.qualname, "rounding analysis failed in region %s: %s" % (rname, e), f.loc())
            return
        if not isinstance(r, EV):
            continue
        analysed += 1
        A.point_pattern_hooks.append((re.compile(r"^[xyz]$"), lambda m, k, h: 10.0 ** (-8.0 + 16.0 * h)))
        for k in range(7000, 7300):
            A._memo.pop(k, None)
            if not A.admissible(k):
                continue
            ev = A.evalf(r.e, k)
            va, vb = A.evalf(A.lift(a), k), A.evalf(A.lift(b), k)
            if ev is None or va is None or vb is None or ev.is_nan():
                continue
            e = float(ev)
            if worst is None or e > worst[0]:
                worst = (e, float(va), float(vb), rname)
    check.inventory["%s rounding regions" % name] = analysed
    if worst is None:
        check.undecided("LIM-ROUND", f.qualname, "no witness point evaluated", f.loc())
    elif worst[0] > ROUND_MAX_ULPS:
        check.violation("LIM-ROUND", f.qualname, "the formula as written amplifies rounding errors: first-order relative error bound of the result %.3g u (u = 2^-53, i.e. %.1e relative) at a = %.3g, b = %.3g (region %s) -- a cancellation of nearly equal rounded intermediates; the bounds |phi| <= 2 min(|a|,|b|) and <= max cannot hold to rounding there" % (worst[0], worst[0] * 1.1e-16, worst[1], worst[2], worst[3]), f.loc(), key="round")
    else:
        check.ok("LIM-ROUND", f.qualname, "first-order relative rounding-error bound of the result <= %.0f u on all witness points of the %d same-sign regions (slope magnitudes 1e-8 .. 1e8, ratios up to 1e16)" % (worst[0], analysed), f.loc())


def overflow(check, proj, name, tier):
    f = proj.func("xnum." + name)
    step = 10 if tier == "quick" else 2
    bad, nbox = must_overflow(proj, name, step=step)
    check.inventory["%s overflow boxes" % name] = nbox
    if bad:
        sg, ea, eb, ev = bad[0]
        check.violation("MAG-MUST-OVERFLOW", f.qualname, "an intermediate exceeds the double range on the whole box |a| in [1e%d,1e%d], |b| in [1e%d,1e%d] (sign %s): result is inf although the limited slope is representable (%d of %d boxes)" % (ea, ea + step, eb, eb + step, sg, len(bad), nbox), f.loc(), key="overflow")
    else:
        check.ok("MAG-MUST-OVERFLOW", f.qualname, "no intermediate must overflow on any of the %d boxes covering |a|,|b| in [1e-150,1e150], both signs" % nbox, f.loc())


def fresh_result(check, proj, name):
    """LIM-FRESH: "elementwise on arrays" is a statement about VALUES the caller can keep: the result of one call
    must not be storage that a later call overwrites.  A limiter whose result is written into (out=...) or is
    a module-level container / an array handed out by a helper that keeps it in one (a scratch array per shape)
    returns the same object for every call of that shape: two kept results are one array."""
    import ast
    mod = proj.module("xnum")
    f = mod.functions[name]
    # module-level mutable state: names bound at module level to a container display or to a call
    glob = {n for n, e in mod.assigns.items() if isinstance(e, (ast.Dict, ast.List, ast.Set, ast.Call, ast.DictComp, ast.ListComp))}
    keepers = set()      # module-level functions that hand out (part of) such state
    changed = True
    while changed:
        changed = False
        for g in mod.functions.values():
            if g.name in keepers:
                continue
            rets = [r.value for r in ast.walk(g.node) if isinstance(r, ast.Return) and r.value is not None]
            for r in rets:
                if any(isinstance(n, ast.Name) and n.id in glob for n in ast.walk(r)) or any(isinstance(n, ast.Call) and isinstance(n.func, ast.Name) and n.func.id in keepers for n in ast.walk(r)):
                    keepers.add(g.name)
                    changed = True
                    break

    def shared(e):
        for n in ast.walk(e):
            if isinstance(n, ast.Name) and n.id in glob:
                return "the module-level container `%s`" % n.id
            if isinstance(n, ast.Call) and isinstance(n.func, ast.Name) and n.func.id in keepers:
                return "`%s(...)`, which hands out an array kept in a module-level container" % n.func.id
        return None
    bad = None
    for n in ast.walk(f.node):
        if isinstance(n, ast.Call):
            for k in n.keywords:
                if k.arg == "out":
                    w = shared(k.value)
                    if w:
                        bad = (n.lineno, "the result is written into %s (out=)" % w)
        if isinstance(n, ast.Return) and n.value is not None and not isinstance(n.value, ast.Call):
            w = shared(n.value) if isinstance(n.value, (ast.Name, ast.Subscript, ast.Attribute)) else None
            if w:
                bad = (n.lineno, "the function returns %s" % w)
    if bad:
        check.violation("LIM-FRESH", f.qualname, "%s (line %d): every call with operands of the same shape returns the SAME array object, so a result kept by the caller (a list of limited slopes, the two sides of a face) is overwritten by the next call" % (bad[1], bad[0]), f.loc(), key="shared-result")
    else:
        check.ok("LIM-FRESH", f.qualname, "the result is a fresh value: no out= into, and no return of, module-level storage", f.loc(), nontrivial=False)


def pure_and_unwrapped(check, proj, name):
    """LIM-PURE: a limiter only reads its arguments (MUSCL passes overlapping views of one gradient array: an in-place
    change made for the L state is read by the R state) -- decided from the effect summaries (alias.py), numpy's
    no-copy conversions (np.asarray of a float array IS that array) included.
    LIM-WRAP: a decorator that catches an exception of the wrapped limiter and returns a substitute (zeros ...) makes
    the result of EVERY entry depend on whether ANY entry faulted: not elementwise."""
    import ast
    from ..common_rules import alias_analysis
    mod = proj.module("xnum")
    f = mod.functions[name]
    an = alias_analysis(proj)
    muts = [(o, v) for o, v in an.summ[f.qualname].mut.items() if o.startswith("P:") and v[3] == "inplace"]
    if muts:
        o, (ln, text, via, kind) = muts[0]
        check.violation("LIM-PURE", f.qualname, "the limiter changes its argument `%s` in place (`%s`, line %d%s): the caller's slope array is overwritten -- MUSCL calls it with two overlapping views of one gradient array, so the second call reads what the first one wrote; symmetry and oddness fail for a re-used array" % (o[2:], text[:50], ln, (", through " + via) if via else ""), f.loc(), key="inplace-arg")
    else:
        check.ok("LIM-PURE", f.qualname, "the arguments are only read (no in-place operation reaches them, no-copy conversions followed)", f.loc(), nontrivial=False)
    # decorators defined in the module
    bad = None
    for d in f.node.decorator_list:
        e = d.func if isinstance(d, ast.Call) else d
        dn = e.id if isinstance(e, ast.Name) else None
        g = mod.functions.get(dn) if dn else None
        if g is None:
            bad = ("an unknown decorator `%s`" % ast.unparse(e), None)
            continue
        for n in ast.walk(g.node):
            if isinstance(n, ast.ExceptHandler) and not (n.body and isinstance(n.body[-1], ast.Raise)):
                bad = ("the decorator `%s` catches %s from the wrapped limiter and substitutes another result (line %d)" % (dn, ast.unparse(n.type) if n.type is not None else "every exception", n.lineno), n.lineno)
    if bad and bad[1] is not None:
        check.violation("LIM-WRAP", f.qualname, "%s: one faulting entry (an underflow in an unselected np.where branch, a subnormal product) replaces the values of ALL entries of that call -- the result at one position depends on the others, and phi(a,a) = a fails for the ordinary entries of such an array" % bad[0], f.loc(), key="wrap-except")
    elif bad:
        check.undecided("LIM-WRAP", f.qualname, "%s: what calling the limiter means is not modelled" % bad[0], f.loc())
    else:
        check.ok("LIM-WRAP", f.qualname, "not wrapped by a decorator", f.loc(), nontrivial=False)


def body(check):
    proj = check.proj
    check.explanation = ("static analysis: each limiter body is lowered to the GVN ring and evaluated on an exhaustive partition of "
                         "the (a,b) plane into 21 sign/order regions, each parametrised by positive atoms (and, for the "
                         "regularised limiters, the two regimes product above / below the threshold stated as facts) so that "
                         "every min/max/where resolves; zero, sign, 2*min and max bounds are sign certificates (expanded "
                         "polynomial with non-negative coefficients), symmetry, oddness, homogeneity and consistency are ring "
                         "identities / bounded deviations; overflow by an interval analysis in log-magnitude over a box partition")
    check.assume("real arithmetic for the region clauses (rounding of individual operations and subnormals not decided); may-overflow is not reported, only must-overflow")
    check.exhaustive = True
    lims = [n for n in LIMITERS if n in proj.module("xnum").functions]
    check.floor("limiters", len(lims), 4)
    for n in lims:
        check.guarded("LIM-REGION", "xnum." + n, lambda: analyse(check, proj, n))
        check.guarded("MAG-MUST-OVERFLOW", "xnum." + n, lambda: overflow(check, proj, n, check.tier))
        check.guarded("LIM-ROUND", "xnum." + n, lambda: rounding(check, proj, n))
        check.guarded("LIM-FRESH", "xnum." + n, lambda: fresh_result(check, proj, n))
        check.guarded("LIM-PURE", "xnum." + n, lambda: pure_and_unwrapped(check, proj, n))
