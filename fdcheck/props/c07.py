"""C07 — time bookkeeping: steps advance by dt, snapshots land on requested times.

Rules: AFF-TIME-ALL (every integrator, every typestate), DRV-SIDESTEP-BOUNDS, DRV-ZERO-DIV,
DRV-SNAPSHOT, DRV-COUNT, DRV-STOP, DRV-CALLER-PURE, DRV-IT-STAMP (snapshots), FIELD-DEEPCOPY."""
import ast
from fractions import Fraction

from ..affine import run_step
from ..project import AnalysisError, unparse
from .. import rk
from ..driver_rules import analyse_solve, analyse_check_end, analyse_entry_points, Result

C07_RULES = ("DRV-SIDESTEP-BOUNDS", "DRV-ZERO-DIV", "DRV-SNAPSHOT", "DRV-COUNT", "DRV-STOP", "DRV-CALLER-PURE")


def integrator_classes(proj):
    tm = proj.cls("integration.timemodel")
    return [c for c in proj.subclasses(tm, strict=True) if c.module.tail == "integration" and c.name not in rk.ABSTRACT]


def aff_time_all(check):
    proj = check.proj
    classes = integrator_classes(proj)
    check.floor("integrator classes", len(classes), 15)
    for c in classes:
        q = c.qualname
        stepf = proj.resolve(c, "step")
        loc = stepf.loc() if stepf else c.loc()
        try:
            ai, outs = run_step(proj, c, 2)
            outs = [(o, "") for o in outs]
        except AnalysisError as e:
            if getattr(e, "paths", None):
                # step() branches on the values it is given: the time clause is decided on each path separately
                outs = [(o, " on the path [%s]" % "; ".join(log)) for pol, os_, log in e.paths for o in os_]
            else:
                check.failed("AFF-TIME-ALL", q, e, loc, "abstract interpretation failed")
                continue
        seen = set()
        for o, path in outs:
            ts = (o["typestate"], path)
            if ts in seen:
                continue
            seen.add(ts)
            adv = o["field"].time.s
            where = "%s [%s]%s" % (q, ts[0], path)
            if adv.poly == {1: Fraction(1)} and adv.kinds == frozenset({"min"}):
                check.ok("AFF-TIME-ALL", where, "one step(f, dt) leaves f.time = t + 1*min(dt)", loc)
            else:
                check.violation("AFF-TIME-ALL", where, "one step advances time by %r (expected exactly 1*dt, the minimum of a local time-step array)" % adv, loc, key="advance")


def _show_binding(b):
    if b is None:
        return "not assigned"
    if b[0] == "expr" and hasattr(b[1], "expr"):
        return "`%s`" % unparse(b[1].expr)
    if b[0] == "expr":
        try:
            return "`%s`" % unparse(b[1])
        except Exception:
            return "an expression"
    return repr(b)


def field_deepcopy(check):
    """fdata.__init__ stores a fresh array per component; copy() and set() go through it"""
    proj = check.proj
    init = proj.func("field.fdata.__init__")
    dparam = init.params[4] if len(init.params) > 4 else "data"
    # every store into self.data[i] must be a fresh array: X.copy() or np.repeat(...).T etc.
    stores = []
    for n in ast.walk(init.node):
        if isinstance(n, ast.Assign):
            for t in n.targets:
                if isinstance(t, ast.Subscript) and isinstance(t.value, ast.Attribute) and t.value.attr == "data":
                    stores.append(n)
    fresh = 0
    bad = []
    for st in stores:
        v = st.value
        ok = False
        # strip trailing .T
        if isinstance(v, ast.Attribute) and v.attr == "T":
            v = v.value
        if isinstance(v, ast.Call):
            fn = v.func
            if isinstance(fn, ast.Attribute) and fn.attr == "copy":
                ok = True
            if isinstance(fn, ast.Attribute) and fn.attr in ("repeat", "array", "tile", "full", "zeros", "ones"):
                ok = True
            # a helper of the class whose effect summary (alias.py) says it returns nothing of its arguments
            # or of self: every return path builds a fresh array
            if isinstance(fn, ast.Attribute) and isinstance(fn.value, ast.Name) and fn.value.id == init.params[0]:
                g = proj.resolve(init.cls, fn.attr)
                if g is not None:
                    from ..common_rules import alias_analysis
                    rs = alias_analysis(proj).summ[g.qualname].ret
                    if not rs.objs and not rs.elts and any(isinstance(x, ast.Return) and x.value is not None for x in ast.walk(g.node)):
                        ok = True
        if ok:
            fresh += 1
        else:
            bad.append(st.lineno)
    # all paths of the loop over components store: the if/else both store
    loops = [n for n in ast.walk(init.node) if isinstance(n, ast.For)]
    def covers(stmts):
        """every path through the statements stores the component (nested conditionals: all branches)"""
        for st in stmts:
            if isinstance(st, ast.Assign) and any(st is s_ for s_ in stores):
                return True
            if isinstance(st, ast.If) and covers(st.body) and covers(st.orelse):
                return True
        return False
    covered = any(covers(lp.body) for lp in loops)
    if bad:
        check.violation("FIELD-DEEPCOPY", init.qualname, "component stored without copying at line(s) %s: fdata.copy() would share arrays with its source" % bad, init.loc(), key="shallow")
    elif not stores or not covered:
        check.violation("FIELD-DEEPCOPY", init.qualname, "not every component of the data list is replaced by a fresh array (self.data = data[:] alone is a shallow copy)", init.loc(), key="nostore")
    else:
        check.ok("FIELD-DEEPCOPY", init.qualname, "every component is stored as a fresh array (%d stores: .copy() / np.repeat)" % fresh, init.loc())
    # the constructor keeps the time and the iteration tag it is given (every stage copy goes through it)
    summ = proj.ctor_summary(init.cls)
    for attr, prm in (("time", "t"), ("it", "it")):
        got = summ.get(attr)
        if prm in init.params and got == ("param", prm):
            check.ok("FIELD-DEEPCOPY", init.qualname, "self.%s is the constructor argument `%s`, unmodified" % (attr, prm), init.loc(), nontrivial=False)
        else:
            check.violation("FIELD-DEEPCOPY", init.qualname, "self.%s is not the constructor argument `%s` as given (it is %s): a copy of a field -- every integrator stage works on copies -- does not carry the %s of its source for some values (e.g. a clamp moves negative times to 0: stage evaluations then see 0 + c_i*dt instead of t + c_i*dt)" % (attr, prm, _show_binding(got), "time" if attr == "time" else "iteration tag"), init.loc(), key="ctor-" + attr)
    # copy() and set() construct through __init__ with data, time, it
    for name in ("copy", "set"):
        f = proj.func("field.fdata.%s" % name)
        src = "self" if name == "copy" else f.params[1]
        good = False
        why = "no construction from the source's data found"
        for n in ast.walk(f.node):
            if isinstance(n, ast.Call):
                fn = n.func
                is_ctor = (isinstance(fn, ast.Name) and fn.id == "fdata") or (isinstance(fn, ast.Attribute) and fn.attr == "__init__")
                if not is_ctor:
                    continue
                args = [unparse(a) for a in n.args]
                kws = {k.arg: unparse(k.value) for k in n.keywords}
                has_data = ("%s.data" % src) in args
                t_ok = kws.get("t") == "%s.time" % src or ("%s.time" % src) in args
                it_ok = kws.get("it") == "%s.it" % src or ("%s.it" % src) in args
                if has_data and t_ok and it_ok:
                    good = True
                else:
                    why = "constructed with data=%s time=%s it=%s" % (has_data, t_ok, it_ok)
        if good:
            check.ok("FIELD-DEEPCOPY", f.qualname, "%s() rebuilds through fdata.__init__ with the source's data, time and it" % name, f.loc())
        else:
            check.violation("FIELD-DEEPCOPY", f.qualname, "%s() does not carry data, time and iteration tag of its source: %s" % (name, why), f.loc(), key=name)


def report(check, res, rules, construct="integration.timemodel._solve"):
    proj = check.proj
    f = proj.func("integration.timemodel._solve")
    for rule, status, text, ln, key in res.items:
        if rule not in rules:
            continue
        loc = "%s:%d" % (f.module.relpath, ln or f.node.lineno)
        if status == "ok":
            check.ok(rule, construct, text, loc)
        elif status == "violation":
            check.violation(rule, construct, text, loc, key=key)
        else:
            check.undecided(rule, construct, text, loc)


def body(check):
    proj = check.proj
    check.explanation = ("static analysis: (1) AFF abstract interpretation of every integrator's step gives the exact time "
                         "advance; (2) path-sensitive abstract interpretation of timemodel._solve over a polyhedral "
                         "constraint store (Fourier-Motzkin) with heap typestate of field copies, one generic main-loop "
                         "iteration from a loop invariant that is checked to be established and inductive: side-step "
                         "length in (0, min dt], snapshot stamps, counters, stop test, caller purity; (3) structural "
                         "check that fdata copies are deep")
    check.assume("tsave is sorted in increasing order (statement); per-cell time steps are positive (C18 DT-POS)")
    check.assume("inner loops unrolled 3 times, deeper iterations follow by the same state shape; solve_legacy (older driver) is outside the statement")
    aff_time_all(check)
    check.guarded("FIELD-DEEPCOPY", "field.fdata", lambda: field_deepcopy(check))
    res, info = analyse_solve(proj)
    analyse_check_end(proj, res)
    analyse_entry_points(proj, res)
    check.inventory.update(info)
    report(check, res, C07_RULES + ("DRV-IT-STAMP", "DRV-RESET", "DRV-FORWARD"))
