"""C13 — the 1D solver commutes with reflection and with change of units.

Two code-shape clauses jointly equivalent to the statement in exact arithmetic:
  units:      UNIT-HOMOG / UNIT-POLY (every kernel on the solution path is dimensionally
              homogeneous, so it commutes with any rescaling of the base units)
  reflection: GVN-MIRROR (fluxes, C02), BC-EQUIVARIANT (boundary conditions, C16),
              STN-MIRROR (the decoded relations of fvm1d and of every reconstruction are
              closed under c -> n-1-c, L <-> R, odd quantities negated), call-site twins."""
from ..disc1d import Disc1D, RECON_CLASSES, phi_axioms, N
from ..project import AnalysisError
from ..stencil import SArr, NLin
from .. import units
from . import c02, c16
from .c02 import _decide
from .c11 import decoded


def mirror_rel(D, val, kind):
    """image of a decoded relation (relative atoms) under the reflection x -> -x:
    cell index j -> n-1-j, face index f -> n-f.  `kind` tells what the running index k of
    `val` is ('face' or 'cell'); the image is expressed in the mirrored running index.
    Cell data d are even, positions odd (a common shift cancels in every difference)."""
    A = D.alg

    def f(name, k, off):
        if k != "rel":
            return None
        if name.startswith("d") or name.startswith("F"):
            cellish = name.startswith("d")
        if name.startswith("d"):
            # cell k+off (running index = face: cell index k+off) -> mirrored
            if kind == "face":
                return D.stn.rel(name, -off - 1)
            return D.stn.rel(name, -off)
        if name == "xc":
            if kind == "face":
                return -D.stn.rel(name, -off - 1)
            return -D.stn.rel(name, -off)
        if name == "xf":
            if kind == "face":
                return -D.stn.rel(name, -off)
            return -D.stn.rel(name, -off + 1)
        if name.startswith("F"):
            # face array read with a cell running index: face k+off -> mirrored face (n-1-k) + (1-off)
            return -D.stn.rel(name, 1 - off) if kind == "cell" else -D.stn.rel(name, -off)
        return None
    return D.subst_names(val, f)


def stn_mirror(check, proj):
    # reconstructions: M(L interior) == R interior
    classes = [c for c in RECON_CLASSES if proj.has_cls("xnum." + c)]
    check.floor("1D reconstruction classes", len(classes), 8)
    for cn in classes:
        try:
            D, ci, num, L, R = decoded(proj, cn)
            f = proj.resolve(ci, "interp_face")
            A = D.alg
            lL, hL, vL = D.stn.interior(L) if cn != "extrapol1" else max(L.segs, key=lambda s: (s[1] - s[0]).a)
            lR, hR, vR = D.stn.interior(R) if cn != "extrapol1" else max(R.segs, key=lambda s: (s[1] - s[0]).a)
            _decide(check, "STN-MIRROR", ci.qualname, f.loc(), A, mirror_rel(D, vL, "face"), vR,
                    "the right-state statement is the mirror twin of the left-state statement (cells j -> n-1-j, faces f -> n-f, positions negated%s)" % (", limiter odd" if cn == "muscl" else ""), key="twin")
        except AnalysisError as e:
            check.undecided("STN-MIRROR", "xnum." + cn, "analysis error: %s" % e)
    # gradients are odd
    D = Disc1D(proj, periodic=True)
    A = D.alg
    D.fvm("calc_grad")
    g = D.so.attrs["grad"][0]
    f = proj.func("modeldisc.fvm1d.calc_grad")
    l, h, v = D.stn.interior(g)
    _decide(check, "STN-MIRROR", f.qualname, f.loc(), A, mirror_rel(D, v, "face"), -v, "face gradients change sign under the reflection (interior relation)", key="grad-odd")
    # periodic seam: the closure of calc_bc_grad at faces 0 and n, in absolute indices
    # (cell k -> n-1-k, face k -> n-k, positions negated, domain length invariant)
    D = Disc1D(proj, periodic=True)
    A = D.alg
    D.fvm("calc_grad")
    D.fvm("calc_bc_grad")
    g = D.so.attrs["grad"][0]
    fb = proj.func("modeldisc.fvm1d.calc_bc_grad")

    def mirror_abs(val):
        def m(name, kind, idx):
            if kind != "abs":
                return None
            if name.startswith("d"):
                return D.stn.absol(name, NLin(1 - idx.a, -1 - idx.b))
            if name == "xc":
                return -D.stn.absol(name, NLin(1 - idx.a, -1 - idx.b))
            if name == "xf":
                return -D.stn.absol(name, NLin(1 - idx.a, -idx.b))
            return None
        return D.subst_names(val, m)
    g0, gn = D.stn.elem(g, 0), D.stn.elem(g, N)
    _decide(check, "STN-MIRROR", fb.qualname, fb.loc(), A, mirror_abs(g0), -gn,
            "the periodic closure of the face gradient at face 0 is the mirror twin of the one at face n (cells k -> n-1-k, positions negated): the junction spacing is reflection invariant", key="seam-grad-0")
    _decide(check, "STN-MIRROR", fb.qualname, fb.loc(), A, mirror_abs(gn), -g0,
            "the periodic closure of the face gradient at face n is the mirror twin of the one at face 0", key="seam-grad-n")
    # residual: res[c] = -(F[c+1]-F[c])/vol[c] is even for F odd  (F -> -F(n-f))
    D = Disc1D(proj, periodic=True)
    A = D.alg
    D.so.attrs["flux"] = [D.stn.input("F", N + 1)]
    r = D.fvm("calc_res")[0]
    f = proj.func("modeldisc.fvm1d.calc_res")
    if len(r.segs) == 1:
        v = r.segs[0][2]
        _decide(check, "STN-MIRROR", f.qualname, f.loc(), A, mirror_rel(D, v, "cell"), v, "the flux balance is invariant under the reflection (fluxes of even quantities are odd, C02)", key="res-even")
    else:
        check.violation("STN-MIRROR", f.qualname, "residual assembled by %d relations" % len(r.segs), f.loc(), key="res-segs")
    # time step argument: cell widths are even
    D = Disc1D(proj, periodic=True)
    A = D.alg
    got = {}
    from ..interp import ObjStub
    D.so.attrs["model"] = ObjStub("model", {"timestep": lambda data, dx, cond: got.setdefault("dx", dx)})
    f = proj.func("modeldisc.fvm1d.calc_timestep")
    D.interp.call_function(f, [D.so, ObjStub("field", {"data": "DATA"}), A.sym("cfl", positive=True)])
    dx = got.get("dx")
    if isinstance(dx, SArr) and len(dx.segs) == 1:
        v = dx.segs[0][2]
        ok = A.equal(v, D.stn.rel("xf", 1) - D.stn.rel("xf", 0))
        check.record("STN-MIRROR", f.qualname, ok, "the time step uses the cell widths xf[c+1]-xf[c], invariant under the reflection" if ok else "cell-size argument is %s" % A.show(v, 120), f.loc(), key="dt-dx")
        check.record("DT-CELLSIZE", f.qualname, ok, "1D cell size decodes to xf[c+1]-xf[c] for c in [0, n)" if ok else "cell-size argument is %s, not xf[c+1]-xf[c]" % A.show(v, 120), f.loc(), key="dx1d")
    elif isinstance(dx, SArr) and len(dx.segs) > 1:
        # several relations: the cell size of SOME cells is computed differently (a neighbour brought in by np.roll at one end...)
        texts = ["cells [%r, %r): %s" % (l_, h_, A.show(v_, 60)) for l_, h_, v_ in dx.segs[:3]]
        check.violation("STN-MIRROR", f.qualname, "the cell size handed to timestep() is not one relation over the cells but %d (%s): it is not the cell's own width xf[c+1]-xf[c] everywhere -- a one-sided neighbour (np.roll brings in the LEFT neighbour only, and wraps at a non-periodic end) is not invariant under the reflection" % (len(dx.segs), " ; ".join(texts)), f.loc(), key="dt-dx-segs")
    else:
        check.undecided("STN-MIRROR", f.qualname, "cell-size argument not decoded", f.loc())


def body(check):
    from ..disc1d import over_cond_paths
    over_cond_paths(check, _body_paths)


def _body_paths(check):
    proj = check.proj
    check.explanation = ("static analysis: (units) a units-of-measure type system is run over every kernel on the solution path "
                         "(fluxes, boundary conditions, time steps, conversions, variables, sources, limiters with a rigid type "
                         "variable): dimensional homogeneity is what makes the solver commute with a rescaling of units; "
                         "(reflection) fluxes are mirror-symmetric (GVN identities), boundary conditions equivariant (GVN with a "
                         "symbolic unit direction), and the decoded relations of gradients, reconstructions, flux balance, time "
                         "step and boundary call sites are closed under the index reflection (STN + GVN)")
    check.trusted += ["unit declarations per kernel role (units.model_units, VAR_DIMS, PARAM_DIMS)"]
    check.assume("'bit for bit for powers of two' (absence of under/overflow, exactness of each rounded operation under scaling) is a property of values: not decided")
    # ---- units
    units.check_flux_units(check, "UNIT-HOMOG")
    units.check_bc_units(check, "UNIT-HOMOG")
    units.check_timestep_units(check, "UNIT-HOMOG")
    units.check_variable_units(check, "UNIT-HOMOG")
    units.check_source_units(check, "UNIT-HOMOG")
    units.check_poly_units(check, "UNIT-POLY")
    # ---- reflection
    for key in ("convection", "burgers", "shallowwater", "euler1d"):
        from ..fluxes import flux_kernels
        for f, names in flux_kernels(proj, key):
            check.guarded("GVN-MIRROR", f.qualname, lambda: c02.mirror(check, key, f), f.loc())
    for key in ("euler1d", "shallowwater"):
        check.guarded("BC-EQUIVARIANT", key, lambda: c16.equivariant(check, key))
    check.guarded("STN-MIRROR", "modeldisc.fvm1d", lambda: stn_mirror(check, proj))
    # boundary call sites are mirror twins (left: -1, interior pR[0]; right: +1, interior pL[n])
    n0 = len(check.obs)
    c16.reg_bc(check)
    check.obs[n0:] = [o for o in check.obs[n0:] if "boundary]" in o.construct]
    for o in check.obs[n0:]:
        o.rule = "STN-MIRROR"
    # ---- the implicit family under reflection: the linear system pairs every unknown with the time step and the
    # Jacobian row of ITS OWN cell -- an expansion of the per-cell step in another order (np.tile) or a scaling on the
    # column side is not closed under the cell-order reversal (same obligations as C06 TH-SCHEME, these clauses only)
    from . import c06
    for c in c06.implicit_classes(proj):
        n0 = len(check.obs)
        check.guarded("STN-MIRROR", c.qualname, lambda: c06.th_scheme(check, proj, c), c.loc())
        kept = []
        for o in check.obs[n0:]:
            if o.status == "violation" and o.key in ("dt-tiled", "col-scaling", "varmajor"):
                o.rule = "STN-MIRROR"
                kept.append(o)
            elif o.status == "undecided":
                o.rule = "STN-MIRROR"
                kept.append(o)
        check.obs[n0:] = kept
        if not kept:
            check.ok("STN-MIRROR", c.qualname, "the implicit system pairs each unknown with the time step and Jacobian row of its own cell (interleaved layout throughout)", c.loc())
    # ---- sources of the nozzle model: each equation gets ITS OWN geometric source (mass / momentum / energy have
    # different parities under reflection and different dimensions): same obligations as C19 NOZ-COMPOSE
    from . import c19
    n0 = len(check.obs)
    check.guarded("NOZ-COMPOSE", "euler.nozzle", lambda: c19.noz_compose(check, proj))

