"""C06 — implicit integrators solve the linearised theta / BDF2 system exactly.

Rules: TH-SCHEME, LMM-ORDER, JAC-GUARD, FD-COLUMN, LAYOUT-AGREE, FD-STEP-MAG, all from the
abstract interpretation (AFF) of step / solve_implicit / calc_jacobian."""
import ast
from fractions import Fraction

from ..affine import run_step, run_jacobian, NEQ, FDQuot, JacMat, Idx, IdxClamp
from ..project import AnalysisError, unparse

# nominal (theta, xi) of the statement: class -> {typestate: (theta, xi)}
NOMINAL = {
    "implicit": {"no history": (Fraction(1), Fraction(0))},
    "backwardeuler": {"no history": (Fraction(1), Fraction(0))},
    "trapezoidal": {"no history": (Fraction(1, 2), Fraction(0))},
    "cranknicolson": {"no history": (Fraction(1, 2), Fraction(0))},
    "gear": {"no history": (Fraction(1, 2), Fraction(0)), "history": (Fraction(1), Fraction(1, 2))},
}
ORDER = {"implicit": 1, "backwardeuler": 1, "trapezoidal": 2, "cranknicolson": 2, "gear": 2}
# forward-difference error model: relative round-off  eps_mach/rel  and truncation  rel
EPS_MACH = Fraction(1, 2 ** 52)
ROUNDOFF_MAX = Fraction(1, 10 ** 6)
TRUNC_MAX = Fraction(1, 10 ** 4)


def implicit_classes(proj):
    base = proj.cls("integration.implicitmodel")
    return [c for c in proj.subclasses(base, strict=True) if c.module.tail == "integration"]


def th_scheme(check, proj, c):
    q = c.qualname
    name = c.name
    stepf = proj.resolve(c, "step")
    loc = stepf.loc()
    if name not in NOMINAL:
        check.undecided("TH-SCHEME", q, "UNCLASSIFIED: implicit integrator class without nominal (theta, xi) in the checker's table", c.loc())
        return
    nsteps = 2 if len(NOMINAL[name]) > 1 else 1
    ai, outs = run_step(proj, c, nsteps)
    one = {0: Fraction(1)}
    for o in outs:
        ts = o["typestate"]
        where = "%s [%s]" % (q, ts)
        if ts not in NOMINAL[name]:
            check.undecided("TH-SCHEME", where, "unexpected typestate", loc)
            continue
        theta, xi = NOMINAL[name][ts]
        sv = o["solves"]
        if len(sv) != 1:
            check.violation("TH-SCHEME", where, "%d linear solves in one step (expected 1)" % len(sv), loc, key="nsolve")
            continue
        mat, rhs = sv[0]
        # matrix: D^s * ((1+xi) D^-1 - theta J) for some row scaling s (D = diag(dt): dt scalar or one
        # value per cell).  A scaling on the column side, J D^c, is another system for local time steps.
        sc = getattr(mat, "rowp", 0)
        want_ident = {sc - 1: 1 + xi}
        if getattr(mat, "tiled", False):
            check.violation("TH-SCHEME", where, "the per-cell time step is expanded to the unknowns with np.tile (variable-major: all cells of equation 0, then equation 1 ...) while the packed vectors and the Jacobian are interleaved cell by cell: with a local-time-step array and more than one equation each cell is advanced with other cells' steps", loc, key="dt-tiled")
        elif getattr(mat, "colp", 0) != 0:
            check.violation("TH-SCHEME", where, "the Jacobian is scaled by the time-step array on the COLUMN side (matrix %r): numpy broadcasts a 1-D array along the last axis, so `dt_array * J` is J*diag(dt), not diag(dt)*J; with a local-time-step array the system solved is not the theta scheme" % (mat,), loc, key="col-scaling")
        elif mat.ident == want_ident and mat.jac == -theta:
            check.ok("TH-SCHEME", where, "matrix is %s(1+xi)/dt*I - theta*J%s with (theta, xi) = (%s, %s)" % ("diag(dt)^%d * [" % sc if sc else "", "]" if sc else "", theta, xi), loc)
        else:
            check.violation("TH-SCHEME", where, "matrix is %r, expected a row scaling of (%s*dt^-1)*I + (%s)*J" % (mat, 1 + xi, -theta), loc, key="matrix")
        # Jacobian taken at the state being stepped, right-hand side = R(Q0) (+ xi*last)
        if mat.jtag is None or not o["J"]:
            check.violation("JAC-GUARD", where, "no Jacobian evaluation on this step path", loc, key="nojac")
        else:
            jdata, note = ai.trace.J[mat.jtag]
            okj = all(jdata[e].form == {("Q0", e): one} for e in range(NEQ))
            if okj:
                check.ok("JAC-GUARD", where, "calc_jacobian is called on the unmodified field being stepped, before the solve", loc)
            else:
                check.violation("JAC-GUARD", where, "Jacobian is evaluated at %s, not at the state being stepped" % jdata[0], loc, key="jacstate")
        k0 = o["k0"]
        okrhs = True
        for e in range(NEQ):
            form = dict(rhs[e].form)
            kterms = [(b, p) for b, p in form.items() if b[0] == "K"]
            lterms = [(b, p) for b, p in form.items() if b[0] == "L"]
            other = [b for b in form if b[0] not in ("K", "L")]
            if other:
                check.violation("TH-SCHEME", where, "right-hand side of equation %d contains %s (residual clobbered or not recomputed after the Jacobian)" % (e, other), loc, key="rhs-foreign")
                okrhs = False
                continue
            if len(kterms) != 1 or kterms[0][1] != {sc: Fraction(1)} or kterms[0][0][2] != e:
                check.violation("TH-SCHEME", where, "right-hand side of equation %d is %s, expected the residual R_%d(Q)" % (e, rhs[e], e), loc, key="rhs-K")
                okrhs = False
                continue
            j = kterms[0][0][1]
            tS, kdata, _ = ai.trace.K[j]
            if any(kdata[z].form != {("Q0", z): one} for z in range(NEQ)) or tS.poly:
                check.violation("TH-SCHEME", where, "residual in the right-hand side is evaluated at %s, not at the state being stepped" % kdata[0], loc, key="rhs-state")
                okrhs = False
            lcoef = lterms[0][1] if lterms else {}
            wantl = {sc: xi} if xi != 0 else {}
            if lcoef != wantl or (lterms and lterms[0][0] != ("L", e)):
                check.violation("TH-SCHEME", where, "right-hand side carries %s of the previous increment, expected xi = %s" % (lcoef or 0, xi), loc, key="rhs-last")
                okrhs = False
        if okrhs:
            check.ok("TH-SCHEME", where, "right-hand side is R(Q) + xi*last with xi = %s, R evaluated at the state being stepped after the Jacobian" % xi, loc)
        # update
        f = o["field"]
        n = o["s0"]
        okup = True
        for e in range(NEQ):
            if f.data[e].form != {("Q0", e): one, ("X", n, e): one}:
                check.violation("TH-SCHEME", where, "state after the step is %s, expected Q + x (solution of the linear system, applied once)" % f.data[e], loc, key="update")
                okup = False
        if okup:
            check.ok("TH-SCHEME", where, "update is exactly the solution x of the system, applied once", loc)
        # one step is one step of size dt (which reduction of a local-time-step array stamps the
        # field is C07's clause, not this one)
        adv = f.time.s
        if adv.poly == {1: Fraction(1)}:
            check.ok("AFF-TIME", where, "the step is applied once: time advances by exactly one dt", loc)
        else:
            check.violation("AFF-TIME", where, "step advances time by %r (expected exactly one dt)" % adv, loc, key="advance")
        # stored history
        if name == "gear":
            st = o["stored"].get("_lastresidual")
            good = st is not None and all(st[e].form == {("X", n, e): {-1: Fraction(1)}} for e in range(NEQ))
            if good:
                check.ok("TH-SCHEME", where, "stores last := x/dt of the step just taken", loc)
            else:
                check.violation("TH-SCHEME", where, "stored previous increment is %s, expected x/dt of the step just taken" % (st[0] if st else None), loc, key="last")
        # linear multistep order from the extracted coefficients
        if mat.ident and -1 in mat.ident and len(mat.ident) == 1:
            xi_r = mat.ident[-1] - 1
            th_r = -mat.jac
            order = 2 if xi_r == th_r - Fraction(1, 2) else 1
            want = ORDER[name] if not (name == "gear" and ts == "no history") else 2
            if order >= want:
                check.ok("LMM-ORDER", where, "extracted (theta, xi) = (%s, %s) satisfies the order-%d condition xi = theta - 1/2%s" % (th_r, xi_r, want, "" if want == 2 else " (order 1: consistency)"), loc)
            else:
                check.violation("LMM-ORDER", where, "extracted (theta, xi) = (%s, %s) is only first-order accurate (needs xi = theta - 1/2)" % (th_r, xi_r), loc, key="order")


def jac_guard(check, proj):
    """the Jacobian may be re-used only where dR/dQ does not depend on the state: every early
    return of calc_jacobian must be conjoined with a linearity test of the MODEL and a linearity
    test of the RECONSTRUCTION (a limited reconstruction makes the space operator nonlinear even
    for linear convection); and the linearity each reconstruction class declares must be true."""
    f = proj.func("integration.implicitmodel.calc_jacobian")
    # decided over the BOOLEAN abstraction of what the guard can look at: the function is evaluated on its
    # syntax tree (minieval.py) for every combination of
    #     model.islinear in {0, 1}  x  reconstruction {linear, nonlinear, declares nothing, absent}  x  Jacobian {already computed, not yet}
    # up to its first store into the solver object (= it recomputes) or its return before that (= it re-uses).
    from ..minieval import MiniEval, SelfRef, Stub

    class _Recompute(Exception):
        pass

    def stop_at_store(st, fn):
        ts = st.targets if isinstance(st, ast.Assign) else ([st.target] if isinstance(st, (ast.AugAssign, ast.AnnAssign)) else [])
        for t in ts:
            r = t
            while isinstance(r, (ast.Attribute, ast.Subscript)):
                r = r.value
            if isinstance(r, ast.Name) and fn.params and r.id == fn.params[0] and not isinstance(t, ast.Name):
                raise _Recompute()
    cls = proj.cls("integration.implicitmodel")
    found, bad, nocache = 0, [], []
    ncase = 0
    for m in (0, 1):
        for numkind in ("linear", "nonlinear", "undeclared", "absent"):
            for have in (False, True):
                num = {"linear": Stub("num", {"islinear": 1}), "nonlinear": Stub("num", {"islinear": 0}), "undeclared": Stub("num", {}), "absent": None}[numkind]
                disc = Stub("modeldisc", {"num": num} if num is not None else {})
                attrs = {"modeldisc": disc}
                if have:
                    attrs.update({"jacobian_use": 0, "jacobian": Stub("jacobian", {}), "neq": 1, "dim": 1})
                me = SelfRef(cls, attrs)
                field = Stub("field", {"model": Stub("model", {"islinear": m}), "neq": 1, "nelem": 1, "data": []})
                ev = MiniEval(proj)
                ev.on_stmt = stop_at_store
                args = [me, field] + [1] * (len(f.params) - 2 - len(f.defaults()))
                try:
                    ev.call(f, args)
                    reused = True
                except _Recompute:
                    reused = False
                except AnalysisError as e:
                    raise AnalysisError("calc_jacobian guard not evaluable over the boolean abstraction (model.islinear=%d, reconstruction %s, Jacobian %s): %s" % (m, numkind, "present" if have else "absent", e))
                ncase += 1
                if reused:
                    found += 1
                    if not have:
                        nocache.append((m, numkind))
                    elif not (m == 1 and numkind == "linear"):
                        bad.append((m, numkind))
    names = {"model": "the model (islinear)", "num": "the reconstruction (a limited reconstruction such as muscl makes the operator nonlinear even for linear convection)"}
    if nocache:
        check.violation("JAC-GUARD", f.qualname, "calc_jacobian returns without computing although no Jacobian has been computed yet (model.islinear=%d, reconstruction %s)" % nocache[0], f.loc(), key="cache-none")
    if bad:
        missing = []
        if any(m == 0 for m, k in bad):
            missing.append("model")
        if any(k != "linear" for m, k in bad if m == 1) or (not missing and any(k != "linear" for m, k in bad)):
            missing.append("num")
        ex = bad[0]
        check.violation("JAC-GUARD", f.qualname, "the cached Jacobian is re-used although the operator is not known to be linear (e.g. model.islinear=%d, reconstruction %s): the re-use is not conditional on the linearity of %s: later steps re-use a stale Jacobian" % (ex[0], ex[1], " nor of ".join(names[x] for x in missing)), f.loc(), key="cache-guard" if "model" in missing else "cache-guard-num")
    elif not nocache:
        check.ok("JAC-GUARD", f.qualname, "evaluated over the boolean abstraction (%d combinations of model linearity x reconstruction linear / nonlinear / undeclared / absent x Jacobian present / absent): the stored Jacobian is re-used only when the model AND the reconstruction declare linearity and a Jacobian exists (%d re-use case(s))" % (ncase, found), f.loc())
    # declared linearity of the reconstruction classes is true
    from ..disc1d import RECON_CLASSES
    from .c11 import decoded
    n = 0
    for cn in RECON_CLASSES:
        if not proj.has_cls("xnum." + cn):
            continue
        ci = proj.cls("xnum." + cn)
        owner, expr = proj.class_attr(ci, "islinear")
        decl = expr.value if isinstance(expr, ast.Constant) else None
        for c in proj.mro(ci):
            init = c.methods.get("__init__")
        summ = proj.ctor_summary(ci)
        if "islinear" in summ and summ["islinear"][0] == "const":
            decl = summ["islinear"][1]
        if decl is None and bad:
            continue        # the guard does not consult the reconstruction at all: reported above
        if decl is None:
            check.violation("JAC-LINEAR", ci.qualname, "no constant `islinear` declaration: the cache guard cannot tell whether this reconstruction is linear", ci.loc(), key="nodecl")
            continue
        n += 1
        if int(decl) != 1:
            check.ok("JAC-LINEAR", ci.qualname, "declared nonlinear: the Jacobian is recomputed at every step", ci.loc(), nontrivial=False)
            continue
        D, ci2, num, L, R = decoded(proj, cn)
        A = D.alg
        nonlin = None
        for arr in (L, R):
            for l, h, v in arr.segs:
                if A.atoms_of(v, "opaque") or A.atoms_of(v, "ind"):
                    nonlin = "a limiter / selection enters the face state"
                for m in v.num:
                    if sum(e for a, e in m if A.atoms[a].name.startswith("d@") or A.atoms[a].name.startswith("d#")) > 1:
                        nonlin = "a product of data entries enters the face state"
        if nonlin:
            check.violation("JAC-LINEAR", ci.qualname, "declares islinear = 1 but %s: the cached Jacobian is stale after the first step" % nonlin, ci.loc(), key="false-decl")
        else:
            check.ok("JAC-LINEAR", ci.qualname, "declared linear, and the decoded left / right face states are affine in the cell data on every segment", ci.loc())
    if not bad:
        check.floor("reconstruction classes with a linearity declaration", n, 8)


def _mentions_attr(node, attr):
    for n in ast.walk(node):
        if isinstance(n, ast.Attribute) and n.attr == attr:
            return True
        if isinstance(n, ast.Call) and isinstance(n.func, ast.Name) and n.func.id == "getattr" and len(n.args) >= 2 and isinstance(n.args[1], ast.Constant) and n.args[1].value == attr:
            return True
    return False


def fd_column(check, proj, conservation_only=False, only_kinds=None):
    """conservation_only (C01): only what makes the volume-weighted column sums vanish -- every
    column a full difference of two residuals over a scalar; which cell was perturbed, by how much
    and how accurate the quotient is belong to C06 alone"""
    for lin in (0, 1):
        _fd_column(check, proj, lin, conservation_only, only_kinds)


def _fd_column(check, proj, lin, conservation_only=False, only_kinds=None):
    c = proj.cls("integration.implicit")
    fq = proj.resolve(c, "calc_jacobian")
    loc = fq.loc()
    q = fq.qualname + (" [linear model, first call]" if lin else "")
    ai, f, jm = run_jacobian(proj, c, lin)
    one = {0: Fraction(1)}
    if not isinstance(jm, JacMat):
        check.undecided("FD-COLUMN", q, "self.jacobian is not built by element stores", loc)
        return
    K = ai.trace.K
    if not K or any(K[0][1][e].form != {("Q0", e): one} for e in range(NEQ)):
        check.violation("FD-COLUMN", q, "reference residual is not evaluated at the unperturbed field", loc, key="ref")
        return
    if any(f.data[e].form != {("Q0", e): one} for e in range(NEQ)):
        check.violation("FD-COLUMN", q, "the caller's field is modified by the perturbation (%s)" % f.data[0], loc, key="field-mutated")
    covered = set()
    floors = set()
    rels = set()
    problems = []
    for (idx, v, sloc) in jm.stores:
        if type(v).__name__ == "ColCopy":
            problems.append(("copied", "at %s, on the path [%s], Jacobian columns are filled with %s instead of a finite difference with respect to their own cell: exact only for a translation-invariant operator (uniform mesh, periodic boundaries); with other meshes or boundary conditions the matrix is not dR/dQ" % (sloc, v.path, v.how)))
            continue
        if not (isinstance(idx, tuple) and len(idx) == 2 and isinstance(v, FDQuot)):
            problems.append(("store", "unsupported Jacobian store at %s" % sloc))
            continue
        row, col = idx
        if v.partial or (isinstance(row, slice) and any(isinstance(x, (Idx, IdxClamp)) for x in (row.start, row.stop))):
            problems.append(("partial", "column (i,q) is stored only into a band of rows that depends on the cell index (%s): couplings outside the band, e.g. through the periodic wrap, are dropped and volume-weighted column sums no longer vanish" % sloc))
            continue
        if not (isinstance(row, slice) and isinstance(row.start, int) and row.stop is None and row.step == NEQ and isinstance(col, Idx)):
            problems.append(("layout", "store at %s does not use rows [qq::neq] and a column affine in the cell index" % sloc))
            continue
        qq = row.start
        form = v.arr.form
        ks = [(b, p) for b, p in form.items()]
        pos = [b for b, p in ks if p == one]
        neg = [b for b, p in ks if p == {0: Fraction(-1)}]
        if len(ks) != 2 or len(pos) != 1 or len(neg) != 1 or pos[0][0] != "K" or neg[0][0] != "K":
            problems.append(("diff", "column value at %s is %s, expected R(perturbed) - R(unperturbed)" % (sloc, v.arr)))
            continue
        if neg[0][1] != 0 or neg[0][2] != qq or pos[0][2] != qq:
            problems.append(("diff", "store at %s: rows of equation %d filled from %s - %s" % (sloc, qq, pos[0], neg[0])))
            continue
        j = pos[0][1]
        kdata = K[j][1]
        perts = []
        for e in range(NEQ):
            for b, p in kdata[e].form.items():
                if b[0] == "PERT":
                    perts.append((e, b, p))
                elif b != ("Q0", e) or p != one:
                    problems.append(("pert", "perturbed state contains %s" % (b,)))
        if len(perts) != 1:
            problems.append(("pert", "residual %d is evaluated with %d perturbed components (perturbations accumulate or are missing): %s" % (j, len(perts), kdata[0])))
            continue
        e, b, p = perts[0]
        _, idxrepr, pcomp, prel, pcell, pabs = b
        if p != one:
            problems.append(("pert", "component perturbed %s times" % p))
            continue
        if pcomp != e:
            problems.append(("pert", "component %d is perturbed with the step computed for component %d" % (e, pcomp)))
            continue
        if idxrepr != repr(Idx(col.name)):
            problems.append(("pert", "perturbed cell index %s is not the loop cell" % idxrepr))
            continue
        if not (col.a == NEQ and col.b == e and not getattr(col, "sym", "")):
            problems.append(("layout", "column index %r for the perturbation of (cell i, equation %d), expected %d*i+%d" % (col, e, NEQ, e)))
            continue
        if v.eps.comp != e or str(v.eps.rel) != prel or v.eps.per_cell != pcell:
            problems.append(("eps", "difference divided by the step of component %d (%r) but component %d was perturbed by %s" % (v.eps.comp, v.eps, e, prel)))
            continue
        covered.add((qq, e))
        rels.add((v.eps.rel, v.eps.per_cell, v.eps.absval))
        if v.eps.floor is not None:
            floors.add(v.eps.floor)
    if conservation_only:
        problems = [(k, t) for k, t in problems if k not in ("pert", "eps")]
    if only_kinds is not None:
        problems = [(k, t) for k, t in problems if k in only_kinds]
    for kind, text in problems:
        check.violation("FD-COLUMN" if kind != "layout" else "LAYOUT-AGREE", q, text, loc, key=kind)
    if not problems:
        if covered == {(a, b) for a in range(NEQ) for b in range(NEQ)}:
            check.ok("FD-COLUMN", q, "each column (i,q) = (R(Q + eps_q e_iq) - R(Q))/eps_q from a fresh copy per (i,q), reference taken before the loops", loc)
            check.ok("LAYOUT-AGREE", q, "Jacobian rows [qq::neq], columns i*neq+q; solve_implicit packs/unpacks [q::neq], diagonal by np.repeat: one interleaved layout", loc)
        else:
            check.violation("FD-COLUMN", q, "only blocks %s of the Jacobian are filled" % sorted(covered), loc, key="coverage")
    if conservation_only:
        return
    # perturbation magnitude
    for fl in sorted(floors):
        check.violation("FD-STEP-ABS", q, "the perturbation is rel*max(mean|q|, %s): an absolute floor. For states of magnitude far below %s (small-amplitude data, other units) the step is not small relative to the state, the forward difference is no longer the derivative of a nonlinear operator (error O(floor/|q|)), and the step does not scale with a change of units" % (float(fl), float(fl)), loc, key="abs-floor")
    if not floors:
        check.ok("FD-STEP-ABS", q, "the perturbation is proportional to the state magnitude (no absolute constant enters it)", loc)
    for rel, per_cell, absval in rels:
        if not (per_cell and absval):
            check.violation("FD-STEP-MAG", q, "perturbation scale is %s of the data, not the mean absolute value (can vanish or scale with the mesh size)" % ("the signed mean" if per_cell else "the sum"), loc, key="scale")
            continue
        ro = EPS_MACH / rel
        if ro <= ROUNDOFF_MAX and rel <= TRUNC_MAX:
            check.ok("FD-STEP-MAG", q, "relative step %.3e: round-off bound eps_mach/step = %.1e <= 1e-6, truncation step <= 1e-4" % (float(rel), float(ro)), loc)
        elif ro > ROUNDOFF_MAX:
            check.violation("FD-STEP-MAG", q, "relative step %.3e: forward difference is round-off dominated (eps_mach/step = %.1e > 1e-6)" % (float(rel), float(ro)), loc, key="roundoff")
        else:
            check.violation("FD-STEP-MAG", q, "relative step %.3e too large for a first-order difference on nonlinear models (> 1e-4)" % float(rel), loc, key="trunc")


def matrix_fresh(check, proj):
    """the linear system of a step may depend on the solver object only through the Jacobian
    cache (linear models) and, for gear, the stored previous increment"""
    from ..affine import step_effects
    allowed = {"jacobian", "jacobian_use", "neq", "dim", "_lastresidual", "residual"}
    for c in implicit_classes(proj):
        stepf = proj.resolve(c, "step")
        bad = {}
        try:
            for lin in (0, 1):
                config, effs = step_effects(proj, c, lin)
                allw = set()
                for e in effs:
                    allw |= e["written"]
                for e in effs:
                    for a, where in e["carried"]:
                        if a in allowed or (a in config and a not in allw):
                            continue
                        bad.setdefault(a, where)
                    if not lin:
                        for a, where in e["carried"]:
                            if a in ("jacobian", "jacobian_use") and a in allw:
                                bad.setdefault(a + " (nonlinear model)", where)
        except AnalysisError as e:
            check.undecided("MAT-FRESH", c.qualname, str(e), stepf.loc())
            continue
        if bad:
            a, where = sorted(bad.items())[0]
            check.violation("MAT-FRESH", c.qualname, "the linear system of a step reads self.%s (at %s) left by an earlier step: a step with a different dt (the side step onto a save time, a new CFL number) solves a stale system" % (a, where), stepf.loc(), key="stale-" + a.split()[0])
        else:
            check.ok("MAT-FRESH", c.qualname, "matrix and right-hand side of every step are rebuilt from this step's dt, residual and Jacobian (three consecutive steps, linear and nonlinear models)", stepf.loc())


def body(check):
    proj = check.proj
    check.explanation = ("static analysis: abstract interpretation (AFF) of step/solve_implicit/calc_jacobian yields the "
                         "linear system (a/dt*I - theta*J) x = R + xi*last, the applied update, the stored history and the "
                         "finite-difference column structure; compared with the theta-scheme / BDF2 tables and the "
                         "linear-multistep order condition in exact arithmetic; the cache guard is a dominance query on "
                         "the AST")
    check.trusted += ["(theta, xi) table of the statement (c06.NOMINAL)", "forward-difference error model thresholds 1e-6 / 1e-4"]
    check.assume("np.linalg.solve solves the system; J denotes dR/dQ at the recorded state")
    check.exhaustive = True
    classes = implicit_classes(proj)
    check.floor("implicit integrator classes", len(classes), 5)
    for c in classes:
        check.guarded("TH-SCHEME", c.qualname, lambda: th_scheme(check, proj, c), c.loc())
    check.guarded("MAT-FRESH", "integration.implicitmodel", lambda: matrix_fresh(check, proj))
    check.guarded("JAC-GUARD", "integration.implicitmodel.calc_jacobian", lambda: jac_guard(check, proj))
    check.guarded("FD-COLUMN", "integration.implicitmodel.calc_jacobian", lambda: fd_column(check, proj))
    check.guarded("FD-STEP-ZERO", "integration.implicitmodel.calc_jacobian", lambda: fd_step_zero(check, proj))


def fd_step_zero(check, proj):
    """the perturbation eps_q = rel * mean|data_q| has no positive floor: for an admissible
    state with an identically vanishing component (momentum of a state at rest) eps_q = 0
    and the finite-difference column is 0/0"""
    c = proj.cls("integration.implicit")
    fq = proj.resolve(c, "calc_jacobian")
    ai, f, jm = run_jacobian(proj, c)
    if not isinstance(jm, JacMat) or not jm.stores:
        check.undecided("FD-STEP-ZERO", fq.qualname, "Jacobian stores not found", fq.loc())
        return
    pure = [v.eps for (idx, v, sloc) in jm.stores if isinstance(v, FDQuot)]
    if pure and all(type(e).__name__ == "EpsVal" and e.floor is None for e in pure):
        check.violation("FD-STEP-ZERO", fq.qualname, "the perturbation of component q is rel*mean|data_q| with no positive floor: for a state with an identically zero component (momentum of a flow at rest) the step is 0 and the Jacobian column is 0/0 = NaN, so implicit / Crank-Nicolson / gear do not preserve a state at rest", fq.loc(), key="eps-zero")
    else:
        check.ok("FD-STEP-ZERO", fq.qualname, "perturbation has a positive floor", fq.loc())
