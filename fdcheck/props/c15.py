"""C15 — the 2D Cartesian solver agrees with the 1D solver and with grid symmetries.

Rules: RANK-COVARIANT, STN-TRANSPOSE, DIR-TABLE, BC-2D-SITE, ROW-1D-AGREE, FLUX-1D-AGREE,
TELESCOPE-2D (shared with C01), SEAM-2D (C14), CONST-2D / KAPPA-2D (C03 / C11)."""
import ast
import re
from fractions import Fraction

from ..interp import Vec, ParamDict
from ..models import Ctx, MODELS, flat
from ..project import AnalysisError
from ..stencil2d import Disc2D, A2, V2, ATOM, Relation, LayoutMismatch
from ..fluxes import flux_kernels, call_flux
from .c02 import _decide

PER = {t: "per" for t in ("left", "right", "top", "bottom")}
OPEN = {"left": "insub", "right": "outsub", "top": "sym", "bottom": "sym"}
# mixed configurations: periodic along one direction only (walls on the other pair)
XPER = {"left": "per", "right": "per", "top": "sym", "bottom": "sym"}
YPER = {"left": "sym", "right": "sym", "top": "per", "bottom": "per"}


# --------------------------------------------------------------------------- helpers
def dom_key(A, r):
    out = []
    for k in ("i", "j"):
        v = r.dom[k]
        out.append(v if isinstance(v, str) else (A.show(v[0]), A.show(v[1])))
    return tuple(out)


def transpose_relation(D, r):
    """image of a relation under (i, j, nx, ny, dx, dy, i-face) <-> (j, i, ny, nx, dy, dx, j-face)"""
    A = D.eng.alg
    nx, ny = D.eng.nx, D.eng.ny
    swapfam = {"cell": "cell", "if": "jf", "jf": "if"}
    swapabs = {"=0": "=0", "=nx": "=ny", "=ny": "=nx", "=nx-1": "=ny-1", "=ny-1": "=nx-1"}

    def tname(nm):
        return nm.replace("xg_", "@@").replace("yg_", "xg_").replace("@@", "yg_")

    def tcoord(c):
        if c.startswith("=") and c not in swapabs:
            # a symbolic absolute position (=-1 + nx): the image exchanges nx and ny
            return c.replace("nx", "@@").replace("ny", "nx").replace("@@", "ny")
        return swapabs.get(c, c)
    ids = {}
    for aid in A.atoms_of(r.expr):
        m = ATOM.match(A.atoms[aid].name)
        if m:
            ids[aid] = A.sym("%s|%s|%s|%s" % (tname(m.group("name")), swapfam[m.group("fam")], tcoord(m.group("j")), tcoord(m.group("i"))))
    sw = {next(iter(A.atoms_of(nx))): ny, next(iter(A.atoms_of(ny))): nx,
          next(iter(A.atoms_of(D.lx))): D.ly, next(iter(A.atoms_of(D.ly))): D.lx}
    ids.update(sw)
    expr = A.subst(r.expr, ids)

    def tdom(v):
        if isinstance(v, str):
            return tcoord("=" + v)[1:]
        return (A.subst(v[0], sw), A.subst(v[1], sw))
    dom = dict(i=tdom(r.dom["j"]), j=tdom(r.dom["i"]))
    kind = {"row": "row", "col": "rowabs", "rowabs": "col"}[r.kind]
    return Relation(tname(r.array), swapfam[r.fam], kind, dom, expr, r.lineno, r.where)


def same_relation(A, a, b):
    if (a.array, a.fam, a.kind) != (b.array, b.fam, b.kind):
        return False
    if dom_key(A, a) != dom_key(A, b):
        return False
    return A.equal(a.expr, b.expr)


def canon(A, rf):
    """an expression as a value that does not depend on the order in which its algebra met the atoms (two runs of the
    interpreter on two configurations number their atoms differently; the printed form follows that numbering)"""
    def poly(p_):
        return frozenset((tuple(sorted((A.atoms[a].name, str(e)) for a, e in m)), c) for m, c in p_.items())
    return (poly(rf.num), frozenset((poly(A.factors[f]), m) for f, m in rf.den))


class RaisesForValidConfig(AnalysisError):
    pass


def collect(proj, shapes, bct, recon="extrapol2dk"):
    """decoded relations of one rhs pass (gradients, closures, reconstruction, calc_bc, flux balance)"""
    try:
        return _collect(proj, shapes, bct, recon)
    except AnalysisError as e:
        if "raise statement reached" in str(e) or "raise reached" in str(e):
            cfg = ", ".join("%s=%s" % (t, bct[t]) for t in ("left", "right", "bottom", "top"))
            ex = RaisesForValidConfig(str(e))
            ex.violation = ("BC-COMBO", "modeldisc.fvm2dcart", "the 2D operator raises an exception for the valid boundary combination (%s): %s" % (cfg, e), "raises-" + "-".join(bct[t] for t in ("left", "right", "bottom", "top")))
            raise ex
        raise


def _collect(proj, shapes, bct, recon="extrapol2dk"):
    D = Disc2D(proj, neq_shapes=shapes, bctypes=bct)
    E = D.eng
    stages = {}
    n0 = 0

    def stage(name):
        nonlocal n0
        stages[name] = E.relations[n0:]
        n0 = len(E.relations)
    D.fvm("calc_grad")
    stage("calc_grad")
    D.fvm("calc_bc_grad")
    stage("calc_bc_grad")
    ci, num = D.recon(recon)
    L, R = D.interp_face(ci, num)
    stage("interp_face")
    D.so.attrs["pL"], D.so.attrs["pR"] = L, R
    calls = []

    def namedBC(name, dirv, data, param):
        calls.append((name, dirv, data, param))
        return [V2(E.alg.sym("B%s%d" % (param["tag"], i)), d.space) if isinstance(d, V2) else d for i, d in enumerate(data)]
    D.model.attrs["namedBC"] = namedBC
    D.fvm("calc_bc")
    stage("calc_bc")
    got = {}

    def numflux(tag, pL, pR, d):
        got["args"] = (tag, pL, pR, d)
        return [A2(E, "F_%d" % i, "ff", vec=(sh == 2)) for i, sh in enumerate(shapes)]
    D.model.attrs["numflux"] = numflux
    D.so.attrs["numflux"] = "FLUXTAG"
    D.fvm("calc_flux")
    D.so.attrs["flux"] = got.get("flux") or [A2(E, "F_%d" % i, "ff", vec=(sh == 2)) for i, sh in enumerate(shapes)]
    D.fvm("calc_res")
    stage("calc_res")
    return D, stages, calls, got, ci


# --------------------------------------------------------------------------- rules
def telescope_2d(check):
    proj = check.proj
    for shapes in ((1,), (2,)):
        D, stages, calls, got, ci = collect(proj, shapes, PER)
        A = D.eng.alg
        f = proj.func("modeldisc.fvm2dcart.calc_res")
        rels = stages["calc_res"]
        tag = "vector component" if shapes == (2,) else "scalar component"
        if len(rels) != 1:
            check.violation("TELESCOPE-2D", f.qualname, "%s: residual assembled by %d relations (expected one relation over all cells)" % (tag, len(rels)), f.loc(), key="nrel")
            continue
        r = rels[0]
        nx, ny = D.eng.nx, D.eng.ny
        dx, dy = D.lx / nx, D.ly / ny
        F = lambda fam, di, dj: A.sym("F_0|%s|%+d|%+d" % (fam, di, dj))
        want = -((F("if", 1, 0) - F("if", 0, 0)) / dx + (F("jf", 0, 1) - F("jf", 0, 0)) / dy)
        okdom = dom_key(A, r) == (("0", "nx"), ("0", "ny")) and r.fam == "cell"
        st, info = A.decide_equal(r.expr, want)
        if okdom and st == "proved":
            check.ok("TELESCOPE-2D", f.qualname, "%s: res[i,j] = -((F_if[i+1,j]-F_if[i,j])/dx + (F_jf[i,j+1]-F_jf[i,j])/dy) for all cells: every interior face occurs twice with opposite sign, dx*dy = mesh2d.vol()" % tag, f.loc())
        else:
            check.violation("TELESCOPE-2D", f.qualname, "%s: residual relation is %s on %s, expected the telescoping balance over i in [0,nx), j in [0,ny)" % (tag, A.show(r.expr, 200), dom_key(A, r)), f.loc(), key="telescope-" + tag.split()[0], info=info)
    # periodic closure of face states: connected tags copy the opposite boundary line
    D, stages, calls, got, ci = collect(proj, (1, 2), PER)
    A = D.eng.alg
    f = proj.func("modeldisc.fvm2dcart.calc_bc")
    want = {("faL", "if", "0"): ("=nx", "i"), ("faR", "if", "nx"): ("=0", "i"), ("faL", "jf", "0"): ("=ny", "j"), ("faR", "jf", "ny"): ("=0", "j")}
    seen = set()
    bad = []
    for r in stages["calc_bc"]:
        base = r.array.rsplit("_", 1)[0]
        line = r.dom["i"] if isinstance(r.dom["i"], str) else r.dom["j"]
        key = (base, r.fam, line)
        seen.add(key)
        if key not in want:
            bad.append("unexpected closure %s" % (key,))
            continue
        src, axis = want[key]
        atom = "%s|%s|%s|+0" % (r.array, r.fam, src) if axis == "i" else "%s|%s|+0|%s" % (r.array, r.fam, src)
        if not A.equal(r.expr, A.sym(atom)):
            bad.append("%s line %s is filled with %s, expected its own values on the opposite line %s" % (key[0] + "|" + key[1], line, A.show(r.expr, 80), src))
    missing = set(want) - seen
    if bad or missing:
        check.violation("PERIODIC-CLOSE", f.qualname, "; ".join(bad + ["missing closure %s" % (m,) for m in sorted(missing)])[:400], f.loc(), key="close2d")
    else:
        check.ok("PERIODIC-CLOSE", f.qualname, "2D: the exterior state of each periodic boundary line is copied from the same array on the connected line, same row/column order: both ends feed identical pairs to a point-wise flux", f.loc())


def effective_gradient_relations(A, stages):
    """the gradient stages without their no-op stores: `xgrad[boundary line] = 0.` into the freshly zero-allocated difference
    array, on a line no earlier relation wrote, changes nothing -- a code path that keeps such a statement and its transposed
    twin that relies on the allocation are the same function"""
    def disjoint(r, o):
        axis = "i" if r.kind == "col" else "j"
        rng = o.dom.get(axis)
        line = r.dom[axis]
        if not isinstance(rng, tuple) or not isinstance(line, str):
            return False
        lo, hi = A.show(rng[0]), A.show(rng[1])
        return (line == "0" and lo == "1") or (line in ("nx", "ny") and hi == line)
    seen, out = [], dict(stages)
    for st in ("calc_grad", "calc_bc_grad"):
        keep = []
        for r in stages.get(st, []):
            noop = (r.expr.is_zero() and r.array[:3] in ("xg_", "yg_") and r.kind in ("col", "rowabs")
                    and all(disjoint(r, o) for o in seen if o.array == r.array and not o.expr.is_zero()))
            seen.append(r)
            if not noop:
                keep.append(r)
        out[st] = keep
    return out


def transpose(check):
    proj = check.proj
    for recon in ("extrapol2d1", "extrapol2dk"):
        for bct, bname in ((PER, "periodic"), (OPEN, "non-periodic")):
            for shapes in ((1,), (2,)):
                try:
                    D, stages, calls, got, ci = collect(proj, shapes, bct, recon)
                except AnalysisError as e:
                    check.undecided("STN-TRANSPOSE", "modeldisc.fvm2dcart [%s, %s]" % (recon, bname), str(e))
                    continue
                A = D.eng.alg
                stages = effective_gradient_relations(A, stages)
                for st_name in ("calc_grad", "calc_bc_grad", "interp_face", "calc_res") + (("calc_bc",) if bct is PER else ()):
                    rels = stages[st_name]
                    where = rels[0].where if rels else st_name
                    missing = []
                    for r in rels:
                        t = transpose_relation(D, r)
                        if not any(same_relation(A, t, o) for o in rels):
                            missing.append(r)
                    construct = "%s [%s, %s, %s]" % (where if st_name != "interp_face" else ci.qualname + ".interp_face", recon, bname, "vector" if shapes == (2,) else "scalar")
                    if missing:
                        r = missing[0]
                        check.violation("STN-TRANSPOSE", construct, "relation %s|%s on %s := %s (line %d) has no transposed twin: the x and y code paths differ (exchange i<->j, nx<->ny, dx<->dy, i-faces<->j-faces)" % (r.array, r.fam, dom_key(A, r), A.show(r.expr, 160), r.lineno), "", key="transpose-" + st_name)
                    else:
                        check.ok("STN-TRANSPOSE", construct, "the %d decoded relations are closed under the transposition (i,j,nx,ny,dx,dy,i-face) <-> (j,i,ny,nx,dy,dx,j-face)" % len(rels))
    # periodic along one direction only: the relations of (x periodic, y walls) are the transposes of
    # those of (y periodic, x walls), stage by stage and in both directions
    for recon in ("extrapol2d1", "extrapol2dk"):
        for shapes in ((1,), (2,)):
            try:
                Dx, sx, _, _, ci = collect(proj, shapes, XPER, recon)
                Dy, sy, _, _, _ = collect(proj, shapes, YPER, recon)
            except AnalysisError as e:
                check.undecided("STN-TRANSPOSE", "modeldisc.fvm2dcart [%s, mixed periodicity]" % recon, str(e))
                continue
            sx, sy = effective_gradient_relations(Dx.eng.alg, sx), effective_gradient_relations(Dy.eng.alg, sy)
            for st_name in ("calc_grad", "calc_bc_grad", "interp_face", "calc_res"):
                for (Da, ra, Db, rb, nm) in ((Dx, sx[st_name], Dy, sy[st_name], "x-periodic -> y-periodic"), (Dy, sy[st_name], Dx, sx[st_name], "y-periodic -> x-periodic")):
                    missing = []
                    for r in ra:
                        t = transpose_relation(Da, r)
                        # the two runs have their own algebras: compare through the printed normal form of the same atoms
                        if not any((t.array, t.fam, t.kind) == (o.array, o.fam, o.kind) and dom_key(Da.eng.alg, t) == dom_key(Db.eng.alg, o)
                                   and canon(Da.eng.alg, t.expr) == canon(Db.eng.alg, o.expr) for o in rb):
                            missing.append(r)
                    construct = "modeldisc.fvm2dcart.%s [%s, %s, %s]" % (st_name, recon, nm, "vector" if shapes == (2,) else "scalar")
                    if missing:
                        r = missing[0]
                        check.violation("STN-TRANSPOSE", construct, "relation %s|%s on %s := %s (line %d) of the %s configuration has no transposed twin in the other one: with periodicity along one direction only the x and y code paths differ" % (r.array, r.fam, dom_key(Da.eng.alg, r), Da.eng.alg.show(r.expr, 160), r.lineno, nm.split(" -> ")[0]), "", key="transpose-mixed-" + st_name)
                    else:
                        check.ok("STN-TRANSPOSE", construct, "the %d relations have their transposed twins in the transposed configuration" % len(ra))
    # time step: symmetric characteristic length
    from ..algebra import Algebra
    f = proj.func("modeldisc.fvm2dcart.calc_timestep")
    # (decided in C18 DT-CELLSIZE: dx*dy/(dx+dy) is symmetric)


def dir_table(check):
    proj = check.proj
    D, stages, calls, got, ci = collect(proj, (1,), PER)
    A = D.eng.alg
    f = proj.func("modeldisc.fvm2dcart.calc_flux")
    args = got.get("args")
    if not args:
        check.violation("DIR-TABLE", f.qualname, "model.numflux is not called", f.loc(), key="nocall")
        return
    tag, pL, pR, d = args
    nx, ny = D.eng.nx, D.eng.ny
    nif, njf = ny * (nx + 1), nx * (ny + 1)
    ok = hasattr(d, "stores") and len(d.stores) == 2
    why = "normal array is not built by two component stores"
    if ok:
        want = {0: (A.const(0), nif), 1: (nif, nif + njf)}
        for comp, lo, hi, v in d.stores:
            wlo, whi = want.get(comp, (None, None))
            if wlo is None or not (A.equal(lo, wlo) and A.equal(hi, whi) and A.equal(v, A.const(1))):
                ok = False
                why = "component %d is set to %s on faces [%s, %s); the layout has i-faces [0, ny(nx+1)) with normal (1,0) and j-faces [ny(nx+1), end) with normal (0,1)" % (comp, A.show(v), A.show(lo), A.show(hi))
        ok = ok and A.equal(D.eng.it.lift(d.n), nif + njf)
    check.record("DIR-TABLE", f.qualname, ok, "normal (1,0) on exactly the i-faces and (0,1) on exactly the j-faces of the layout; numflux(tag, pL, pR, dir)" if ok else why, f.loc(), key="dir")
    ok2 = tag == "FLUXTAG" and pL is D.so.attrs["pL"] and pR is D.so.attrs["pR"]
    check.record("DIR-TABLE", f.qualname, ok2, "numflux receives the tag and the (L, R) face arrays in this order", f.loc(), key="order")


def bc_sites(check):
    proj = check.proj
    D, stages, calls, got, ci = collect(proj, (1, 2), OPEN)
    A = D.eng.alg
    f = proj.func("modeldisc.fvm2dcart.calc_bc")
    want = {"left": ((-1, 0), "faR", "if", "0"), "right": ((1, 0), "faL", "if", "nx"),
            "bottom": ((0, -1), "faR", "jf", "0"), "top": ((0, 1), "faL", "jf", "ny")}
    by_tag = {c[3]["tag"]: c for c in calls}
    for tag, (nrm, src, fam, line) in want.items():
        c = by_tag.get(tag)
        if c is None:
            check.violation("BC-2D-SITE", f.qualname + "[%s]" % tag, "no boundary-condition call for tag %s" % tag, f.loc(), key="nocall-" + tag)
            continue
        name, dirv, data, param = c
        okn = isinstance(dirv, Vec) and A.equal(D.eng.it.lift(dirv.x), A.const(nrm[0])) and A.equal(D.eng.it.lift(dirv.y), A.const(nrm[1]))
        okt = name == OPEN[tag]
        okd = True
        for i, v in enumerate(data):
            if not isinstance(v, V2):
                okd = False
                continue
            names = [A.atoms[a].name for a in A.atoms_of(v.expr)]
            if len(names) != 1 or not names[0].startswith("%s_%d|%s|" % (src, i, fam)) or ("=" + line) not in names[0]:
                okd = False
        dst = "faL" if src == "faR" else "faR"
        stored = [r for r in stages["calc_bc"] if r.array.startswith(dst + "_") and r.fam == fam and (r.dom["i"] == line or r.dom["j"] == line)]
        oks = len(stored) == len(data) and all(A.equal(r.expr, A.sym("B%s%d" % (tag, int(r.array.rsplit("_", 1)[1])))) for r in stored)
        good = okn and okt and okd and oks
        check.record("BC-2D-SITE", f.qualname + "[%s]" % tag, good,
                     "namedBC(type, outward normal %s, interior %s state on %s line %s, bc dict); result stored as the %s state there" % (nrm, src[-1], fam, line, dst[-1]) if good else
                     "tag %s: normal-ok=%s (%s) type-ok=%s interior-side-ok=%s stores-exterior-ok=%s" % (tag, okn, (A.show(D.eng.it.lift(dirv.x)), A.show(D.eng.it.lift(dirv.y))) if isinstance(dirv, Vec) else dirv, okt, okd, oks),
                     f.loc(), key="site-" + tag)
    # an integer-typed normal is harmful exactly where a boundary function derives a real-valued
    # array from it with the normal's dtype (np.full_like(dir, ...), np.zeros_like(dir), dir.copy())
    inherit = []
    for ci in proj.all_classes():
        reg = ci.registries.get("_bcdict")
        if not reg or not ci.name.endswith("2d"):
            continue
        for key, bf in reg["entries"].items():
            if len(bf.params) < 2:
                continue
            dn = bf.params[1]
            for n in ast.walk(bf.node):
                if isinstance(n, ast.Call) and isinstance(n.func, ast.Attribute):
                    like = n.func.attr in ("full_like", "zeros_like", "empty_like", "ones_like") and n.args and isinstance(n.args[0], ast.Name) and n.args[0].id == dn and not any(k.arg == "dtype" for k in n.keywords)
                    cp = n.func.attr == "copy" and isinstance(n.func.value, ast.Name) and n.func.value.id == dn
                    if like or cp:
                        inherit.append("%s:%d" % (bf.qualname, n.lineno))

    def _integer(name):
        if not inherit:
            return False
        n = str(name).split(".")[-1].lower()
        return "int" in n or n in ("bool", "bool_", "byte", "short", "long")
    ev = [e for e in D.eng.events if e[0] == "normal-dtype" and _integer(e[1])]
    g = proj.func("mesh2d.mesh2d.normal_of_bc")
    cast = [e for e in D.eng.it.ev.astype if e[3] == "vector" and _integer(e[2]) and e[0].endswith("calc_bc")]
    if cast:
        check.violation("BC-2D-SITE", cast[0][0], "the boundary normal is converted to an integer type (%s, line %d) before it reaches the boundary functions: conditions that build their direction with np.full_like(dir, [[cos],[sin]]) (insup with an imposed angle) inherit it and truncate the direction cosines" % (cast[0][2], cast[0][1]) + " [%s]" % ", ".join(inherit[:3]), f.loc(), key="normal-dtype")
    if ev:
        check.violation("BC-2D-SITE", g.qualname, "boundary normals are allocated with an explicit dtype (%s): conditions that build their direction with np.full_like(dir, [[cos],[sin]]) (insup with an imposed angle) inherit it and truncate the direction cosines" % ev[0][1], g.loc(), key="normal-dtype")
    else:
        check.ok("BC-2D-SITE", g.qualname, "boundary normals are default (float) arrays: np.full_like(dir, ...) in the boundary conditions keeps real direction cosines", g.loc(), nontrivial=False)


def rank_covariant(check):
    proj = check.proj
    key = "euler2d"
    cls = proj.cls(MODELS[key]["cls"])
    n = 0
    allow = {"velocity_x": "component accessor by definition", "velocity_y": "component accessor by definition"}

    def run(construct, f, thunk, name=None):
        nonlocal n
        n += 1
        ctx = Ctx(proj, key)
        try:
            thunk(ctx)
        except AnalysisError as e:
            check.undecided("RANK-COVARIANT", construct, str(e), f.loc())
            return
        ev = ctx.interp.ev.noncovariant
        if ev and name not in allow:
            ln, what = ev[0]
            check.violation("RANK-COVARIANT", construct, "non-covariant vector operation (%s at line %d): the kernel does not commute with reflections and the x<->y exchange" % (what, ln), f.loc(), key="noncov")
        else:
            check.ok("RANK-COVARIANT", construct, "built from covariant vector operations only (dot, scalar*vector, |V|^2, vector +- vector)%s" % (" [%s]" % allow[name] if name in allow else ""), f.loc())
    for f, names in flux_kernels(proj, key):
        run(f.qualname, f, lambda ctx: call_flux(ctx, f, ctx.prim("L"), ctx.prim("R"), ctx.dir2d()))
    reg = proj.instance_registry(cls, "_bcdict")
    seen = set()
    for name, f in sorted(reg.items()):
        if f.qualname in seen or name == "dirichlet":
            continue
        seen.add(f.qualname)
        run(f.qualname, f, lambda ctx: ctx.call(f, ctx.dir2d(), ctx.prim(""), ParamDict({}, make=lambda k: ctx.alg.sym("param_" + k, positive=True))))
    vreg = proj.instance_registry(cls, "_vardict")
    for name, f in sorted(vreg.items()):
        def th(ctx, f=f):
            q = ctx.prim2cons(ctx.prim(""))
            ctx.interp.ev.noncovariant.clear()
            ctx.call(f, q)
        run("%s[%s]" % (cls.qualname, name), f, th, name)
    for meth in ("prim2cons", "cons2prim", "timestep"):
        f = proj.resolve(cls, meth)

        def th(ctx, f=f, meth=meth):
            W = ctx.prim("")
            if meth == "prim2cons":
                ctx.call(f, W)
            elif meth == "cons2prim":
                q = ctx.prim2cons(W)
                ctx.interp.ev.noncovariant.clear()
                ctx.call(f, q)
            else:
                q = ctx.prim2cons(W)
                ctx.interp.ev.noncovariant.clear()
                ctx.call(f, q, ctx.alg.sym("dx", positive=True), ctx.alg.sym("cfl", positive=True))
        run("%s [euler2d]" % f.qualname, f, th)
    check.floor("2D kernels", n, 2 + 5 + 15 + 3)


def flux_1d_agree(check):
    """2D fluxes with a grid-aligned normal and no transverse velocity == the 1D fluxes"""
    proj = check.proj
    k1 = {tuple(sorted(names)): f for f, names in flux_kernels(proj, "euler1d")}
    for f2, names in flux_kernels(proj, "euler2d"):
        f1 = None
        for nm1, g in k1.items():
            if set(nm1) & set(names):
                f1 = g
        if f1 is None:
            check.undecided("FLUX-1D-AGREE", f2.qualname, "no 1D sibling registered under %s" % names, f2.loc())
            continue
        for axis in ("x", "y"):
            ctx = Ctx(proj, "euler2d")
            A = ctx.alg
            A.start_clock()
            c1 = Ctx(proj, "euler1d")
            # 1D evaluation in the same algebra: rebuild a 1D context on ctx's algebra
            rhoL, uL, pL = A.sym("rhoL", positive=True), A.sym("uL"), A.sym("pL", positive=True)
            rhoR, uR, pR = A.sym("rhoR", positive=True), A.sym("uR"), A.sym("pR", positive=True)
            z = A.const(0)
            if axis == "x":
                L2, R2, n = [rhoL, Vec(uL, z), pL], [rhoR, Vec(uR, z), pR], Vec(A.const(1), z)
            else:
                L2, R2, n = [rhoL, Vec(z, uL), pL], [rhoR, Vec(z, uR), pR], Vec(z, A.const(1))
            F2 = call_flux(ctx, f2, L2, R2, n)
            from ..interp import SelfObj
            so1 = SelfObj(proj.cls(MODELS["euler1d"]["cls"]), dict(ctx.selfobj.attrs))
            F1 = ctx.interp.call_function(f1, [so1, [rhoL, uL, pL], [rhoR, uR, pR], None])
            mass2, mom2, en2 = F2[0], F2[1], F2[2]
            normal, trans = (mom2.x, mom2.y) if axis == "x" else (mom2.y, mom2.x)
            for a, b, what in ((mass2, F1[0], "mass"), (normal, F1[1], "normal momentum"), (en2, F1[2], "energy"), (trans, z, "transverse momentum (must vanish)")):
                _decide(check, "FLUX-1D-AGREE", f2.qualname, f2.loc(), A, a, b, "%s flux through a face with normal along %s and no transverse velocity == the 1D %s flux" % (what, axis, f1.name), key="agree-%s-%s" % (axis, what.split()[0]))


def bc_1d_agree(check):
    """2D boundary functions with a grid-aligned normal and no transverse velocity == their 1D
    siblings (same registered name), for ALL interior states and parameters -- the clamps
    max(0, .) are kept as selections, so the blocked-inlet regime (interior pressure above the
    imposed total pressure) is compared too"""
    from ..interp import SelfObj, ParamDict
    proj = check.proj
    c1 = proj.cls(MODELS["euler1d"]["cls"])
    c2 = proj.cls(MODELS["euler2d"]["cls"])
    r1 = proj.instance_registry(c1, "_bcdict")
    r2 = proj.instance_registry(c2, "_bcdict")
    names = sorted(n for n in r2 if n in r1 and n != "dirichlet")
    check.floor("boundary conditions registered for both 1D and 2D Euler", len(names), 5)
    for nm in names:
        f1, f2 = r1[nm], r2[nm]
        for axis in ("x", "y"):
            for sgn in (+1, -1):
                ctx = Ctx(proj, "euler2d")
                A = ctx.alg
                A.start_clock()
                rho, u, p = A.sym("rho", positive=True), A.sym("u"), A.sym("p", positive=True)
                prm = lambda: ParamDict({"ptot": A.sym("ptot", positive=True), "rttot": A.sym("rttot", positive=True), "p": A.sym("p_imposed", positive=True)})
                z, d = A.const(0), A.const(sgn)
                n2, W2 = (Vec(d, z), [rho, Vec(u, z), p]) if axis == "x" else (Vec(z, d), [rho, Vec(z, u), p])
                try:
                    o2 = ctx.call(f2, n2, W2, prm())
                    so1 = SelfObj(c1, dict(ctx.selfobj.attrs))
                    o1 = ctx.interp.call_function(f1, [so1, d, [rho, u, p], prm()])
                except AnalysisError as e:
                    check.undecided("BC-1D-AGREE", f2.qualname, "%s: %s" % (nm, e), f2.loc())
                    continue
                v2 = o2[1]
                if not isinstance(v2, Vec):
                    check.violation("BC-1D-AGREE", f2.qualname, "2D '%s' does not return a velocity vector" % nm, f2.loc(), key="rank")
                    continue
                normal, trans = (v2.x, v2.y) if axis == "x" else (v2.y, v2.x)
                side = "%s%s" % ("+" if sgn > 0 else "-", axis)
                for a, b, what in ((o2[0], o1[0], "density"), (normal, o1[1], "normal velocity"), (o2[2], o1[2], "pressure"), (trans, z, "transverse velocity (must vanish)")):
                    _decide(check, "BC-1D-AGREE", f2.qualname, f2.loc(), A, ctx.interp.lift(a), ctx.interp.lift(b),
                            "'%s' on a boundary of outward normal %s, no transverse velocity: 2D %s == 1D %s for every interior state and parameter set (clamped regimes included)" % (nm, side, what, f1.name), key="bc1d-%s-%s-%s" % (nm, side, what.split()[0]))


def compose_x(D, stages):
    """x-direction face states with the gradient relations substituted: L|if[i,j], R|if[i,j] as
    functions of cell values (interior relations)"""
    A = D.eng.alg
    grad = [r for r in stages["calc_grad"] if r.fam == "if" and r.kind == "row"]
    if len(grad) != 1:
        raise AnalysisError("x-gradient relation not unique")
    g = grad[0]

    def subst_grad(expr):
        mp = {}
        for aid in A.atoms_of(expr):
            m = ATOM.match(A.atoms[aid].name)
            if m and m.group("name").startswith("xg_") and m.group("fam") == "if":
                di, dj = int(m.group("i")), int(m.group("j"))
                # shift the gradient relation by (di, dj)
                sh = {}
                for a2 in A.atoms_of(g.expr):
                    m2 = ATOM.match(A.atoms[a2].name)
                    if m2:
                        sh[a2] = A.sym("%s|%s|%+d|%+d" % (m2.group("name"), m2.group("fam"), int(m2.group("i")) + di, int(m2.group("j")) + dj))
                mp[aid] = A.subst(g.expr, sh)
        return A.subst(expr, mp) if mp else expr
    out = {}
    for r in stages["interp_face"]:
        if r.fam == "if" and r.kind == "row":
            out[r.array.rsplit("_", 1)[0]] = subst_grad(r.expr)
    return out


def row_1d_agree(check):
    """the x-direction relations of the 2D scheme == the 1D relations on a uniform mesh"""
    proj = check.proj
    from .c11 import decoded, uniform_mesh
    for recon2, recon1 in (("extrapol2d1", "extrapol1"), ("extrapol2dk", "extrapolk")):
        try:
            D, stages, calls, got, ci = collect(proj, (1,), PER, recon2)
            cx = compose_x(D, stages)
            D1, ci1, num1, L1, R1 = decoded(proj, recon1)
        except AnalysisError as e:
            check.undecided("ROW-1D-AGREE", "xnum." + recon2, str(e))
            continue
        A1 = D1.alg
        dx = A1.sym("dx", positive=True)
        x0, nn = A1.sym("x0"), A1.sym("Nn", positive=True)
        A2_ = D.eng.alg
        f = proj.resolve(ci, "interp_face")
        for side, arr1, key2 in (("L", L1, "faL"), ("R", R1, "faR")):
            l, h, v = D1.stn.interior(arr1) if recon1 != "extrapol1" else max(arr1.segs, key=lambda s: (s[1] - s[0]).a)
            v1 = uniform_mesh(D1, v, dx, x0, nn, True)
            # transfer the 2D composed relation into the 1D algebra: d_0|cell|di|+0 -> d@di
            e2 = cx.get(key2)
            if e2 is None:
                check.undecided("ROW-1D-AGREE", ci.qualname, "%s x-relation not found" % side, f.loc())
                continue
            txt = {}
            ok = True
            val = A1.const(0)
            for mono, c in e2.num.items():
                term = A1.const(c)
                for aid, ex in mono:
                    nm = A2_.atoms[aid].name
                    m = ATOM.match(nm)
                    if m and m.group("name").startswith("d0") and m.group("j") == "+0":
                        term = term * A1.pow(D1.stn.rel("d", int(m.group("i"))), ex)
                    elif nm == "kappa":
                        term = term * A1.pow(A1.sym("kappa"), ex)
                    else:
                        ok = False
                val = val + term
            if e2.den or not ok:
                check.undecided("ROW-1D-AGREE", ci.qualname, "%s x-relation is not a linear form in cell values" % side, f.loc())
                continue
            _decide(check, "ROW-1D-AGREE", ci.qualname, f.loc(), A1, val, v1,
                    "%s state on i-faces (gradients substituted) == the 1D %s %s state on a uniform mesh: the 2D operator reproduces the 1D one row by row" % (side, recon1, side), key="row-" + side)


def closure_1d_agree(check):
    """non-periodic boundaries: the 2D closure of the face differences on the boundary lines == the 1D closure of the
    face gradients at the two end faces (the first / last cell of every row is reconstructed as in 1D)"""
    proj = check.proj
    from .c11 import decoded
    from ..stencil import NLin
    f2 = proj.func("modeldisc.fvm2dcart.calc_bc_grad")
    f1 = proj.func("modeldisc.fvm1d.calc_bc_grad")
    D1, ci1, num1, L1, R1 = decoded(proj, "extrapolk", periodic=False)
    g1 = D1.so.attrs["grad"][0]
    ends = [(l, h, v) for l, h, v in g1.segs if (h - l).is_const() and (l.is_const() and l.b == 0 or not h.is_const() and (g1.length - h).is_const() and (g1.length - h).b == 0)]
    if len(ends) != 2:
        raise AnalysisError("the 1D face gradient does not have one closure segment per end (%d found)" % len(ends))
    zero1 = all(v.is_zero() for l, h, v in ends)
    for recon in ("extrapol2dk",):
        D, stages, calls, got, ci = collect(proj, (1,), OPEN, recon)
        A = D.eng.alg
        rels = stages.get("calc_bc_grad", [])
        lines = set()
        for r in rels:
            axis = "i" if r.kind == "col" else "j"
            lines.add((r.fam, r.dom[axis]))
            where = "%s [%s-differences, line %s=%s, non-periodic]" % (f2.qualname, "x" if r.fam == "if" else "y", axis, r.dom[axis])
            if not zero1:
                check.undecided("ROW-1D-AGREE", where, "the 1D closure %s.calc_bc_grad is not the zero gradient: the comparison with the 2D closure is outside what this rule decides" % f1.qualname, f2.loc())
                continue
            ok = r.expr.is_zero()
            check.record("ROW-1D-AGREE", where, ok, "closure of the face difference is 0, as the 1D closure grad[0] = grad[-1] = 0 of %s" % f1.qualname if ok else
                         "closure of the face difference is %s, but the 1D closure of %s sets the end-face gradients to 0: the first / last cell of a row is reconstructed with another slope than the same cell of the 1D scheme, rows of the 2D operator differ from the 1D operator next to walls / inlets / outlets" % (A.show(r.expr, 100), f1.qualname),
                         f2.loc(), key="closure-%s-%s" % (r.fam, r.dom[axis]))
        if zero1:
            # an unwritten boundary face keeps the zero of the allocation: also the 1D closure
            check.ok("ROW-1D-AGREE", "%s [non-periodic closure lines]" % f2.qualname, "%d closure relations on boundary lines %s compared with the 1D closure" % (len(rels), sorted(lines)), f2.loc())


def seam_2d(check):
    """periodic closures of the 2D gradients == interior template wrapped modulo nx / ny"""
    proj = check.proj
    for bct, bname, axes in ((PER, "periodic", ("i", "j")), (XPER, "x-periodic, y walls", ("i",)), (YPER, "y-periodic, x walls", ("j",))):
        _seam_2d(check, proj, bct, bname, axes)


def _seam_2d(check, proj, bct, bname, axes):
    D, stages, calls, got, ci = collect(proj, (1,), bct)
    A = D.eng.alg
    f = proj.func("modeldisc.fvm2dcart.calc_bc_grad")
    tmpl = {r.fam: r for r in stages["calc_grad"] if r.kind == "row"}
    # presence: each periodic direction has its two seam lines closed
    have = set()
    for r in stages["calc_bc_grad"]:
        axis = "i" if r.kind == "col" else "j"
        have.add((axis, r.dom[axis]))
    for axis in axes:
        n = "nx" if axis == "i" else "ny"
        for line in ("0", n):
            if (axis, line) not in have:
                check.violation("SEAM-2D", "%s [%s]" % (f.qualname, bname), "no periodic closure of the %s-differences on the seam line %s=%s in the configuration '%s': they stay zero there and the states next to the seam lose their kappa terms" % ("x" if axis == "i" else "y", axis, line, bname), f.loc(), key="seam-missing-%s-%s" % (axis, line))
    for r in stages["calc_bc_grad"]:
        t = tmpl.get(r.fam)
        if t is None:
            check.undecided("SEAM-2D", f.qualname, "no interior template for family %s" % r.fam, f.loc())
            continue
        axis = "i" if r.kind == "col" else "j"
        if axis not in axes:
            continue            # boundary lines of the non-periodic direction: one-sided closure, not a seam
        line = r.dom[axis]
        n = "nx" if axis == "i" else "ny"
        base = {"0": 0, n: None}.get(line, "?")
        if base == "?":
            check.violation("SEAM-2D", f.qualname, "closure written on line %s=%s, the seam faces are %s=0 and %s=%s" % (axis, line, axis, axis, n), f.loc(), key="seam-line")
            continue
        # template atoms name|fam|di|dj at the seam line: absolute coordinate (line+d) wrapped
        mp = {}
        for aid in A.atoms_of(t.expr):
            m = ATOM.match(A.atoms[aid].name)
            if not m:
                continue
            d = int(m.group(axis))
            if line == "0":
                absx = "=0" if d == 0 else ("=%s-%d" % (n, -d) if d < 0 else "=%d" % d)
            else:
                absx = ("=0" if d == 0 else "=%d" % d) if d >= 0 else "=%s-%d" % (n, -d)      # index n+d wraps to d ; n-1 stays
            i_c = absx if axis == "i" else m.group("i")
            j_c = absx if axis == "j" else m.group("j")
            mp[aid] = A.sym("%s|%s|%s|%s" % (m.group("name"), m.group("fam"), i_c, j_c))
        want = A.subst(t.expr, mp)
        ok = A.equal(r.expr, want)
        check.record("SEAM-2D", "%s [%s-faces, %s=%s, %s]" % (f.qualname, r.fam[0], axis, line, bname), ok,
                     "closure == interior difference with the neighbour index wrapped modulo %s" % n if ok else
                     "closure is %s, the wrapped interior template is %s" % (A.show(r.expr, 100), A.show(want, 100)), f.loc(), key="seam-%s-%s" % (r.fam, line))


def const_2d(check):
    """constant data: zero 2D gradients, face states equal the cell value"""
    proj = check.proj
    for recon in ("extrapol2d1", "extrapol2dk"):
        for bct, bname in ((PER, "periodic"), (OPEN, "non-periodic"), (XPER, "x-periodic, y walls"), (YPER, "y-periodic, x walls")):
            D, stages, calls, got, ci = collect(proj, (1,), bct, recon)
            A = D.eng.alg
            alpha = A.sym("alpha")

            def const(expr):
                mp = {}
                for aid in A.atoms_of(expr):
                    m = ATOM.match(A.atoms[aid].name)
                    if m and m.group("name").startswith("d"):
                        mp[aid] = alpha
                return A.subst(expr, mp) if mp else expr

            def zg(expr):
                mp = {}
                for aid in A.atoms_of(expr):
                    m = ATOM.match(A.atoms[aid].name)
                    if m and (m.group("name").startswith("xg_") or m.group("name").startswith("yg_")):
                        mp[aid] = A.const(0)
                return A.subst(expr, mp) if mp else expr
            # a closure may copy entries of the difference arrays themselves (linear extrapolation from the nearest interior
            # face): by induction over the stores in statement order every entry read is the zero of the allocation or was
            # written by an earlier relation, so the first relation that does not vanish with those entries at 0 really does not
            gz = all(const(zg(r.expr)).is_zero() for r in stages["calc_grad"] + stages["calc_bc_grad"])
            f = proj.resolve(ci, "interp_face")
            check.record("GRAD-CONST", "modeldisc.fvm2dcart gradients [%s]" % bname, gz, "all x / y face differences (closures included) vanish for constant data", proj.func("modeldisc.fvm2dcart.calc_grad").loc(), key="grad2d")
            okr = gz and all(A.equal(const(zg(r.expr)), alpha) for r in stages["interp_face"])
            check.record("RECON-CONST", "%s [%s]" % (ci.qualname, bname), okr, "2D left / right face states return the cell value for constant data (%d relations)" % len(stages["interp_face"]), f.loc(), key="recon2d")


def kappa_2d(check):
    """2D k-extrapolation weights (1-/+k)/4 on differences and adjacency of extrapol2d1"""
    proj = check.proj
    D, stages, calls, got, ci = collect(proj, (1,), PER, "extrapol2dk")
    A = D.eng.alg
    f = proj.resolve(ci, "interp_face")
    k = A.sym("kappa")
    km, kp = (1 - k) / 4, (1 + k) / 4
    c = lambda di, dj: A.sym("d0|cell|%+d|%+d" % (di, dj))
    xg = lambda di, dj: A.sym("xg_0|if|%+d|%+d" % (di, dj))
    yg = lambda di, dj: A.sym("yg_0|jf|%+d|%+d" % (di, dj))
    want = {("faL_0", "if"): (c(-1, 0) + km * xg(-1, 0) + kp * xg(0, 0), (("1", "1 + nx"), ("0", "ny"))),
            ("faR_0", "if"): (c(0, 0) - km * xg(1, 0) - kp * xg(0, 0), (("0", "nx"), ("0", "ny"))),
            ("faL_0", "jf"): (c(0, -1) + km * yg(0, -1) + kp * yg(0, 0), (("0", "nx"), ("1", "1 + ny"))),
            ("faR_0", "jf"): (c(0, 0) - km * yg(0, 1) - kp * yg(0, 0), (("0", "nx"), ("0", "ny")))}
    for r in stages["interp_face"]:
        w = want.get((r.array, r.fam))
        if w is None:
            check.violation("KAPPA-2D", ci.qualname, "unexpected relation %s|%s" % (r.array, r.fam), f.loc(), key="extra")
            continue
        ok = A.equal(r.expr, w[0]) and dom_key(A, r) == w[1]
        check.record("KAPPA-2D", "%s [%s %s-faces]" % (ci.qualname, r.array[2], r.fam[0]), ok,
                     "state = cell value +- (1-k)/4 * far difference +- (1+k)/4 * near difference along %s, on the right face range" % ("x" if r.fam == "if" else "y") if ok else
                     "relation is %s on %s, expected %s on %s" % (A.show(r.expr, 120), dom_key(A, r), A.show(w[0], 120), w[1]), f.loc(), key="k2d-%s-%s" % (r.array, r.fam))
    # the differences the extrapolation uses are defined on every interior face of every row / column
    g = proj.func("modeldisc.fvm2dcart.calc_grad")
    for shapes, sname in (((1,), "scalar"), ((2,), "vector")):
        D2, st2, _, _, _ = collect(proj, shapes, PER, "extrapol2dk")
        A2 = D2.eng.alg
        rels = st2.get("calc_grad", [])
        wantdom = {"if": (("1", "nx"), ("0", "ny")), "jf": (("0", "nx"), ("1", "ny"))}
        fams = sorted({r.fam for r in rels})
        bad = [r for r in rels if r.fam in wantdom and dom_key(A2, r) != wantdom[r.fam]]
        if bad:
            r = bad[0]
            check.violation("GRAD-2D", "%s [%s]" % (g.qualname, sname), "face difference %s|%s is defined on %s, expected every interior face %s: rows / columns outside keep zero differences and lose the kappa terms there" % (r.array, r.fam, dom_key(A2, r), wantdom[r.fam]), g.loc(), key="grad-dom-" + sname)
        elif fams != ["if", "jf"]:
            check.violation("GRAD-2D", "%s [%s]" % (g.qualname, sname), "face differences are defined for the families %s only" % fams, g.loc(), key="grad-fam-" + sname)
        else:
            check.ok("GRAD-2D", "%s [%s]" % (g.qualname, sname), "x-differences on all interior i-faces of every row, y-differences on all interior j-faces of every column (%d relations)" % len(rels), g.loc())
    D, stages, calls, got, ci = collect(proj, (1,), PER, "extrapol2d1")
    A = D.eng.alg
    f = proj.resolve(ci, "interp_face")
    c = lambda di, dj: A.sym("d0|cell|%+d|%+d" % (di, dj))
    want = {("faL_0", "if"): c(-1, 0), ("faR_0", "if"): c(0, 0), ("faL_0", "jf"): c(0, -1), ("faR_0", "jf"): c(0, 0)}
    ok = len(stages["interp_face"]) == 4 and all(A.equal(r.expr, want.get((r.array, r.fam), A.const(0))) for r in stages["interp_face"])
    check.record("E1-ADJ", ci.qualname, ok, "2D first-order states are the adjacent cell values (left/below for L, right/above for R)", f.loc(), key="adj2d")


def layout_agree(check):
    """every slice of the 2D code decodes against the layout of the array it touches"""
    proj = check.proj
    n = 0
    for recon in ("extrapol2d1", "extrapol2dk"):
        for bct, bname in ((PER, "periodic"), (OPEN, "non-periodic")):
            for shapes in ((1,), (2,)):
                try:
                    D, stages, calls, got, ci = collect(proj, shapes, bct, recon)
                    n += sum(len(v) for v in stages.values())
                except LayoutMismatch as e:
                    check.violation("LAYOUT-AGREE", "fvm2dcart / xnum.%s [%s, %s]" % (recon, bname, "vector" if shapes == (2,) else "scalar"), str(e), key="layout")
                    return False
    check.ok("LAYOUT-AGREE", "modeldisc.fvm2dcart, xnum.extrapol2d*", "all %d decoded stores and their operands agree with the layout of the arrays they touch (cells j*nx+i, i-faces j*(nx+1)+i, j-faces ny*(nx+1)+j*nx+i)" % n)
    return True


def body(check):
    proj = check.proj
    if not layout_agree(check):
        return
    _body(check)


def _body(check):
    proj = check.proj
    check.explanation = ("static analysis: the 2D slice code (fvm2dcart, extrapol2d1/2dk, mesh2d tables) is decoded by polynomial "
                         "identities in (j, nx, ny) into relations between layout entities at constant offsets; the relation sets "
                         "are closed under the transposition x<->y; x-direction relations equal the 1D ones on a uniform mesh; 2D "
                         "fluxes with a grid-aligned normal and no transverse velocity equal the 1D fluxes (GVN); every 2D kernel "
                         "is built from covariant vector operations (rank typing); normals per face family, boundary call sites and "
                         "orientation decoded from mesh2d + calc_bc")
    check.assume("exact arithmetic (agreement to round-off not decided); nx, ny >= 2")
    check.guarded("RANK-COVARIANT", "euler2d", lambda: rank_covariant(check))
    # "data that vary only along x (or y)": fields are sampled at the cell centres -- nx*ny of them, row by row (same
    # obligation as C20 MESH2D-CENTRE)
    from . import c20
    n0 = len(check.obs)
    check.guarded("MESH2D-CENTRE", "mesh2d", lambda: c20.mesh_2d(check, proj))
    check.obs[n0:] = [o for o in check.obs[n0:] if o.rule == "MESH2D-CENTRE" or (o.status != "ok" and "float-arange" in (o.key or ""))]
    check.guarded("STN-TRANSPOSE", "modeldisc.fvm2dcart", lambda: transpose(check))
    check.guarded("TELESCOPE-2D", "modeldisc.fvm2dcart.calc_res", lambda: telescope_2d(check))
    check.guarded("DIR-TABLE", "modeldisc.fvm2dcart.calc_flux", lambda: dir_table(check))
    check.guarded("BC-2D-SITE", "modeldisc.fvm2dcart.calc_bc", lambda: bc_sites(check))
    check.guarded("ROW-1D-AGREE", "xnum", lambda: row_1d_agree(check))
    check.guarded("ROW-1D-AGREE", "modeldisc.fvm2dcart.calc_bc_grad", lambda: closure_1d_agree(check))
    check.guarded("FLUX-1D-AGREE", "euler2d", lambda: flux_1d_agree(check))
    check.guarded("BC-1D-AGREE", "euler2d", lambda: bc_1d_agree(check))
    check.guarded("KAPPA-2D", "xnum.extrapol2dk", lambda: kappa_2d(check))
    check.guarded("SEAM-2D", "modeldisc.fvm2dcart.calc_bc_grad", lambda: seam_2d(check))
