"""C03 — uniform and compatible steady states are fixed points.

Each link of the chain 'constant data => zero gradients => cell values at the faces => equal
fluxes => zero residual => unchanged state' is decided: GRAD-CONST / RECON-CONST (STN),
GVN-CONSIST (C02), RESID-ZERO (STN), PERIODIC-CLOSE, BC-FIXPOINT (GVN), NOZZLE-REST (GVN),
INTEG-FIX (AFF), FD-STEP-ZERO (known finding)."""
from fractions import Fraction
from ..disc1d import Disc1D, RECON_CLASSES, phi_axioms, N
from ..interp import Vec, ParamDict
from ..models import Ctx, MODELS, flat
from ..project import AnalysisError
from ..stencil import SArr, NLin
from ..fluxes import flux_kernels
from . import c01, c02, c06, c16
from .c02 import _decide
from .c11 import decoded
from .c16 import totals


def recon_const(check, proj):
    classes = [c for c in RECON_CLASSES if proj.has_cls("xnum." + c)]
    check.floor("1D reconstruction classes", len(classes), 8)
    for cn in classes:
        for periodic in (True, False):
            try:
                D, ci, num, L, R = decoded(proj, cn, periodic=periodic)
            except AnalysisError as e:
                check.undecided("RECON-CONST", "xnum." + cn, str(e))
                continue
            f = proj.resolve(ci, "interp_face")
            A = D.alg
            alpha = A.sym("alpha")

            def const(v):
                return D.subst_names(v, lambda name, kind, idx: alpha if name == "d" else None)
            if cn != "extrapol1":
                g = D.so.attrs["grad"][0]
                okg = all(const(v).is_zero() for l, h, v in g.segs)
                gq = "modeldisc.fvm1d.calc_grad/calc_bc_grad [%s]" % ("periodic" if periodic else "non-periodic")
                check.record("GRAD-CONST", gq, okg, "every face gradient (closure included) vanishes for constant cell data" if okg else
                             "a face gradient does not vanish for constant data: %s" % [A.show(const(v), 80) for l, h, v in g.segs if not const(v).is_zero()][:1],
                             proj.func("modeldisc.fvm1d.calc_bc_grad").loc(), key="grad-const")
            bad = None
            n = 0
            for side, arr, lo, hi in (("L", L, NLin(0, 1), N + 1), ("R", R, NLin(0, 0), N)):
                for l, h, v in arr.segs:
                    if not (lo.le(l) and h.le(hi)):
                        continue
                    n += 1
                    c = const(v)
                    if not A.equal(c, alpha):
                        bad = (side, l, h, c)
            check.record("RECON-CONST", "%s [%s]" % (ci.qualname, "periodic" if periodic else "non-periodic"), bad is None,
                         "left and right states equal the cell value for constant data on all %d face ranges (limiter(0,0) = 0: C12 LIM-ZERO)" % n if bad is None else
                         "%s state on faces [%r,%r) is %s for constant data alpha" % (bad[0], bad[1], bad[2], A.show(bad[3], 120)), f.loc(), key="recon-const")


def resid_zero(check, proj):
    D = Disc1D(proj, periodic=True)
    A = D.alg
    c = A.sym("Fconst")
    D.so.attrs["flux"] = [SArr(N + 1, [(0, N + 1, c)])]
    r = D.fvm("calc_res")[0]
    f = proj.func("modeldisc.fvm1d.calc_res")
    ok = all(v.is_zero() for l, h, v in r.segs)
    check.record("RESID-ZERO", f.qualname, ok, "equal face fluxes give a zero residual in every cell, on any mesh", f.loc(), key="zero")


def periodic_const(check, proj):
    """with the same value c on every interior face side, the periodic closure must put c on the
    two open ends too (whatever pair it copies)"""
    D = Disc1D(proj, periodic=True)
    A = D.alg
    c = A.sym("Wconst")
    hole = A.sym("UNSET")
    D.so.attrs["pL"] = [SArr(N + 1, [(0, 1, hole), (1, N + 1, c)])]
    D.so.attrs["pR"] = [SArr(N + 1, [(0, N, c), (N, N + 1, hole)])]
    D.fvm("calc_bc")
    f = proj.func("modeldisc.fvm1d.calc_bc")
    ok = True
    for side in ("pL", "pR"):
        arr = D.so.attrs[side][0]
        for l, h, v in arr.segs:
            if not A.equal(A.lift(v), c):
                ok = False
                check.violation("PERIODIC-CLOSE", f.qualname, "with constant data the periodic closure leaves %s[%r:%r] = %s" % (side, l, h, A.show(A.lift(v), 60)), f.loc(), key="const-" + side)
    if ok:
        check.ok("PERIODIC-CLOSE", f.qualname, "with constant face states the periodic closure fills both open ends with the same constant", f.loc())


def integ_fix(check, proj):
    """a zero residual leaves the state unchanged: after one step (and a second one, for the
    multistep typestate) the state is Q plus terms that all vanish with the residual -- residuals
    K, solved increments X of a system whose right-hand side vanishes, stored increments L of a
    run that started at the fixed point"""
    from ..affine import run_step, NEQ
    from .c01 import integrator_classes
    for c in integrator_classes(proj):
        q = c.qualname
        stepf = proj.resolve(c, "step")
        try:
            ai, outs = run_step(proj, c, 2)
        except AnalysisError as e:
            check.failed("INTEG-FIX", q, e, stepf.loc(), "abstract interpretation failed")
            continue
        bad = None
        for o in outs:
            f = o["field"]
            for e in range(NEQ):
                form = dict(f.data[e].form)
                if form.pop(("Q0", e), None) != {0: Fraction(1)}:
                    bad = "state after the step is %s (initial state not carried with weight 1)" % f.data[e]
                foreign = [b for b in form if b[0] not in ("K", "X", "L")]
                if foreign:
                    bad = "state after the step contains %s, which does not vanish with the residual" % foreign
            for (mat, rhs) in o["solves"]:
                for e in range(NEQ):
                    foreign = [b for b in rhs[e].form if b[0] not in ("K", "L")]
                    if foreign:
                        bad = "the right-hand side of the linear system contains %s, which does not vanish with the residual" % foreign
        if bad:
            check.violation("INTEG-FIX", q, bad, stepf.loc(), key="fix")
        else:
            check.ok("INTEG-FIX", q, "a zero residual leaves the state unchanged, with or without local time steps: the update is Q + terms linear in residuals / solved or stored increments", stepf.loc())


def bc_fixpoint(check, proj):
    # ---- 1D Euler
    key = "euler1d"
    cls = proj.cls(MODELS[key]["cls"])
    reg = proj.instance_registry(cls, "_bcdict")
    cases = [("insub", "in"), ("insup", "in"), ("insub_cbc", "in"), ("outsub", "out"), ("outsub_prim", "out"), ("outsub_qtot", "out"),
             ("outsub_nrcbc", "out"), ("outsub_rh", "out"), ("outsup", "out")]
    for name, flow in cases:
        if name not in reg:
            continue
        f = reg[name]
        ctx = Ctx(proj, key)
        A = ctx.alg
        A.start_clock()
        gam = ctx.selfobj.attrs["gamma"]
        d = A.sym("dir", unit=True)
        rho, p = A.sym("rho", positive=True), A.sym("p", positive=True)
        s = A.sym("speed", positive=True)
        u = -d * s if flow == "in" else d * s       # interior flow enters (inlet) / leaves (outlet) through this boundary
        W = [rho, u, p]
        PT, RT = totals(A, gam, rho, u * u, p)
        prm = ParamDict({"ptot": PT, "rttot": RT, "p": p})
        if name == "insub_cbc":
            # with matching parameters the discriminant of the characteristic inlet is the perfect
            # square (a - dir*u)^2 = (a + speed)^2 (inflow: -dir*u = speed > 0), whose non-negative
            # root is a + speed: declared to the ring, applied only if the code's radicand equals it
            a0 = A.sqrt(gam * p / rho)
            A.root_rules.append(((a0 + s) * (a0 + s), a0 + s))
        try:
            out = ctx.call(f, d, W, prm)
        except AnalysisError as e:
            check.undecided("BC-FIXPOINT", f.qualname, str(e), f.loc())
            continue
        if False and name == "insub_cbc":
            # root selection: a1 = (dir*J + sqrt(disc))*(g-1)/(g+1) returns the interior sound speed
            # iff sqrt(disc) = |...| has the right branch; decided on squares
            allok = True
            for (lab, a), b, cn in zip(flat(out), W, ctx.spec["prim"]):
                st, info = A.decide_equal(a, b)
                if st != "proved":
                    allok = False
            if allok:
                check.ok("BC-FIXPOINT", f.qualname, "returns the interior state when ptot, rttot are those of the interior state (inflow)", f.loc())
            else:
                check.assume("insub_cbc fixed point needs the root selection sqrt(disc) = (gamma+1)/(gamma-1)*a - dir*J (a value condition): its defining equations are decided under C16, the fixed point is not")
                check.ok("BC-FIXPOINT", f.qualname, "not decided (root selection is a property of values); defining equations under C16", f.loc(), nontrivial=False)
            continue
        for (lab, a), b, cn in zip(flat(out), W, ctx.spec["prim"]):
            _decide(check, "BC-FIXPOINT", f.qualname, f.loc(), A, a, b,
                    "%s returns the interior %s when its parameters (ptot, rttot, p) are those of the interior state and the flow %s the domain, on either side" % (name, cn, "enters" if flow == "in" else "leaves"), key="fix-" + cn)
    # ---- 2D Euler
    key = "euler2d"
    cls = proj.cls(MODELS[key]["cls"])
    reg = proj.instance_registry(cls, "_bcdict")
    for name, flow in (("insub", "in"), ("insup", "in"), ("outsub", "out"), ("outsup", "out")):
        if name not in reg:
            continue
        f = reg[name]
        for with_angle in ((False, True) if name == "insup" else (False,)):
            ctx = Ctx(proj, key)
            A = ctx.alg
            A.start_clock()
            gam = ctx.selfobj.attrs["gamma"]
            cx, sy = A.sym("cn"), A.sym("sn")
            nrm = A.sqrt(cx * cx + sy * sy)
            n = Vec(cx / nrm, sy / nrm)
            rho, p = A.sym("rho", positive=True), A.sym("p", positive=True)
            s = A.sym("speed", positive=True)
            ent = {}
            if with_angle:
                C, S_ = A.sym("Cang"), A.sym("Sang")
                nr = A.sqrt(C * C + S_ * S_)
                ang = (C / nr, S_ / nr)
                ctx.interp.np_hooks = {"deg2rad": lambda a, k: a[0], "cos": lambda a, k: ang[0], "sin": lambda a, k: ang[1]}
                V = Vec(s * ang[0], s * ang[1])          # any flow angle: the state's own direction is imposed
                ent["angle"] = A.sym("angle_deg")
            elif flow == "in":
                V = Vec(-s * n.x, -s * n.y)
            else:
                # outlets: any velocity (the conditions copy it)
                V = Vec(A.sym("ux"), A.sym("uy"))
            W = [rho, V, p]
            PT, RT = totals(A, gam, rho, V.x * V.x + V.y * V.y, p)
            ent.update({"ptot": PT, "rttot": RT, "p": p})
            try:
                out = ctx.call(f, n, W, ParamDict(ent))
            except AnalysisError as e:
                check.undecided("BC-FIXPOINT", f.qualname, str(e), f.loc())
                continue
            for (lab, a), (_, b) in zip(flat(out), flat(W)):
                _decide(check, "BC-FIXPOINT", f.qualname, f.loc(), A, a, b,
                        "2D %s%s returns the interior state (component %s) when its parameters are those of the state, for any unit normal" % (name, " with imposed angle" if with_angle else "", lab), key="fix2d-%s%s" % (lab, "-angle" if with_angle else ""))


def nozzle_rest(check, proj):
    ctx = Ctx(proj, "nozzle")
    A = ctx.alg
    x = A.sym("x")
    q = [A.sym("Qr", positive=True), A.const(0), A.sym("QE", positive=True)]
    for nm in ("src_mass", "src_mom", "src_energy"):
        f = ctx.method(nm)
        v = ctx.call(f, x, q)
        ok = hasattr(v, "is_zero") and v.is_zero()
        check.record("NOZZLE-REST", f.qualname, ok, "geometric source vanishes identically at rest (zero momentum) for any section law" if ok else "source at rest is %s" % A.show(v, 100), f.loc(), key="rest")


def rest_defined(check, proj):
    """a fluid at rest is an admissible uniform state: the time step a solve computes from it must be defined
    -- no expression of timestep (and of the helpers it calls) divides by a quantity that is the LITERAL zero
    at zero velocity (0/0 = NaN: the solve returns NaN although rhs() vanishes)"""
    from ..models import Ctx
    from ..interp import Vec
    for key in ("euler1d", "euler2d", "shallowwater"):
        ctx = Ctx(proj, key)
        A = ctx.alg
        f = ctx.method("timestep")
        W = ctx.prim("")
        W0 = []
        for name, v in zip(ctx.spec["prim"], W):
            if name == "V":
                W0.append(Vec(A.const(0), A.const(0)))
            elif name in ("u", "v"):
                W0.append(A.const(0))
            else:
                W0.append(v)
        construct = "%s [%s]" % (f.qualname, key)
        try:
            q = ctx.prim2cons(W0)
            dt = ctx.call(f, q, A.sym("dx", positive=True), A.sym("cfl", positive=True))
        except AnalysisError as e:
            if "division by literal zero" in str(e):
                check.violation("REST-DEFINED", construct, "for a state at rest (zero velocity, an admissible uniform state) the time step divides by an expression that is exactly zero there (0/0 = NaN, at line %s): every solve from a fluid at rest returns NaN although the right-hand side vanishes" % getattr(ctx.dom, "cur_line", "?"), f.loc(), key="rest-div0")
            else:
                check.undecided("REST-DEFINED", construct, "time step at rest not evaluable: %s" % e, f.loc())
            continue
        if ctx.dom.is_value(dt):
            check.ok("REST-DEFINED", construct, "the time step of a state at rest is a defined expression (no division by a literal zero)", f.loc())
        else:
            check.undecided("REST-DEFINED", construct, "time step at rest is not a value", f.loc())


def body(check):
    from ..disc1d import over_cond_paths
    over_cond_paths(check, _body_paths)


def _body_paths(check):
    proj = check.proj
    check.explanation = ("static analysis: the chain constant data => zero gradients (periodic and one-sided closures) => every "
                         "reconstruction returns the cell value => consistent fluxes equal at all faces => zero residual is decided "
                         "link by link (STN decoding + GVN identities); boundary states with parameters taken from the interior "
                         "state reduce to the interior state under the inflow / outflow regime (GVN with exponents in Q(gamma), "
                         "symbolic unit direction / normal); nozzle sources vanish at rest; every integrator maps a zero residual "
                         "to the identity (AFF: update linear in residuals, implicit solves of a zero right-hand side)")
    check.assume("'to round-off' (e.g. rounding of f*(sR-sL)/(sR-sL)) is not decided")
    check.guarded("RECON-CONST", "xnum", lambda: recon_const(check, proj))
    check.guarded("RESID-ZERO", "modeldisc.fvm1d.calc_res", lambda: resid_zero(check, proj))
    check.guarded("PERIODIC-CLOSE", "modeldisc.fvm1d.calc_bc", lambda: periodic_const(check, proj))
    # equal states at every face give equal fluxes as soon as the flux is a function of the two face
    # states only (consistency with the physical flux is sufficient, not necessary: C02 owns it)
    check.guarded("POINTWISE", "numflux", lambda: c01.pointwise(check, proj))
    check.guarded("BC-FIXPOINT", "euler", lambda: bc_fixpoint(check, proj))
    check.guarded("BC-FIXPOINT", "dirichlet", lambda: c16.bc_def_other(check, proj))
    check.guarded("NOZZLE-REST", "euler.nozzle", lambda: nozzle_rest(check, proj))
    # ... as 0 * geomterm: the geometric factor must be FINITE for every section law, i.e. divide only by quantities that
    # cannot vanish -- the section at the cell CENTRES and the cell width (a section may vanish on a boundary face: wedge A=x,
    # cone A=x^2 with the axis on the first face).  Decided by equality with the reference formula (same obligation as C19
    # NOZ-GEOM, clause G), whose only divisors are those two.
    from . import c19

    def _geom_finite():
        n0_ = len(check.obs)
        c19.noz_geom(check, proj)
        check.obs[n0_:] = [o for o in check.obs[n0_:] if "initdisc" in o.construct and "geomterm" in o.detail]
    check.guarded("NOZ-GEOM", "euler.nozzle.initdisc", _geom_finite)
    # MUSCL on a uniform state evaluates every limiter at (0, 0): the value there must be DEFINED and zero (a ratio form a/b is
    # 0/0 = NaN on exactly flat data) -- same obligations as C12 LIM-ZERO / LIM-DEFINED
    from . import c12
    from ..disc1d import LIMITERS
    for ln_ in [n_ for n_ in LIMITERS if n_ in proj.module("xnum").functions]:
        n0_ = len(check.obs)
        check.guarded("LIM-AXIOM", "xnum." + ln_, lambda: c12.analyse(check, proj, ln_))
        check.obs[n0_:] = [o for o in check.obs[n0_:] if o.rule in ("LIM-ZERO", "LIM-DEFINED", "LIM-AXIOM")]
    # the boundary functions are handed cons2prim(Q) and their result goes back through the fluxes: "a boundary holding the same
    # state" needs cons2prim(prim2cons(W)) == W for EVERY admissible W (an absolute floor on the density in the conversion --
    # max(rho, 1e-6) -- changes the velocity of a rarefied state: inlet / outlet / dirichlet conditions no longer reduce to the
    # interior state) -- same obligations as C17 ROUNDTRIP
    from . import c17
    for key_ in c17.KEYS:
        check.guarded("ROUNDTRIP", key_, lambda: c17.roundtrip(check, key_))
    # "on any mesh": every mesh the constructors can build has ncell cells of POSITIVE width (a duplicated face -- a float-step
    # np.arange that yields its excluded end point -- is a cell of zero width: the residual of a uniform state there is 0/0)
    # -- same obligations as C20 MESH-COUNT / MESH-MONO, violations only
    from . import c20
    for c_ in [c_ for c_ in ("mesh1d", "unimesh", "refinedmesh", "morphedmesh", "nonunimesh") if proj.has_cls("mesh." + c_)]:
        n0_ = len(check.obs)
        check.guarded("MESH-COUNT", "mesh." + c_, lambda: c20.mesh_1d(check, proj, c_))
        kept_ = [o for o in check.obs[n0_:] if o.status == "violation" and o.rule in ("MESH-COUNT", "MESH-MONO", "MESH-SPAN")]
        check.obs[n0_:] = kept_
        if not kept_:
            check.ok("MESH-COUNT", "mesh." + c_, "ncell + 1 strictly increasing faces for every admissible argument (C20)", nontrivial=False)
    check.guarded("INTEG-FIX", "integration", lambda: integ_fix(check, proj))
    check.guarded("REST-DEFINED", "timestep", lambda: rest_defined(check, proj))
    # the finite-difference Jacobian at a state with an identically vanishing component
    check.guarded("FD-STEP-ZERO", "calc_jacobian", lambda: c06.fd_step_zero(check, proj))
    from . import c15
    n0 = len(check.obs)
    lay = check.guarded("LAYOUT-AGREE", "modeldisc.fvm2dcart", lambda: c15.layout_agree(check))
    # (a mis-indexed 2D slice may only move constant data between entries -- harmless -- or leave
    # entries unwritten at their initial zero -- not harmless; the decoder cannot tell which after a
    # mismatch, so the mismatch itself is reported)
    if lay:
        check.guarded("RECON-CONST", "xnum.extrapol2d*", lambda: c15.const_2d(check))
        check.guarded("BC-2D-SITE", "modeldisc.fvm2dcart.calc_bc", lambda: c15.bc_sites(check))
