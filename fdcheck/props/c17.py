"""C17 — state conversions round-trip; named variables obey their definitions.

Rules: ROUNDTRIP, VAR-DEF, VAR-RANK, VAR-REG, SIGN-RANGE (+ UNIT per variable when the
units engine is present)."""
import ast
from fractions import Fraction

from ..interp import Vec
from ..models import Ctx, MODELS, flat
from ..project import AnalysisError, unparse
from .c02 import _decide, _fmt_w

KEYS = ["convection", "burgers", "shallowwater", "euler1d", "nozzle", "euler2d"]
VECTOR_VARS = {"velocity"}      # vector-valued in 2D by definition


def definitions(ctx, W):
    """name -> definition (from the statement) as value numbers over the primitive state W"""
    A = ctx.alg
    k = ctx.key
    if k == "convection":
        return {"q": W[0]}
    if k == "burgers":
        return {}
    if k == "shallowwater":
        h, u = W
        return {"height": h, "massflow": h * u, "velocity": u}
    gam = ctx.selfobj.attrs["gamma"]
    rho, V, p = W
    if k == "euler2d":
        v2 = V.x * V.x + V.y * V.y
        vmag = A.sqrt(v2)
    else:
        v2 = V * V
        vmag = A.abs(V)
    c2 = gam * p / rho
    m2 = v2 / c2
    enth = gam / (gam - 1) * p / rho
    htot = enth + v2 / 2
    d = {
        "density": rho, "pressure": p, "velocity": V, "velocitymag": vmag,
        "kinetic_energy": rho * v2 / 2, "kinetic-energy": rho * v2 / 2,
        "asound": A.sqrt(c2), "mach": vmag / A.sqrt(c2),
        "entropy": ctx.dom.func1("log", p / A.pow(rho, gam)) / (gam - 1),
        "enthalpy": enth, "htot": htot, "rttot": (gam - 1) / gam * htot,
        "ptot": p * A.pow(1 + (gam - 1) / 2 * m2, gam / (gam - 1)),
    }
    if k == "euler2d":
        d["velocity_x"] = V.x
        d["velocity_y"] = V.y
    elif k == "nozzle":
        d["massflow"] = rho * V * A.opaque("A", [ctx.selfobj.attrs["_xc"]], positive=True)
    else:
        d["massflow"] = rho * V
    return d


def cons_state(ctx):
    """symbolic conservative state"""
    A = ctx.alg
    k = ctx.key
    if k == "convection":
        return [A.sym("Q0")]
    if k == "burgers":
        return [A.sym("Q0")]
    if k == "shallowwater":
        return [A.sym("Qh", positive=True), A.sym("Qm")]
    if k == "euler2d":
        return [A.sym("Qr", positive=True), Vec(A.sym("Qmx"), A.sym("Qmy")), A.sym("QE", positive=True)]
    return [A.sym("Qr", positive=True), A.sym("Qm"), A.sym("QE", positive=True)]


def roundtrip(check, key):
    ctx = Ctx(check.proj, key)
    A = ctx.alg
    A.start_clock()
    p2c, c2p = ctx.method("prim2cons"), ctx.method("cons2prim")
    W = ctx.prim("")
    back = ctx.cons2prim(ctx.prim2cons(W))
    if len(flat(back)) != len(flat(W)):
        check.violation("ROUNDTRIP", c2p.qualname, "cons2prim(prim2cons(W)) has %d components, W has %d" % (len(flat(back)), len(flat(W))), c2p.loc(), key="ncomp")
    else:
        for (lab, a), (_, b) in zip(flat(back), flat(W)):
            _decide(check, "ROUNDTRIP", "%s [%s]" % (c2p.qualname, key), c2p.loc(), A, a, b, "cons2prim(prim2cons(W))[%s] == W[%s]" % (lab, lab), key="p-c-p:" + lab)
    Q = cons_state(ctx)
    back = ctx.prim2cons(ctx.cons2prim(Q))
    if len(flat(back)) != len(flat(Q)):
        check.violation("ROUNDTRIP", p2c.qualname, "prim2cons(cons2prim(Q)) has %d components, Q has %d" % (len(flat(back)), len(flat(Q))), p2c.loc(), key="ncomp")
    else:
        for (lab, a), (_, b) in zip(flat(back), flat(Q)):
            _decide(check, "ROUNDTRIP", "%s [%s]" % (p2c.qualname, key), p2c.loc(), A, a, b, "prim2cons(cons2prim(Q))[%s] == Q[%s]" % (lab, lab), key="c-p-c:" + lab)


def variables(check, key):
    proj = check.proj
    cls = proj.cls(MODELS[key]["cls"])
    reg = proj.instance_registry(cls, "_vardict")
    n = 0
    # every variable the statement names for this model is registered under that name
    try:
        _ctx0 = Ctx(proj, key)
        named = set(definitions(_ctx0, _ctx0.prim("")))
    except AnalysisError:
        named = set()
    for nm in sorted(named - set(reg) - {"kinetic-energy", "kinetic_energy", "velocitymag", "velocity_x", "velocity_y", "q"}):
        undecorated = [g for g in proj.mro(cls) for g in [g.methods.get(nm)] if g is not None]
        how = ""
        if undecorated:
            decs = [unparse(d) for d in undecorated[0].node.decorator_list]
            how = " (a method of that name exists, decorated with %s: `@registry.register` WITHOUT parentheses passes the method as the prefix argument and registers nothing)" % ", ".join("@" + d for d in decs) if decs else " (a method of that name exists but is not decorated)"
        check.violation("VAR-REG", "%s._vardict" % cls.qualname, "the variable %r of the statement is not registered for this model%s: phydata(%r) raises KeyError and list_var() does not list it" % (nm, how, nm), cls.loc(), key="unregistered-" + nm)
    for name, f in sorted(reg.items()):
        n += 1
        ctx = Ctx(proj, key)
        A = ctx.alg
        A.start_clock()
        W = ctx.prim("")
        defs = definitions(ctx, W)
        construct = "%s[%s]" % (cls.qualname, name)
        if name not in defs:
            # a variable the statement does not name (added since): there is no definition to compare it with; the
            # generic clauses are decided -- evaluable one value (or vector) per cell, covariant, argument unchanged (VAR-PURE)
            try:
                q = ctx.prim2cons(W)
                ctx.interp.ev.noncovariant.clear()
                val = ctx.call(f, q)
            except AnalysisError as e:
                check.undecided("VAR-DEF", construct, "analysis error: %s" % e, f.loc())
                continue
            if ctx.interp.ev.noncovariant:
                ln, what = ctx.interp.ev.noncovariant[0]
                check.violation("VAR-RANK", construct, "non-covariant vector operation (%s at line %d)" % (what, ln), f.loc(), key="noncov")
            else:
                check.ok("VAR-REG", construct, "variable not named by the statement: point-wise, covariant expression of the state (%s)" % ("vector" if isinstance(val, Vec) else "one value per cell"), f.loc(), nontrivial=False)
            continue
        try:
            q = ctx.prim2cons(W)
            ctx.interp.ev.noncovariant.clear()
            val = ctx.call(f, q)
        except AnalysisError as e:
            check.undecided("VAR-DEF", construct, "analysis error: %s" % e, f.loc())
            continue
        want = defs[name]
        from ..interp import Row2D
        if isinstance(val, Row2D):
            check.violation("VAR-RANK", construct, "returns a piece of the vector field that KEPT its component axis (%s gives two arrays of shape (1, ncell), not (ncell,)): the values are right and broadcast silently, but it is not one value per cell -- len() is 1, [i] is a row, and the array stacks / compares wrongly with the scalar fields" % val.how, f.loc(), key="rank-kept-axis")
            continue
        # rank
        is_vec = isinstance(val, Vec)
        want_vec = isinstance(want, Vec)
        if is_vec != want_vec:
            check.violation("VAR-RANK", construct, "returns %s where the definition is %s: %s" % ("a vector (one value per component and cell)" if is_vec else "a scalar", "a scalar (one value per cell)" if not want_vec else "a vector", f.qualname), f.loc(), key="rank")
            continue
        check.ok("VAR-RANK", construct, "one value per cell" if not is_vec else "vector valued as defined", f.loc(), nontrivial=False)
        if ctx.interp.ev.noncovariant and name not in ("velocity_x", "velocity_y"):
            ln, what = ctx.interp.ev.noncovariant[0]
            check.violation("VAR-RANK", construct, "non-covariant vector operation (%s at line %d)" % (what, ln), f.loc(), key="noncov")
        pairs = list(zip(flat([val]), flat([want])))
        for (lab, a), (_, b) in pairs:
            if name == "mach":
                # definition is |V|/a: the square is compared, the sign separately
                _decide(check, "VAR-DEF", construct, f.loc(), A, a * a, b * b, "%s^2 == (|velocity|/asound)^2 on q = prim2cons(W)" % name, key="def")
                if f.qualname in check.inventory.setdefault("_sign_done", []):
                    continue
                check.inventory["_sign_done"].append(f.qualname)
                st, info = A.decide_equal(a, b)
                if st == "proved":
                    check.ok("SIGN-RANGE", f.qualname, "mach >= 0 (equals |velocity|/asound)", f.loc())
                elif st == "refuted":
                    check.violation("SIGN-RANGE", f.qualname, "mach is not |velocity|/asound: it takes the sign of the momentum" + _fmt_w(info), f.loc(), key="mach-signed")
                else:
                    check.undecided("SIGN-RANGE", f.qualname, str(info), f.loc())
            else:
                _decide(check, "VAR-DEF", construct, f.loc(), A, a, b, "%s == its definition on q = prim2cons(W)" % name, key="def")
    return n


ROUND_FACTOR, ROUND_SLACK = 16.0, 1024.0


def var_round(check, key):
    """VAR-ROUND: "equals its definition" is meant to rounding, over 12 decades of density and pressure.  First-order forward
    error analysis (rounding.py) of each variable AS WRITTEN, on exact conservative data, compared with the same analysis of the
    statement's definition applied to the code's own density / velocity / pressure -- so that what the conservative variables
    cost by themselves (pressure from the total energy at high Mach number) is on both sides.  A formula that is equal in real
    arithmetic but cancels in floating point (log1p(x - 1) for log(x), (a^2 - b^2)/(a - b) ...) stands out by its bound at
    the witness states where the cancellation happens; bounds are ring elements evaluated at witness points spread
    log-uniformly over rho, p in 1e-6 .. 1e6 and |u| in 1e-3 .. 1e3.  Nothing is executed."""
    import re
    from ..algebra import RF, DCTX
    from ..interp import Interp, SelfObj
    from ..rounding import ErrDomain, EV
    proj = check.proj
    ctx = Ctx(proj, key)
    A = ctx.alg
    A.start_clock()
    A.numeric_functions = {"log": lambda v: DCTX.ln(v), "exp": lambda v: DCTX.exp(v)}
    dom = ErrDomain(A)
    it = Interp(proj, dom)
    it.fold_locals = False
    zero = A.const(0)
    attrs = {}
    for n_, v_ in ctx.selfobj.attrs.items():
        attrs[n_] = EV(v_, zero) if isinstance(v_, RF) else v_
    so = SelfObj(ctx.cls, attrs)
    rho, u, p = ctx.prim("")
    gam = ctx.selfobj.attrs["gamma"]
    q = [EV(x, zero) for x in (rho, rho * u, p / (gam - 1) + rho * u * u / 2)]
    reg = proj.instance_registry(ctx.cls, "_vardict")
    code = {}
    for name, f in sorted(reg.items()):
        try:
            r = it.call_function(f, [so, q])
        except AnalysisError as e:
            code[name] = e
            continue
        code[name] = r
    need = [n_ for n_ in ("pressure", "density", "velocity") if not isinstance(code.get(n_), EV)]
    if need:
        raise AnalysisError("rounding analysis of the basic variables failed: %s" % ", ".join("%s (%s)" % (n_, code.get(n_)) for n_ in need))
    P, R, U = code["pressure"], code["density"], code["velocity"]
    G = EV(gam, zero)
    one, half = dom.const(1), dom.const(Fraction(1, 2))
    gm1 = dom.sub(G, one)
    c2 = dom.div(dom.mul(G, P), R)
    v2 = dom.mul(U, U)
    m2 = dom.div(v2, c2)
    enth = dom.div(dom.mul(dom.div(G, gm1), P), R)
    htot = dom.add(enth, dom.mul(half, v2))
    refs = {
        "asound": dom.func1("sqrt", c2),
        "mach": dom.div(dom.func1("abs", U), dom.func1("sqrt", c2)),
        "enthalpy": enth,
        "htot": htot,
        "rttot": dom.mul(dom.div(gm1, G), htot),
        "ptot": dom.mul(P, dom.pow(dom.add(one, dom.mul(dom.mul(half, gm1), m2)), dom.div(G, gm1))),
        "entropy": dom.div(dom.func1("log", dom.div(P, dom.pow(R, G))), gm1),
    }
    if key != "nozzle":
        refs["massflow"] = dom.mul(R, U)
    A.point_pattern_hooks.append((re.compile(r"^(rho|p)$"), lambda m, k, h: 10.0 ** (-6.0 + 12.0 * h)))
    A.point_pattern_hooks.append((re.compile(r"^u$"), lambda m, k, h: (10.0 ** (-3.0 + 6.0 * ((h * 7919.0) % 1.0))) * (1.0 if h < 0.5 else -1.0)))
    cls = ctx.cls
    for name, ref in sorted(refs.items()):
        f = reg.get(name)
        if f is None:
            continue
        construct = "%s[%s]" % (cls.qualname, name)
        got = code.get(name)
        if not isinstance(got, EV):
            check.undecided("VAR-ROUND", construct, "rounding analysis failed: %s" % (got,), f.loc())
            continue
        worst = None
        npts = 0
        for k in range(9000, 9400):
            A._memo.pop(k, None)
            if not A.admissible(k):
                continue
            ec, er = A.evalf(got.e, k), A.evalf(ref.e, k)
            if ec is None or er is None or ec.is_nan() or er.is_nan():
                continue
            npts += 1
            ec, er = float(ec), float(er)
            ratio = ec / (ROUND_FACTOR * er + ROUND_SLACK)
            if worst is None or ratio > worst[0]:
                vals = {n_: float(A.evalf(A.by_name[n_] if not isinstance(A.by_name[n_], RF) and False else A.atom_rf(A.by_name[n_]), k)) for n_ in ("rho", "u", "p", "gamma") if n_ in A.by_name}
                worst = (ratio, ec, er, vals)
        check.inventory["VAR-ROUND witness states [%s]" % name] = npts
        if worst is None or npts < 100:
            check.undecided("VAR-ROUND", construct, "only %d witness states evaluated" % npts, f.loc())
        elif worst[0] > 1.0:
            st = ", ".join("%s=%.3g" % kv for kv in sorted(worst[3].items()))
            check.violation("VAR-ROUND", construct, "as written, %s loses accuracy the definition does not: first-order relative error bound %.3g u (u = 2^-53, i.e. %.1e relative) against %.3g u for the definition evaluated on the same density / velocity / pressure, at the state {%s} -- equal in real arithmetic, not to rounding (a rounded intermediate is subtracted from a nearby constant, e.g. log1p(x - 1.) for log(x): `x - 1.` has already lost x when x is small)"
                            % (f.qualname, worst[1], worst[1] * 1.1e-16, worst[2], st), f.loc(), key="round")
        else:
            check.ok("VAR-ROUND", construct, "rounding-error bound of the expression as written <= %.0f x that of the definition + %.0f u on %d witness states (rho, p over 12 decades, |u| over 6, gamma in (1, 2]); worst ratio %.2g" % (ROUND_FACTOR, ROUND_SLACK, npts, worst[0]), f.loc())


def dispatch(check):
    proj = check.proj
    f = proj.func("modelphy.base.model.nameddata")
    ok = False
    for n in ast.walk(f.node):
        if isinstance(n, ast.Call) and isinstance(n.func, ast.Subscript):
            args = [a.id if isinstance(a, ast.Name) else None for a in n.args]
            if args == [f.params[0], f.params[2]] and isinstance(n.func.slice, ast.Name) and n.func.slice.id == f.params[1] and "_vardict" in unparse(n.func.value):
                ok = True
    check.record("VAR-REG", f.qualname, ok, "nameddata(name, data) calls _vardict[name](self, data)", f.loc(), key="dispatch")
    g = proj.func("field.fdata.phydata")
    ok = False
    for n in ast.walk(g.node):
        if isinstance(n, ast.Call) and isinstance(n.func, ast.Attribute) and n.func.attr == "nameddata":
            args = [unparse(a) for a in n.args]
            if args == [g.params[1], "%s.data" % g.params[0]]:
                ok = True
    check.record("VAR-REG", g.qualname, ok, "phydata(name) passes the conservative data self.data", g.loc(), key="phydata")


def body(check):
    check.explanation = ("static analysis: prim2cons / cons2prim and every registered variable function are lowered to value "
                         "numbers (algebraic GVN with generalised exponents in Q(gamma)); round trips and each variable's "
                         "definition are decided as ring identities for all states; rank (one value per cell) from the "
                         "vector/scalar typing of the abstract interpreter")
    check.trusted += ["variable definition table transcribed from the statement (c17.definitions)"]
    check.assume("admissible states: rho, p, h > 0, gamma > 1; the definitions are decided in exact real arithmetic; rounding is decided only as a first-order bound relative to the definition's own conditioning (VAR-ROUND, Euler 1D variables)")
    nvars = 0
    for key in KEYS:
        check.guarded("ROUNDTRIP", key, lambda: roundtrip(check, key))
        r = check.guarded("VAR-DEF", key, lambda: variables(check, key))
        nvars += r or 0
    check.floor("registered variables", nvars, 14 + 14 + 15 + 3 + 1)
    check.guarded("VAR-ROUND", "euler1d", lambda: var_round(check, "euler1d"))
    dispatch(check)
    # nozzle massflow = rho*u*S(x_c): the positions the section law is evaluated at are the mesh's
    # cell centres on every mesh (same obligation as C19 NOZ-GEOM, the `_xc` clause)
    from . import c19
    n0 = len(check.obs)
    check.guarded("NOZ-XC", "euler.nozzle.initdisc", lambda: c19.noz_geom(check, check.proj))
    kept = []
    for o in check.obs[n0:]:
        if o.key == "xc" or o.status == "undecided":
            o.rule = "NOZ-XC"
            kept.append(o)
    check.obs[n0:] = kept
    from ..units import check_variable_units
    check_variable_units(check, "UNIT-HOMOG")
