"""C10 — first-order Riemann-flux schemes keep density, pressure and depth positive.

PREMISE-LEVEL claim: the check decides necessary conditions that are visible in the code
shape, not the positivity of any trajectory:
  WAVE-ENCLOSE   the left / right wave-speed estimates of hlle, hllc (1D, 2D) and the
                 shallow-water hll bound the one-sided characteristic speeds
                 sL <= min(0?, unL - cL), sR >= max(0?, unR + cR)  (Einfeldt's positivity
                 condition needs exactly the one-sided bounds); rusanov's dissipation speed
                 bounds |uL|+cL and |uR|+cR
  DISSIP-SIGN    the numerical dissipation of the mass / depth flux has the stabilising sign
  CFL-SPEED      the time step uses |u|+c (C18 DT-FORMULA)
  RK-SSP         the SSP integrators of the statement are convex combinations of
                 forward-Euler steps (C05)"""
from ..fluxes import flux_kernels, call_flux
from ..interp import Vec
from ..models import Ctx, MODELS, flat
from ..project import AnalysisError
from . import c05, c18
from .. import rk
from ..affine import run_step

# wave-speed locals named by the property's anchors ("wave-speed estimates sL, sR", "cmax")
TARGETS = {
    ("euler1d", "hlle"): ("sL", "sR"), ("euler1d", "hllc"): ("sL", "sR"),
    ("euler2d", "hlle"): ("sL", "sR"), ("shallowwater", "hll"): ("sL", "sR"),
    ("shallowwater", "rusanov"): ("cmax",),
}


def one_sided(ctx, L, R, dirv):
    A = ctx.alg
    if ctx.key == "shallowwater":
        g = ctx.selfobj.attrs["g"]
        (hL, uL), (hR, uR) = L, R
        return uL, A.sqrt(g * hL), uR, A.sqrt(g * hR)
    gam = ctx.selfobj.attrs["gamma"]
    rhoL, VL, pL = L
    rhoR, VR, pR = R
    if ctx.key == "euler2d":
        unL = VL.x * dirv.x + VL.y * dirv.y
        unR = VR.x * dirv.x + VR.y * dirv.y
    else:
        unL, unR = VL, VR
    return unL, A.sqrt(gam * pL / rhoL), unR, A.sqrt(gam * pR / rhoR)


def enclose(check, proj):
    n = 0
    for key in ("euler1d", "euler2d", "shallowwater"):
        for f, names in flux_kernels(proj, key):
            tg = None
            for nm in names:
                if (key, nm) in TARGETS:
                    tg = TARGETS[(key, nm)]
            if tg is None:
                continue
            n += 1
            ctx = Ctx(proj, key)
            A = ctx.alg
            A.start_clock()
            L, R = ctx.prim("L"), ctx.prim("R")
            dirv = ctx.dir2d() if key == "euler2d" else None
            try:
                call_flux(ctx, f, L, R, dirv)
            except AnalysisError as e:
                check.undecided("WAVE-ENCLOSE", f.qualname, str(e), f.loc())
                continue
            loc = ctx.interp.ev.locals.get(f.qualname, {})
            unL, cL, unR, cR = one_sided(ctx, L, R, dirv)
            A.deep_facts = True
            A.time_budget = 60.0
            missing = [t for t in tg if t not in loc or not ctx.dom.is_value(loc[t])]
            lat = ctx.dom.lattice
            if missing:
                # the estimates are not held in locals of those names (renamed, hoisted with a factor, moved to a
                # helper): they are then looked for among the min / max values the flux builds -- the MAXIMAL
                # ones (not operands of a larger min / max of the same kind)
                byname = {}
                for kind, nm in ((("max", "cmax"),) if tg == ("cmax",) else (("min", "sL"), ("max", "sR"))):
                    nodes = [(k, info) for k, info in lat.items() if info[0] == kind]
                    top = []
                    for k, info in nodes:
                        keys = {A.key(e) for e in info[1]}
                        if not any(k2 != k and keys < {A.key(e) for e in i2[1]} for k2, i2 in nodes):
                            top.append(info)
                    byname[nm] = top
                if not all(byname.values()):
                    check.undecided("WAVE-ENCLOSE", f.qualname, "wave-speed estimate(s) %s named by the property's anchors not found among the locals, and the flux builds no %s of candidate speeds" % (missing, "maximum" if not byname.get("cmax", True) or not byname.get("sR", True) else "minimum"), f.loc())
                    continue
            else:
                byname = None
            zero = A.const(0)
            vocab = {"0": zero, "unL-cL": unL - cL, "unL+cL": unL + cL, "unR-cR": unR - cR, "unR+cR": unR + cR,
                     "|unL|+cL": A.abs(unL) + cL, "|unR|+cR": A.abs(unR) + cR}

            def classify(elems):
                """names of the elements within the finite vocabulary; None for any other"""
                out = []
                for e in elems:
                    nm = None
                    for k, v in vocab.items():
                        if A.equal(e, v):
                            nm = k
                    out.append(nm)
                return out
            if tg == ("cmax",):
                wants = [("max", "cmax", ["|unL|+cL", "|unR|+cR"])]
            else:
                wants = [("min", "sL", ["unL-cL"]), ("max", "sR", ["unR+cR"])]
            for kind, nm, need in wants:
                if byname is not None:
                    # any of the maximal candidates sets may be the estimate: the one that encloses, if any
                    cands = byname[nm]
                    hit = [i for i in cands if all(w in classify(i[1]) for w in need)]
                    if hit:
                        for w in need:
                            check.ok("WAVE-ENCLOSE", f.qualname, "the flux builds a %s over a set of speeds containing the one-sided speed %s (estimate not held in a local named %s): the wave fan encloses the one-sided characteristic for all states" % (kind, w, nm), f.loc())
                    else:
                        check.undecided("WAVE-ENCLOSE", f.qualname, "no %s built by the flux contains %s, and no local named %s identifies the estimate" % (kind, need, nm), f.loc())
                    continue
                val = loc[nm]
                info = lat.get(A.key(val))
                if info is None or info[0] != kind:
                    check.undecided("WAVE-ENCLOSE", f.qualname, "%s is not a %s over a set of candidates (lattice normal form not available)" % (nm, "minimum" if kind == "min" else "maximum"), f.loc())
                    continue
                names_ = classify(info[1])
                for w in need:
                    if w in names_:
                        check.ok("WAVE-ENCLOSE", f.qualname, "%s is the %s over a set containing the one-sided speed %s: the wave fan encloses the one-sided characteristic for all states (Einfeldt's positivity condition)" % (nm, kind, w), f.loc())
                    else:
                        roe = [x for x in names_ if x is None]
                        known = [x for x in names_ if x is not None]
                        # other members (Roe-average speeds) do not bound the one-sided speed for all states:
                        # refuted by a witness state where the estimate is on the wrong side
                        bound = vocab[w]
                        sel = A.minimum(val, bound) if kind == "min" else A.maximum(val, bound)
                        st, info2 = A.decide_equal(A.expand_all(sel), A.expand_all(val))
                        if st == "refuted":
                            check.violation("WAVE-ENCLOSE", f.qualname, "%s = %s over {%s}%s lacks the one-sided speed %s: e.g. at %s the wave fan does not contain the one-sided characteristic, Einfeldt's positivity bound is lost" % (nm, kind, ", ".join(known), " and %d other candidate(s)" % len(roe) if roe else "", w, info2["point"]), f.loc(), key="enclose-%s-%s" % (nm, w))
                        else:
                            check.undecided("WAVE-ENCLOSE", f.qualname, "%s lacks %s syntactically but no violating state was found (%s)" % (nm, w, st), f.loc())
    check.floor("Riemann fluxes with wave-speed estimates", n, 5)


def dissip_sign(check, proj):
    """at rest with equal pressure (depth jump only) the mass / depth flux must run from the
    heavy to the light side: F_rho * (rhoL - rhoR) >= 0"""
    for key, names_wanted in (("euler1d", ("hlle", "hllc")), ("shallowwater", ("rusanov", "hll")), ("euler2d", ("hlle",))):
        for f, names in flux_kernels(proj, key):
            if not any(n in names_wanted for n in names):
                continue
            ctx = Ctx(proj, key)
            A = ctx.alg
            A.start_clock()
            if key == "shallowwater":
                # depth jump at rest: hL = h + dh (heavy left) ; flux of depth must be >= 0
                h, dh = A.sym("h", positive=True), A.sym("dh", positive=True)
                L, R = [h + dh, A.const(0)], [h, A.const(0)]
                dirv = None
            else:
                r, dr, p = A.sym("rho", positive=True), A.sym("drho", positive=True), A.sym("p", positive=True)
                if key == "euler2d":
                    z = Vec(A.const(0), A.const(0))
                    L, R = [r + dr, z, p], [r, z, p]
                    dirv = Vec(A.const(1), A.const(0))
                else:
                    L, R = [r + dr, A.const(0), p], [r, A.const(0), p]
                    dirv = None
            try:
                F = call_flux(ctx, f, L, R, dirv)
            except AnalysisError as e:
                check.undecided("DISSIP-SIGN", f.qualname, str(e), f.loc())
                continue
            v = flat(F)[0][1]
            s = A.sign(v)
            if s in ("+", ">=0", "0"):
                check.ok("DISSIP-SIGN", f.qualname, "for a density/depth jump at rest the mass flux runs from the heavy to the light side (numerical dissipation has the stabilising sign)", f.loc())
            elif s in ("-", "<=0"):
                check.violation("DISSIP-SIGN", f.qualname, "for a density/depth jump at rest the mass flux runs from the light to the heavy side: anti-dissipative, positivity is lost", f.loc(), key="antidissip")
            else:
                check.undecided("DISSIP-SIGN", f.qualname, "sign of the mass flux at rest not established", f.loc())


def ssp(check, proj):
    for name in rk.SSP_CLASSES + ("explicit",):
        if not proj.has_cls("integration." + name):
            continue
        c = proj.cls("integration." + name)
        stepf = proj.resolve(c, "step")
        ai, outs = run_step(proj, c)
        T = rk.extract(outs[0], name)
        probs = [t for r, t in T.problems if rk.problem_kind(r, t) == "update"]     # the statement uses one global step of an autonomous system
        if probs:
            check.violation("RK-SSP", c.qualname, "%s" % probs[0], stepf.loc(), key="tableau")
            continue
        bad = rk.ssp_r1(T.A, T.b)
        if bad:
            check.violation("RK-SSP", c.qualname, "not a convex combination of forward-Euler steps with SSP coefficient 1 (%s): positivity of the first-order step does not carry over" % "; ".join(bad[:3]), stepf.loc(), key="ssp")
        else:
            check.ok("RK-SSP", c.qualname, "convex combination of forward-Euler steps (SSP coefficient >= 1)", stepf.loc())


def driver_cfl(check):
    """the CFL premise of the statement concerns the step a solve actually takes: the minimum over cells of
    CFL*dx/lambda of the CURRENT state, in both public drivers (same obligations as C18 DRV-DT-MIN)"""
    from ..driver_rules import analyse_solve, analyse_entry_points
    from .c07 import report
    res, _ = analyse_solve(check.proj)
    # ... with the options of THIS call (a `dtlocal` remembered from an earlier call replaces the global step by per-cell ones)
    analyse_entry_points(check.proj, res)
    report(check, res, ("DRV-DT-MIN", "DRV-FORWARD"))


def body(check):
    proj = check.proj
    check.explanation = ("static analysis, PREMISE LEVEL: decides necessary conditions of the positivity property that are visible in "
                         "the code shape - one-sided wave-speed enclosure (sign analysis over the GVN ring with branch facts, for "
                         "all states), stabilising sign of the numerical dissipation, |u|+c in the time step, SSP tableaux - and "
                         "not the positivity of any trajectory")
    check.assume("wave-speed locals are identified by the names the property's anchors give them (sL, sR, cmax); a rename is an analysis error, not a pass")
    check.guarded("WAVE-ENCLOSE", "numflux", lambda: enclose(check, proj))
    check.guarded("DISSIP-SIGN", "numflux", lambda: dissip_sign(check, proj))
    check.guarded("RK-SSP", "integration", lambda: ssp(check, proj))
    # the CFL premise needs the cell size handed to timestep() to be the cell's own (1D width, 2D
    # dx*dy/(dx+dy)): same obligation as C18 DT-CELLSIZE
    n0 = len(check.obs)
    check.guarded("CFL-CELLSIZE", "modeldisc", lambda: c18.cellsize(check))
    check.guarded("DRV-DT-MIN", "integration.timemodel", lambda: driver_cfl(check))
    for o in check.obs[n0:]:
        if o.rule == "DT-CELLSIZE":
            o.rule = "CFL-CELLSIZE"
    # the positivity proofs (Einfeldt, Batten et al.) are about the Godunov-type flux of the two- /
    # three-wave approximate solver; when the whole fan runs to one side that flux is the physical
    # flux of the upwind state.  Same obligation as C02 GVN-UPWIND, for the fluxes of this statement.
    from .c02 import upwind
    for key in ("euler1d", "euler2d", "shallowwater"):
        for f, names in flux_kernels(proj, key):
            if any((key, nm) in TARGETS for nm in names) and any(nm in ("hlle", "hllc", "hll") for nm in names):
                n0 = len(check.obs)
                check.guarded("FAN-UPWIND", f.qualname, lambda: upwind(check, key, f), f.loc())
                for o in check.obs[n0:]:
                    if o.rule == "GVN-UPWIND":
                        o.rule = "FAN-UPWIND"
    for key in ("shallowwater", "euler1d", "euler2d"):
        n0 = len(check.obs)
        check.guarded("CFL-SPEED", key, lambda: c18.formula(check, key))
        for o in check.obs[n0:]:
            if o.rule == "DT-FORMULA":
                o.rule = "CFL-SPEED"
        check.obs[n0:] = [o for o in check.obs[n0:] if o.rule == "CFL-SPEED" or o.status != "ok"]
