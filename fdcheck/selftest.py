"""Self-test of the rules, both ways: every rule must stay silent on neutral variants and
the owning property's check must fire on every breaking variant.  Variants live in a
temporary directory that is removed afterwards; evidence of these runs goes to a scratch
directory.  `python -m fdcheck --selftest [ids] [--jobs N]` writes
/verif/selftest/RESULT.json; per-property summaries are also embedded in the evidence of
thorough runs.  Expectation failures are reported, exit code 2 (checker defect), never 1."""
import json
import os
import shutil
import subprocess
import sys
import tempfile
import time
from concurrent.futures import ThreadPoolExecutor

from . import variants as V
from .project import REPO

PY = sys.executable
ALL = ["C01", "C02", "C03", "C04", "C05", "C06", "C07", "C08", "C10", "C11", "C12", "C13", "C14", "C15", "C16", "C17", "C18", "C19", "C20"]


def run_check(pid, root, evdir):
    env = dict(os.environ, FDCHECK_EVIDENCE_DIR=evdir, PYTHONPATH=V.VERIF, VERIF_TIER="quick", FDCHECK_NO_SELFTEST="1")
    try:
        r = subprocess.run([PY, "-m", "fdcheck", pid, "--tier", "quick", "--root", root], cwd=V.VERIF, env=env, capture_output=True, text=True, timeout=900)
        lines = [l.strip()[:300] for l in r.stdout.splitlines() if (l.startswith("  ") and " -- " in l) or l.startswith("ANALYSIS-ERROR")]
        return r.returncode, lines[:3]
    except subprocess.TimeoutExpired:
        return 3, ["timeout"]


def build_all(tmp, only=None):
    """-> [(variant id, kind, expect, root, description)]"""
    out = []
    for vid, desc, factory, expect in V.AST_VARIANTS:
        if only and vid not in only and "neutral" not in only:
            continue
        root = os.path.join(tmp, vid)
        os.makedirs(root)
        n = V.build_ast_variant(REPO, root, factory)
        out.append((vid, "neutral", expect, root, "%s (%d files changed)" % (desc, n)))
    for p in V.neutral_patches():
        vid = os.path.basename(p)[:-5]
        if only and vid not in only and "neutral" not in only:
            continue
        root = os.path.join(tmp, vid)
        os.makedirs(root)
        desc = open(p).readline().lstrip("# ").strip()
        # "[noalarm]": a refactoring outside what the engines can interpret -- exit 2 (cannot decide) is accepted, an alarm is not
        expect = "noalarm" if desc.startswith("[noalarm]") else "all"
        if V.build_patch_variant(REPO, root, p):
            out.append((vid, "neutral", expect, root, desc))
        else:
            out.append((vid, "skipped", "all", None, desc + " [patch does not apply to the current tree]"))
    for vid, pid, p in V.breaking_patches():
        if only and vid not in only and "breaking" not in only and pid not in only:
            continue
        root = os.path.join(tmp, vid)
        os.makedirs(root)
        if V.build_patch_variant(REPO, root, p):
            out.append((vid, "breaking", pid, root, "seeded change for %s" % pid))
        else:
            out.append((vid, "skipped", pid, None, "seeded change for %s [patch does not apply to the current tree]" % pid))
    return out


def selftest(only=None, jobs=16, checks=None):
    tmp = tempfile.mkdtemp(prefix="fdcheck_selftest_")
    t0 = time.time()
    res = {"neutral": {}, "breaking": {}, "skipped": [], "problems": []}
    try:
        vs = build_all(tmp, only)
        work = []
        for vid, kind, expect, root, desc in vs:
            if kind == "skipped":
                res["skipped"].append({"id": vid, "why": desc})
                continue
            evdir = os.path.join(tmp, "ev_" + vid)
            os.makedirs(evdir)
            pids = checks or (ALL if kind == "neutral" else [expect])
            for pid in pids:
                work.append((vid, kind, expect, desc, pid, root, evdir))
        with ThreadPoolExecutor(max_workers=jobs) as ex:
            outs = list(ex.map(lambda w: (w, run_check(w[4], w[5], w[6])), work))
        for (vid, kind, expect, desc, pid, root, evdir), (rc, lines) in outs:
            d = res[kind].setdefault(vid, {"description": desc, "checks": {}})
            d["checks"][pid] = rc
            if kind == "neutral":
                if rc == 1:
                    res["problems"].append({"variant": vid, "check": pid, "problem": "ALARM on a neutral variant", "lines": lines})
                elif rc != 0 and expect != "noalarm":
                    res["problems"].append({"variant": vid, "check": pid, "problem": "cannot decide (exit %d) on a neutral variant" % rc, "lines": lines, "severity": "weakness"})
            else:
                if rc != 1:
                    # a seed recorded as outside what the check decides (meta.json "own_check_expected": "cannot-decide"): exit 2
                    # is the expected answer, silence (exit 0) is still a problem
                    exp = None
                    try:
                        exp = json.load(open(os.path.join(V.VERIF, "seeded", vid, "meta.json"))).get("own_check_expected")
                    except (OSError, ValueError):
                        pass
                    if exp == "cannot-decide" and rc == 2:
                        res.setdefault("by_design_undecided", []).append(vid)
                        continue
                    res["problems"].append({"variant": vid, "check": pid, "problem": "breaking variant not reported (exit %d)" % rc, "lines": lines})
    finally:
        shutil.rmtree(tmp, ignore_errors=True)
    res["wall_s"] = round(time.time() - t0, 1)
    res["summary"] = {
        "neutral_variants": len(res["neutral"]),
        "neutral_silent": sum(1 for v in res["neutral"].values() if all(rc == 0 for rc in v["checks"].values())),
        "neutral_alarms": sum(1 for p in res["problems"] if p["problem"].startswith("ALARM")),
        "breaking_variants": len(res["breaking"]),
        "breaking_fired": sum(1 for v in res["breaking"].values() if all(rc == 1 for rc in v["checks"].values())),
        "skipped": len(res["skipped"]),
    }
    return res


def summary_for(pid, jobs=16):
    """self-test restricted to one property's check (embedded in thorough evidence)"""
    r = selftest(only=["neutral", pid], jobs=jobs, checks=[pid])
    return {"neutral": "%d silent / %d" % (sum(1 for v in r["neutral"].values() if v["checks"].get(pid) == 0), len(r["neutral"])),
            "neutral_cannot_decide": sorted(k for k, v in r["neutral"].items() if v["checks"].get(pid) not in (0, 1)),
            "neutral_alarms": sorted(k for k, v in r["neutral"].items() if v["checks"].get(pid) == 1),
            "breaking": "%d fired / %d" % (sum(1 for v in r["breaking"].values() if v["checks"].get(pid) == 1), len(r["breaking"])),
            "breaking_missed": sorted(k for k, v in r["breaking"].items() if v["checks"].get(pid) != 1 and k not in r.get("by_design_undecided", [])),
            "breaking_outside_the_check_by_design": sorted(r.get("by_design_undecided", [])),
            "skipped": [s["id"] for s in r["skipped"]], "wall_s": r["wall_s"]}


def main(ids, jobs=16):
    r = selftest(only=ids or None, jobs=jobs)
    os.makedirs(os.path.join(V.VERIF, "selftest"), exist_ok=True)
    with open(os.path.join(V.VERIF, "selftest", "RESULT.json"), "w") as fh:
        json.dump(r, fh, indent=1, sort_keys=True)
    print("selftest: %s" % json.dumps(r["summary"]))
    for p in r["problems"]:
        print("SELFTEST-%s variant=%s check=%s: %s %s" % ("WEAKNESS" if p.get("severity") == "weakness" else "PROBLEM", p["variant"], p["check"], p["problem"], p["lines"][:1]))
    hard = [p for p in r["problems"] if p.get("severity") != "weakness"]
    return 2 if hard else 0
