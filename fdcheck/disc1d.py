"""Abstract 1D discretisation (fvm1d + mesh1d + reconstruction) for the STN rules."""
from fractions import Fraction

from .algebra import Algebra, RF
from .interp import Interp, GvnDomain, SelfObj, OpaqueFn, ObjStub
from .project import AnalysisError, const_eval
from .stencil import Stn, SArr, NLin, REL, ABS

N = NLin(1, 0)

RECON_CLASSES = ["extrapol1", "extrapol2", "extrapolk", "centered", "fromm", "quick", "extrapol3", "muscl"]
KAPPA_NOMINAL = {"extrapol2": Fraction(-1), "fromm": Fraction(0), "quick": Fraction(1, 2),
                 "extrapol3": Fraction(1, 3), "centered": Fraction(1)}
LIMITERS = ["minmod", "vanalbada", "vanleer", "superbee"]


# opaque conditions met while interpreting the discretisation (np.isclose on mesh entries ...):
# outcomes of the current pass, and the largest number of such conditions seen in one interpretation
COND_POLICY = []
COND_MAX = [0]
COND_TEXT = [[]]


def over_cond_paths(check, fn):
    """run fn(check) once per outcome vector of the opaque conditions it meets; findings of the
    non-default paths are kept with the path in their text (every clause must hold on every path:
    each outcome is realised by some mesh / data)"""
    import itertools
    global COND_POLICY
    COND_POLICY = []
    COND_MAX[0] = 0
    fn(check)
    m = COND_MAX[0]
    if m == 0:
        return
    if m > 3:
        raise AnalysisError("more than 3 opaque conditions in one interpretation of the discretisation")
    check.inventory["opaque-condition paths"] = 2 ** m
    for pol in itertools.product((True, False), repeat=m):
        if all(pol):
            continue
        COND_POLICY = list(pol)
        COND_TEXT[0] = []
        n0 = len(check.obs)
        try:
            fn(check)
        finally:
            COND_POLICY = []
        label = " [on the path: %s]" % "; ".join(COND_TEXT[0][:m]) if COND_TEXT[0] else " [path %s]" % (pol,)
        kept = []
        for o in check.obs[n0:]:
            if o.status != "ok":
                o.detail += label
                kept.append(o)
        check.obs[n0:] = kept
    # the default pass took every condition as True: label its findings too
    return


class KappaTruthiness(AnalysisError):
    """self.kprec is built with `k or c` / `c if not k else k`: it is the parameter only when the
    parameter is truthy -- for k = 0 (a legitimate kappa: Fromm's scheme) it is something else"""
    def __init__(self, clsname, op, summ):
        AnalysisError.__init__(self, "xnum.%s: kappa depends on the truthiness of the constructor parameter" % clsname)
        self.clsname, self.op, self.summ = clsname, op, summ
        self.violation = ("KAPPA-PARAM", "xnum.%s" % clsname, "self.kprec is the constructor parameter only when the parameter is truthy (`k or c` / conditional on k): for k = 0, a legitimate kappa (Fromm's scheme), the stencil is that of another kappa", "kappa-truthy", {"C11", "C15"})       # the properties whose statement quantifies over kappa


class _CondLog(list):
    def append(self, text):
        list.append(self, text)
        COND_MAX[0] = max(COND_MAX[0], len(self))
        COND_TEXT[0] = list(self)


class Disc1D:
    def __init__(self, proj, neq=1, periodic=True):
        self.proj = proj
        self.alg = Algebra(term_budget=60000, time_budget=30.0)
        self.alg.fold_enabled = False
        self.dom = GvnDomain(self.alg)
        # witness points of refutations are admissible meshes: faces increase with their index, each
        # centre lies inside its cell (relative atoms around x = 10, left end near -100, right end near 100)
        import re as _re
        def _pos(m, k, h):
            name = m.group("name")
            inside = 0.25 + 0.5 * h if name.startswith("xc") else 0.2 * h
            if m.group("off") is not None:
                return 10.0 + int(m.group("off")) + inside
            a, b = int(m.group("a")), int(m.group("b"))
            return (-100.0 if a == 0 else 100.0) + b + inside
        from .algebra import hash_str as _hs
        _h = lambda nm, k: (_hs("%s|%d" % (nm, k)) % 100003) / 100003.0
        # the domain length is the distance between the first and the last face of the same witness mesh
        self.alg.point_hooks["Len"] = lambda k: (100.0 + 0.2 * _h("xf#1n+0", k)) - (-100.0 + 0.2 * _h("xf#0n+0", k))
        self.alg.point_pattern_hooks.append((_re.compile(r"^(?P<name>xf\w*|xc\w*)(?:@(?P<off>[+-]\d+)|#(?P<a>-?\d+)n(?P<b>[+-]\d+))$"), _pos))
        self.interp = Interp(proj, self.dom)
        self.interp.cond_policy = list(COND_POLICY)
        self.interp.cond_log = _CondLog()
        self.stn = Stn(self.alg)
        self.interp.stn = self.stn
        self.neq = neq
        A = self.alg
        self.mesh_cls = proj.cls("mesh.mesh1d")
        self.fvm_cls = proj.cls("modeldisc.fvm1d")
        self.Len = A.sym("Len", positive=True)
        # the mesh object is built by interpreting mesh1d.__init__ (so that every attribute the
        # constructor creates exists), then faces / centres are renamed to the free inputs xf, xc
        from .meshes import MeshBuild
        mb = MeshBuild(proj, "mesh1d", host=self)
        self.mesh = mb.obj
        ver = {nm for nm, _ in mb.versions}

        def ren(name, kind, idx):
            if name in ver:
                return self.stn.rel("xf", idx) if kind == "rel" else self.stn.absol("xf", idx)
            return None
        for k, v in list(self.mesh.attrs.items()):
            if isinstance(v, SArr):
                self.mesh.attrs[k] = SArr(v.length, [(l, h, self.subst_names(x, ren)) for l, h, x in v.segs])
        self.mesh.attrs.update({"ncell": N, "xf": self.stn.input("xf", N + 1), "xc": self.stn.input("xc", N), "length": self.Len})
        # value arithmetic that mixes the mesh size with data (`xf[n]/n`) is carried out in the ring
        self.interp.size_atom = mb.ncell_atom
        self.ncell_atom = mb.ncell_atom
        bc = {"type": "per"} if periodic else {"type": "dirichlet"}
        names = ["d"] if neq == 1 else ["d%d" % i for i in range(neq)]
        self.dnames = names
        self.so = SelfObj(self.fvm_cls, {"mesh": self.mesh, "neq": neq, "nelem": N, "bcL": dict(bc), "bcR": dict(bc),
                                         "pdata": [self.stn.input(nm, N) for nm in names]})

    def call(self, cls, name, selfobj, *args):
        f = self.proj.resolve(cls, name)
        if f is None:
            raise AnalysisError("%s.%s not found (anchor vanished?)" % (cls.qualname, name))
        return self.interp.call_function(f, [selfobj] + list(args))

    def fvm(self, name, *args):
        return self.call(self.fvm_cls, name, self.so, *args)

    def centers(self):
        """decoded mesh1d.calc_centers(): xc[k] as a function of xf"""
        xc = self.call(self.mesh_cls, "calc_centers", self.mesh)
        if not isinstance(xc, SArr) or len(xc.segs) != 1:
            raise AnalysisError("calc_centers does not decode to a single relation")
        return xc.segs[0][2]

    def recon(self, clsname, limiter=None):
        """abstract reconstruction object of class xnum.<clsname>"""
        proj = self.proj
        ci = proj.cls("xnum." + clsname)
        summ = proj.ctor_summary(ci)
        attrs = {}
        A = self.alg
        kind, val = summ.get("kprec", (None, None))
        if kind == "param":
            attrs["kprec"] = A.sym("kappa")
        elif kind == "const":
            attrs["kprec"] = Fraction(val) if not isinstance(val, Fraction) else val
        elif kind == "truthy":
            raise KappaTruthiness(clsname, val, summ["kprec"])
        elif kind == "expr":
            try:
                attrs["kprec"] = const_eval(getattr(val, "expr", val), {})
            except AnalysisError:
                raise AnalysisError("xnum.%s: kappa is not a literal constant" % clsname)
        if "limiter" in summ:
            attrs["limiter"] = limiter
        # other attributes the constructor sets to constants (None placeholders of lazily filled fields ...)
        for nm, (k2, v2) in summ.items():
            if k2 == "const" and nm not in attrs and nm != "kprec":
                attrs[nm] = v2
        return ci, SelfObj(ci, attrs)

    def stage_plan(self, num_ci):
        """the self.<stage>() calls of rhs() in execution order for a reconstruction object of class
        num_ci: conditions on attributes of self.num are decided with the constructor summary of
        that class (order of assignments and base-constructor calls respected)"""
        import ast
        rhs = self.proj.resolve(self.fvm_cls, "rhs")
        if rhs is None:
            raise AnalysisError("%s.rhs not found" % self.fvm_cls.qualname)
        sn = rhs.params[0]
        summ = self.proj.ctor_summary(num_ci)

        def val(e):
            if isinstance(e, ast.Constant):
                return e.value
            if isinstance(e, ast.Attribute) and isinstance(e.value, ast.Attribute) and isinstance(e.value.value, ast.Name) and e.value.value.id == sn and e.value.attr == "num":
                kind, v = summ.get(e.attr, (None, None))
                if kind == "const":
                    return v
                raise AnalysisError("rhs: self.num.%s is not a constant of class %s" % (e.attr, num_ci.qualname))
            raise AnalysisError("rhs: condition operand %s not decidable" % ast.unparse(e))

        def cond(t):
            if isinstance(t, ast.Compare) and len(t.ops) == 1 and isinstance(t.ops[0], (ast.Eq, ast.NotEq)):
                a, b = val(t.left), val(t.comparators[0])
                return (a == b) if isinstance(t.ops[0], ast.Eq) else (a != b)
            if isinstance(t, ast.BoolOp):
                vs = [cond(x) for x in t.values]
                return all(vs) if isinstance(t.op, ast.And) else any(vs)
            if isinstance(t, ast.UnaryOp) and isinstance(t.op, ast.Not):
                return not cond(t.operand)
            raise AnalysisError("rhs: condition %s not decidable" % ast.unparse(t))
        plan = []

        def block(stmts):
            for st in stmts:
                if isinstance(st, ast.If):
                    refs_num = any(isinstance(n, ast.Attribute) and n.attr == "num" for n in ast.walk(st.test))
                    if refs_num:
                        block(st.body if cond(st.test) else st.orelse)
                    else:
                        # other conditions (sources present?): stages inside are taken as executed
                        block(st.body)
                        block(st.orelse)
                    continue
                for n in ast.walk(st):
                    if isinstance(n, ast.Call) and isinstance(n.func, ast.Attribute) and isinstance(n.func.value, ast.Name) and n.func.value.id == sn:
                        plan.append(n.func.attr)
        block(rhs.node.body)
        return plan

    def interp_face(self, ci, num):
        """the face states AS THE DISCRETISATION PRODUCES THEM: its own interp_face stage is run (it calls the
        reconstruction object's interp_face and may post-process the result -- a clamp, a copy), and the face arrays it
        leaves in self.pL / self.pR are returned"""
        f = self.proj.resolve(ci, "interp_face")
        if f is None:
            raise AnalysisError("%s.interp_face not found" % ci.qualname)
        stage = self.proj.resolve(self.so.cls, "interp_face")
        if stage is not None:
            self.so.attrs["num"] = num
            self.so.attrs.setdefault("grad", "none")
            self.so.attrs.pop("pL", None)
            self.so.attrs.pop("pR", None)
            self.interp.call_function(stage, [self.so])
            if "pL" in self.so.attrs and "pR" in self.so.attrs:
                return self.so.attrs["pL"], self.so.attrs["pR"]
            raise AnalysisError("%s does not leave the face states in self.pL / self.pR" % stage.qualname)
        grad = self.so.attrs.get("grad", "none")
        return self.interp.call_function(f, [num, self.mesh, self.so.attrs["pdata"], grad])

    # ---- substitutions on decoded values
    def subst_names(self, val, fn):
        """replace atoms of input arrays: fn(name, kind, index) -> RF or None; kind 'rel'
        (index = offset int) or 'abs' (index = NLin)"""
        def m(name):
            r = REL.match(name)
            if r:
                return fn(r.group("name"), "rel", int(r.group("off")))
            a = ABS.match(name)
            if a:
                return fn(a.group("name"), "abs", NLin(int(a.group("a")), int(a.group("b"))))
            return None
        return self.stn._map_atoms(val, m)


def phi_axioms(alg, name="phi"):
    """limiter as an uninterpreted function with the axioms proved under C12:
    phi(0,0) = 0 (LIM-ZERO), phi(s,s) = s (LIM-CONSIST), phi(-a,-b) = -phi(a,b) (LIM-ODD).
    The axioms are installed as rewrite rules of the algebra so that they also apply after
    substitutions."""
    busy = []

    def rule(args):
        if busy:
            return None
        a, b = args
        if a.is_zero() and b.is_zero():
            return alg.const(0)
        if alg.equal(a, b):
            return a
        lead = a if not a.is_zero() else b
        key = alg._lexkey(lead.num)
        lm = max(lead.num, key=key)
        if lead.num[lm] < 0:
            busy.append(1)
            try:
                return alg.neg(alg.opaque(name, [alg.neg(a), alg.neg(b)]))
            finally:
                busy.pop()
        return None
    alg.opaque_rules[name] = rule

    def phi(a, b):
        return alg.opaque(name, [alg.lift(a), alg.lift(b)])
    phi._elementwise = True
    return phi
