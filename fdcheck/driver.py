"""EFF/guards — path-sensitive abstract interpretation of the solve driver.

State = locals + attributes of `self` + heap of abstract field objects (identity, origin,
list of steps applied, iteration stamp) + a store of linear constraints over symbolic
times and counters (Qn.time, min(dtloc), tsave[isave+k], isave, nit, ...) decided by
Fourier-Motzkin elimination (a tiny polyhedral domain).  Branches on unknown conditions
fork the state; inner loops are unrolled a bounded number of times; the MAIN loop is
analysed for one *generic* iteration started from a stated loop invariant, which is checked
to be established by the prologue and re-established by every path through the body.
Calls to step / _check_end / _parse_monitors / calc_timestep are summarised and logged as
events on which the rules are evaluated."""
import ast
import itertools
from fractions import Fraction

from .project import AnalysisError, unparse

UNROLL = 3


# ----------------------------------------------------------------------------- linear expressions
class Lin:
    __slots__ = ("c", "k")

    def __init__(self, c=None, k=0):
        self.c = {s: Fraction(v) for s, v in (c or {}).items() if v != 0}
        self.k = Fraction(k)

    @staticmethod
    def sym(name):
        return Lin({name: 1})

    @staticmethod
    def lift(v):
        if isinstance(v, Lin):
            return v
        if isinstance(v, bool):
            raise AnalysisError("boolean used as a number")
        if isinstance(v, (int, Fraction)):
            return Lin({}, v)
        raise AnalysisError("expected a number, got %s" % type(v).__name__)

    def __add__(self, o):
        o = Lin.lift(o)
        c = dict(self.c)
        for s, v in o.c.items():
            c[s] = c.get(s, 0) + v
        return Lin(c, self.k + o.k)

    __radd__ = __add__

    def __neg__(self):
        return Lin({s: -v for s, v in self.c.items()}, -self.k)

    def __sub__(self, o):
        return self + (-Lin.lift(o))

    def __rsub__(self, o):
        return Lin.lift(o) - self

    def __mul__(self, o):
        o = Lin.lift(o)
        if not o.c:
            return Lin({s: v * o.k for s, v in self.c.items()}, self.k * o.k)
        if not self.c:
            return Lin({s: v * self.k for s, v in o.c.items()}, self.k * o.k)
        raise AnalysisError("non-linear arithmetic in the driver")

    __rmul__ = __mul__

    def is_const(self):
        return not self.c

    def key(self):
        return (tuple(sorted(self.c.items())), self.k)

    def __eq__(self, o):
        return isinstance(o, Lin) and self.key() == o.key()

    def __hash__(self):
        return hash(self.key())

    def __repr__(self):
        parts = []
        for s, v in sorted(self.c.items()):
            parts.append(s if v == 1 else ("-%s" % s if v == -1 else "%s*%s" % (v, s)))
        if self.k != 0 or not parts:
            parts.append(str(self.k))
        return " + ".join(parts).replace("+ -", "- ")


class Con:
    """linear constraint  lin (>=|>|==) 0"""
    __slots__ = ("lin", "op")

    def __init__(self, lin, op):
        self.lin, self.op = lin, op

    def neg(self):
        if self.op == ">=":
            return [Con(-self.lin, ">")]
        if self.op == ">":
            return [Con(-self.lin, ">=")]
        return [Con(self.lin, ">"), Con(-self.lin, ">")]   # disjunction

    def __repr__(self):
        return "%r %s 0" % (self.lin, self.op)


def feasible(cons):
    """Fourier-Motzkin feasibility over the rationals of a conjunction of Con"""
    rows = []
    for c in cons:
        if c.op == "==":
            rows.append((dict(c.lin.c), c.lin.k, False))
            rows.append(({s: -v for s, v in c.lin.c.items()}, -c.lin.k, False))
        else:
            rows.append((dict(c.lin.c), c.lin.k, c.op == ">"))
    # rows: sum c_s s + k  (> or >=) 0
    while True:
        syms = set()
        for c, k, st in rows:
            syms |= set(c)
        if not syms:
            break
        # eliminate the symbol with the fewest products
        best = None
        for s in syms:
            p = sum(1 for c, k, st in rows if c.get(s, 0) > 0)
            n = sum(1 for c, k, st in rows if c.get(s, 0) < 0)
            if best is None or p * n < best[0]:
                best = (p * n, s)
        s = best[1]
        pos = [r for r in rows if r[0].get(s, 0) > 0]
        neg = [r for r in rows if r[0].get(s, 0) < 0]
        rest = [r for r in rows if r[0].get(s, 0) == 0]
        new = []
        for (c1, k1, s1) in pos:
            for (c2, k2, s2) in neg:
                a, b = c1[s], -c2[s]
                c = {}
                for t, v in c1.items():
                    if t != s:
                        c[t] = c.get(t, 0) + v * b
                for t, v in c2.items():
                    if t != s:
                        c[t] = c.get(t, 0) + v * a
                c = {t: v for t, v in c.items() if v != 0}
                new.append((c, k1 * b + k2 * a, s1 or s2))
        rows = rest + new
        if len(rows) > 4000:
            raise AnalysisError("constraint system too large")
        # constant rows can be checked immediately
        keep = []
        for c, k, st in rows:
            if not c:
                if (st and not k > 0) or (not st and not k >= 0):
                    return False
            else:
                keep.append((c, k, st))
        # de-duplicate
        seen = set()
        rows = []
        for c, k, st in keep:
            key = (tuple(sorted(c.items())), k, st)
            if key not in seen:
                seen.add(key)
                rows.append((c, k, st))
    for c, k, st in rows:
        if (st and not k > 0) or (not st and not k >= 0):
            return False
    return True


def entails(cons, goal):
    """cons |= goal  (goal: Con)"""
    for alt in goal.neg():
        if feasible(list(cons) + [alt]):
            return False
    return True


# ----------------------------------------------------------------------------- conditions
class CAtom:
    def __init__(self, con):
        self.con = con


class CAnd:
    def __init__(self, a, b):
        self.a, self.b = a, b


class COr:
    def __init__(self, a, b):
        self.a, self.b = a, b


class CNot:
    def __init__(self, a):
        self.a = a


class CBool:
    """opaque boolean (configuration flag or result of a summarised call)"""
    def __init__(self, name):
        self.name = name


# ----------------------------------------------------------------------------- abstract objects
class FieldObj:
    _n = 0

    def __init__(self, origin, time, it, caller=False):
        FieldObj._n += 1
        self.id = FieldObj._n
        self.origin = origin       # text
        self.time = time           # Lin
        self.it = it               # Lin or Opq
        self.steps = []            # list of (dt value, constraints snapshot index)
        self.caller = caller
        self.copy_of = None        # id of the object it was copied from (and its step count then)
        self.mutated = []

    def clone_for_state(self):
        o = FieldObj.__new__(FieldObj)
        o.id, o.origin, o.time, o.it = self.id, self.origin, self.time, self.it
        o.steps = list(self.steps)
        o.caller = self.caller
        o.copy_of = self.copy_of
        o.mutated = list(self.mutated)
        return o


class ListObj:
    def __init__(self, name):
        self.name = name
        self.items = []
        self.unknown_prefix = False    # may already contain entries (generic iteration)

    def clone_for_state(self):
        o = ListObj(self.name)
        o.items = list(self.items)
        o.unknown_prefix = self.unknown_prefix
        return o


class ArrSym:
    def __init__(self, name):
        self.name = name


class SeqSym:
    def __init__(self, name):
        self.name = name


class SeqSet:
    """set(save times): only sorted() brings it back to a sequence"""
    def __init__(self, seq):
        self.seq = seq


class Opq:
    def __init__(self, name):
        self.name = name

    def __repr__(self):
        return "<%s>" % self.name


class SelfRef:
    pass


class Bound:
    def __init__(self, func):
        self.func = func


class State:
    def __init__(self):
        self.env = {}
        self.attrs = {}
        self.heap = {}        # id -> FieldObj / ListObj
        self.cons = []
        self.bools = {}       # CBool name -> bool
        self.events = []
        self.done = None      # None | 'return' | 'raise'
        self.retval = None
        self.nsym = 0
        self.seqsyms = {}     # (seqname, Lin index key) -> symbol name
        self.notes = []

    def fork(self):
        s = State()
        s.cons = list(self.cons)
        s.bools = dict(self.bools)
        s.events = list(self.events)
        s.done, s.retval = self.done, self.retval
        s.nsym = self.nsym
        s.seqsyms = dict(self.seqsyms)
        s.notes = list(self.notes)
        memo = {}

        def cp(v):
            if isinstance(v, (FieldObj, ListObj)):
                if id(v) not in memo:
                    memo[id(v)] = v.clone_for_state()
                return memo[id(v)]
            if isinstance(v, list):
                return [cp(x) for x in v]
            if isinstance(v, dict):
                return {k: cp(x) for k, x in v.items()}
            return v
        s.env = {k: cp(v) for k, v in self.env.items()}
        s.attrs = {k: cp(v) for k, v in self.attrs.items()}
        s.heap = {k: cp(v) for k, v in self.heap.items()}
        return s

    def fresh(self, base):
        self.nsym += 1
        return "%s#%d" % (base, self.nsym)

    def add(self, con):
        self.cons.append(con)

    def ok(self):
        return feasible(self.cons)


class Driver:
    def __init__(self, project, cls):
        self.p = project
        self.cls = cls
        self.finished = []     # terminal states
        self.inline_depth = 0
        self.main_loop = None
        self.isave_name = "isave"

    # ------------------------------------------------------------------ statements
    def block(self, stmts, states, func):
        for st in stmts:
            nxt = []
            for s in states:
                if s.done:
                    nxt.append(s)
                else:
                    nxt.extend(self.stmt(st, s, func))
            states = nxt
            if len(states) > 3000:
                raise AnalysisError("%s: too many paths" % func.qualname)
        return states

    def stmt(self, st, s, func):
        if isinstance(st, ast.Expr):
            if isinstance(st.value, ast.Constant):
                return [s]
            return [s2 for s2, _ in self.evalf(st.value, s, func)]
        if isinstance(st, ast.Assign):
            out = []
            for s2, v in self.evalf(st.value, s, func):
                for t in st.targets:
                    self.assign(t, v, s2, func)
                out.append(s2)
            return out
        if isinstance(st, ast.AugAssign):
            out = []
            load = ast.parse(ast.unparse(st.target), mode="eval").body
            ast.copy_location(load, st)
            for n in ast.walk(load):
                n.lineno = st.lineno
                n.col_offset = 0
            for s2, cur in self.evalf(load, s, func):
                for s3, rhs in self.evalf(st.value, s2, func):
                    v = self.binop(st.op, cur, rhs, st, func)
                    self.assign(st.target, v, s3, func)
                    out.append(s3)
            return out
        if isinstance(st, ast.Return):
            if st.value is None:
                s.done, s.retval = "return", None
                return [s]
            out = []
            for s2, v in self.evalf(st.value, s, func):
                if s2.done != "loophead":
                    s2.done, s2.retval = "return", v
                out.append(s2)
            return out
        if isinstance(st, ast.Raise):
            s.done = "raise"
            return [s]
        if isinstance(st, ast.Pass):
            return [s]
        if isinstance(st, ast.If):
            if _effect_free(st.body) and _effect_free(st.orelse):
                return [s]
            out = []
            guards_step = any(isinstance(n, ast.Call) and isinstance(n.func, ast.Attribute) and n.func.attr == "step" for b in st.body for n in ast.walk(b))
            for s2, c in self.evalf(st.test, s, func):
                if guards_step:
                    self._redundant_guards(c, s2, st)
                for s3 in self.assume(s2.fork(), c, True):
                    out.extend(self.block(st.body, [s3], func))
                for s3 in self.assume(s2, c, False):
                    out.extend(self.block(st.orelse, [s3], func))
            return out
        if isinstance(st, ast.While):
            if st is self.main_loop:
                s.done = "loophead"
                return [s]
            return self.while_loop(st, s, func)
        if isinstance(st, ast.Break):
            s.done = "break"
            return [s]
        if isinstance(st, ast.For):
            # the loop BINDS its target(s): a name that is tracked already, or read after the loop, keeps the last element (or its
            # old value when the sequence is empty) -- such a loop is not "without effect"
            tnames = {n.id for n in ast.walk(st.target) if isinstance(n, ast.Name)}
            inside = {id(n) for n in ast.walk(st)}
            rebound = set()
            for n in ast.walk(func.node):
                if isinstance(n, (ast.ListComp, ast.SetComp, ast.DictComp, ast.GeneratorExp)) and any(isinstance(x, ast.Name) and x.id in tnames for g in n.generators for x in ast.walk(g.target)):
                    rebound |= {id(x) for x in ast.walk(n)}
                if isinstance(n, ast.For) and n is not st and getattr(n, "lineno", 0) > st.lineno and any(isinstance(x, ast.Name) and x.id in tnames for x in ast.walk(n.target)):
                    rebound |= {id(x) for x in ast.walk(n)}
            binds = any(t in s.env for t in tnames) or any(isinstance(n, ast.Name) and n.id in tnames and isinstance(n.ctx, ast.Load) and id(n) not in inside and id(n) not in rebound and getattr(n, "lineno", 0) > st.lineno for n in ast.walk(func.node))
            if not binds and (_effect_free(st.body) or _flush_loop(st, s)):
                return [s]
            if (isinstance(st.target, ast.Tuple) and len(st.target.elts) == 2 and all(isinstance(e, ast.Name) for e in st.target.elts)
                    and isinstance(st.iter, ast.Call) and isinstance(st.iter.func, ast.Name) and st.iter.func.id == "enumerate" and len(st.iter.args) == 1
                    and isinstance(st.iter.args[0], ast.Name) and not st.iter.keywords):
                # for I, T in enumerate(SEQ): BODY  ==  i = 0 ; while i < len(SEQ): I = i ; T = SEQ[i] ; i += 1 ; BODY
                self._forvar = getattr(self, "_forvar", 0) + 1
                iv = "__for%d" % self._forvar
                seq = st.iter.args[0].id
                src = "%s = 0\nwhile %s < len(%s):\n    %s = %s\n    %s = %s[%s]\n    %s += 1\n    pass\n" % (iv, iv, seq, st.target.elts[0].id, iv, st.target.elts[1].id, seq, iv, iv)
                mod = ast.parse(src)
                for n in ast.walk(mod):
                    ast.copy_location(n, st)
                wl = mod.body[1]
                wl.body = wl.body[:-1] + list(st.body)
                wl.orelse = list(st.orelse)
                return self.block(mod.body, [s], func)
            if isinstance(st.target, ast.Name) and isinstance(st.iter, ast.Name):
                # for T in SEQ: BODY   ==   i = 0 ; while i < len(SEQ): T = SEQ[i] ; i += 1 ; BODY    (break leaves the loop)
                self._forvar = getattr(self, "_forvar", 0) + 1
                iv = "__for%d" % self._forvar
                src = "%s = 0\nwhile %s < len(%s):\n    %s = %s[%s]\n    %s += 1\n    pass\n" % (iv, iv, st.iter.id, st.target.id, st.iter.id, iv, iv)
                mod = ast.parse(src)
                for n in ast.walk(mod):
                    ast.copy_location(n, st)
                wl = mod.body[1]
                wl.body = wl.body[:-1] + list(st.body)
                wl.orelse = list(st.orelse)
                return self.block(mod.body, [s], func)
            # for T in range(len(SEQ)) / np.arange(len(SEQ)) / range(N):   T = 0 ; while T < N: BODY ; T += 1
            it = st.iter
            if (isinstance(st.target, ast.Name) and isinstance(it, ast.Call) and len(it.args) == 1 and not it.keywords
                    and ((isinstance(it.func, ast.Name) and it.func.id == "range") or (isinstance(it.func, ast.Attribute) and it.func.attr == "arange"))
                    and not any(isinstance(n, ast.Name) and n.id == st.target.id and isinstance(n.ctx, ast.Store) for b in st.body for n in ast.walk(b))
                    and not any(isinstance(n, ast.Continue) for b in st.body for n in ast.walk(b))):
                # Python's semantics: the target is assigned at the START of each iteration from a hidden counter -- after the loop
                # it holds the LAST value taken (N - 1 when nothing breaks; untouched when N = 0), not N
                self._forvar = getattr(self, "_forvar", 0) + 1
                nv = "__forn%d" % self._forvar
                cv = "__forc%d" % self._forvar
                tv = st.target.id
                mod = ast.parse("%s = 0\n%s = 0\nwhile %s < %s:\n    %s = %s\n    pass\n    %s += 1\n" % (nv, cv, cv, nv, tv, cv, cv))
                mod.body[0].value = it.args[0]
                for n in ast.walk(mod):
                    if n is not it.args[0] and not any(n is x for x in ast.walk(it.args[0])):
                        ast.copy_location(n, st)
                wl = mod.body[2]
                # `break` leaves before the increment -- the counter is not read afterwards
                wl.body = [wl.body[0]] + list(st.body) + [wl.body[2]]
                wl.orelse = list(st.orelse)
                return self.block(mod.body, [s], func)
            raise AnalysisError("%s:%d unsupported for loop" % (func.qualname, st.lineno))
        raise AnalysisError("%s:%d unsupported statement %s" % (func.qualname, st.lineno, type(st).__name__))

    def while_loop(self, st, s, func, unroll=None):
        import os
        if unroll is None:
            unroll = UNROLL + 1 if os.environ.get("FDCHECK_TIER") == "thorough" else UNROLL
        """bounded unrolling: exits after 0..unroll iterations"""
        out = []
        cur = [s]
        for it in range(unroll + 1):
            nxt = []
            for s1 in cur:
                for s2, c in self.evalf(st.test, s1, func):
                    for s3 in self.assume(s2.fork(), c, False):
                        # the condition became false: the `else:` clause of the loop runs (not after a `break`)
                        if st.orelse:
                            out.extend(self.block(st.orelse, [s3], func))
                        else:
                            out.append(s3)
                    if it < unroll:
                        for s3 in self.assume(s2, c, True):
                            nxt.extend(x for x in self.block(st.body, [s3], func))
                    else:
                        for s3 in self.assume(s2, c, True):
                            s3.notes.append("loop at line %d unrolled %d times (deeper iterations not explored)" % (st.lineno, unroll))
            for x in nxt:
                if x.done == "break":
                    x.done = None
                    out.append(x)           # left the loop
            nxt = [x for x in nxt if not any(x is y for y in out)]
            cur = [x for x in nxt if not x.done]
            out.extend(x for x in nxt if x.done)
            if not cur:
                break
        return out

    def assume(self, s, c, val):
        """states in which condition c has truth value val"""
        if isinstance(c, bool):
            return [s] if c == val else []
        if c is None:
            return [s] if (False == val) else []
        if isinstance(c, Lin):
            if c.is_const():
                return [s] if ((c.k != 0) == val) else []
            return self.assume(s, COr(CAtom(Con(c, ">")), CAtom(Con(-c, ">"))), val)
        if isinstance(c, CAtom):
            if val:
                s.add(c.con)
                return [s] if s.ok() else []
            out = []
            alts = c.con.neg()
            for i, alt in enumerate(alts):
                s2 = s.fork() if i < len(alts) - 1 else s
                s2.add(alt)
                if s2.ok():
                    out.append(s2)
            return out
        if isinstance(c, CNot):
            return self.assume(s, c.a, not val)
        if isinstance(c, CAnd):
            if val:
                out = []
                for s2 in self.assume(s, c.a, True):
                    out.extend(self.assume(s2, c.b, True))
                return out
            out = self.assume(s.fork(), c.a, False)
            for s2 in self.assume(s, c.a, True):
                out.extend(self.assume(s2, c.b, False))
            return out
        if isinstance(c, COr):
            if not val:
                out = []
                for s2 in self.assume(s, c.a, False):
                    out.extend(self.assume(s2, c.b, False))
                return out
            out = self.assume(s.fork(), c.a, True)
            for s2 in self.assume(s, c.a, False):
                out.extend(self.assume(s2, c.b, True))
            return out
        if isinstance(c, CBool):
            if c.name in s.bools:
                return [s] if s.bools[c.name] == val else []
            s.bools[c.name] = val
            return [s]
        if isinstance(c, dict):
            return [s] if ((len(c) > 0) == val) else []
        if isinstance(c, (Opq, SeqSym, ArrSym, dict, list, ListObj, FieldObj, str)):
            # truthiness of an opaque object: unknown configuration
            name = "truth(%s)" % getattr(c, "name", type(c).__name__)
            if isinstance(c, ListObj):
                if c.items:
                    return [s] if val else []
                if not c.unknown_prefix:
                    return [s] if not val else []
            return self.assume(s, CBool(name), val)
        raise AnalysisError("cannot branch on %r" % (c,))

    # ------------------------------------------------------------------ assignment
    def assign(self, t, v, s, func):
        v = self.remap(s, v)
        if isinstance(t, ast.Name):
            s.env[t.id] = v
            return
        if isinstance(t, (ast.Tuple, ast.List)):
            if not isinstance(v, (list, tuple)) or len(v) != len(t.elts):
                raise AnalysisError("%s:%d cannot unpack" % (func.qualname, t.lineno))
            for a, b in zip(t.elts, v):
                self.assign(a, b, s, func)
            return
        if isinstance(t, ast.Attribute):
            objs = self.evalf(t.value, s, func)
            if len(objs) != 1:
                raise AnalysisError("forking assignment target")
            _, o = objs[0]
            if isinstance(o, SelfRef):
                s.attrs[t.attr] = v
                s.events.append(("setattr", t.attr, v, t.lineno))
                return
            if isinstance(o, FieldObj):
                if t.attr == "time":
                    o.time = v
                elif t.attr == "it":
                    o.it = v
                else:
                    o.mutated.append((t.attr, t.lineno))
                if o.caller:
                    s.events.append(("caller-mutated", t.attr, t.lineno))
                s.events.append(("fieldset", o.id, t.attr, v, t.lineno))
                return
            raise AnalysisError("%s:%d store to attribute of %s" % (func.qualname, t.lineno, type(o).__name__))
        if isinstance(t, ast.Subscript):
            objs = self.evalf(t.value, s, func)
            _, o = objs[0]
            if type(o) is dict:
                # a dictionary the code built: the store is applied (on a copy owned by this state)
                ks = self.evalf(t.slice, s, func)
                if len(ks) == 1 and isinstance(ks[0][1], str):
                    o2 = self._cow(s, o)
                    o2.pop(ks[0][1], None)          # (re-inserted last: a later store wins over an earlier spread)
                    o2[ks[0][1]] = v
            if isinstance(o, (dict, Opq, list)):
                s.events.append(("store-sub", unparse(t), t.lineno))
                if isinstance(o, Opq) and o.name in self.INPUT_PARAMS:
                    s.events.append(("param-mutated", o.name, "item store", t.lineno))
                return
            if isinstance(o, FieldObj):
                o.mutated.append(("item", t.lineno))
                if o.caller:
                    s.events.append(("caller-mutated", "item", t.lineno))
                return
            raise AnalysisError("%s:%d unsupported subscript store" % (func.qualname, t.lineno))
        raise AnalysisError("unsupported assignment target")

    # ------------------------------------------------------------------ expressions (forking)
    def evalf(self, node, s, func):
        """-> list of (state, value)"""
        m = getattr(self, "x_" + type(node).__name__, None)
        if m is None:
            raise AnalysisError("%s:%d unsupported expression %s" % (func.qualname, getattr(node, "lineno", 0), type(node).__name__))
        return m(node, s, func)

    def x_Constant(self, node, s, func):
        v = node.value
        if isinstance(v, float):
            v = Fraction(repr(v))
        if isinstance(v, (int, Fraction)) and not isinstance(v, bool):
            v = Lin({}, v)
        return [(s, v)]

    def x_Name(self, node, s, func):
        if node.id in s.env:
            return [(s, s.env[node.id])]
        if node.id in ("np", "field", "math", "sys", "time"):
            return [(s, Opq("mod:" + node.id))]
        if node.id in func.module.imports:
            return [(s, Opq("mod:" + func.module.imports[node.id]))]
        if node.id in ("len", "min", "max", "print", "any", "all", "range", "zip", "isinstance", "float", "int", "abs", "hasattr", "list", "tuple", "sorted", "enumerate", "dict", "str", "repr", "callable", "set", "frozenset", "round"):
            return [(s, Opq("builtin:" + node.id))]
        if node.id in func.module.assigns or node.id in func.module.functions or node.id in func.module.classes or node.id in func.module.from_imports:
            return [(s, Opq("global:" + node.id))]
        raise AnalysisError("%s:%d unknown name %s" % (func.qualname, node.lineno, node.id))

    def x_Attribute(self, node, s, func):
        out = []
        for s2, o in self.evalf(node.value, s, func):
            out.append((s2, self.getattr(o, node.attr, s2, func, node)))
        return out

    def getattr(self, o, a, s, func, node):
        if isinstance(o, SelfRef):
            if a in s.attrs:
                return s.attrs[a]
            f = self.p.resolve(self.cls, a)
            if f is not None:
                if f.is_property:
                    # a read-only accessor: its single `return E` evaluated on the current state
                    body = [st for st in f.node.body if not (isinstance(st, ast.Expr) and isinstance(st.value, ast.Constant))]
                    if len(body) == 1 and isinstance(body[0], ast.Return) and body[0].value is not None:
                        saved = s.env
                        s.env = {f.params[0]: SelfRef()}
                        try:
                            vs = self.evalf(body[0].value, s, f)
                        finally:
                            s.env = saved
                        if len(vs) == 1:
                            return vs[0][1]
                    raise AnalysisError("%s:%d property %s is not a single-expression accessor" % (func.qualname, node.lineno, a))
                return Bound(f)
            c, expr = self.p.class_attr(self.cls, a)
            if expr is not None:
                return Opq("classattr:" + a)
            from .effects import init_attrs
            if a in init_attrs(self.p, self.cls):
                # set by the constructor and not tracked: the solver's own (persistent) object of that name
                return Opq("self." + a)
            raise AnalysisError("%s:%d self.%s read before assignment on this path" % (func.qualname, node.lineno, a))
        if isinstance(o, FieldObj):
            if a == "time":
                return o.time
            if a == "it":
                return o.it
            if a in ("model", "mesh"):
                return Opq("field." + a)
            if a in ("copy", "data", "average", "phydata", "isnan", "neq", "nelem"):
                return ("fieldattr", o, a)
            if self.p.has_cls("field.fdata"):
                # another method of the field class (reset, set ...): its body, run on the abstract field
                g = self.p.resolve(self.p.cls("field.fdata"), a)
                if g is not None and g.has_self and not g.is_property:
                    return ("fieldmeth", o, g)
            raise AnalysisError("%s:%d field attribute .%s" % (func.qualname, node.lineno, a))
        if isinstance(o, ListObj) and a in ("append", "extend"):
            return ("listmeth", o, a)
        if isinstance(o, Opq):
            return Opq(o.name + "." + a)
        if isinstance(o, dict):
            return ("dictmeth", o, a)
        if isinstance(o, (SeqSym, ArrSym)):
            return Opq("%s.%s" % (o.name, a))
        if isinstance(o, str):
            return Opq("str." + a)
        raise AnalysisError("%s:%d unsupported attribute .%s on %s" % (func.qualname, node.lineno, a, type(o).__name__))

    def x_Subscript(self, node, s, func):
        out = []
        for s2, o in self.evalf(node.value, s, func):
            for s3, i in self.evalf(node.slice, s2, func):
                out.append((s3, self.getitem(o, i, s3, func, node)))
        return out

    def getitem(self, o, i, s, func, node):
        if isinstance(o, SeqSym):
            if not isinstance(i, Lin):
                raise AnalysisError("%s:%d non-numeric index" % (func.qualname, node.lineno))
            s.events.append(("seqread", o.name, i, list(s.cons), node.lineno))
            return Lin.sym(self.seq_symbol(s, o.name, i))
        if isinstance(o, (Opq, dict)):
            return Opq("item")
        if isinstance(o, ("".__class__,)):
            return Opq("char")
        if isinstance(o, tuple) and o and o[0] == "fieldattr":
            return Opq("fielddata")
        raise AnalysisError("%s:%d unsupported subscript on %s" % (func.qualname, node.lineno, type(o).__name__))

    def seq_symbol(self, s, name, idx):
        """symbol for seq[idx]; sortedness (non-decreasing) w.r.t. known neighbours"""
        key = (name, idx.key())
        if key in s.seqsyms:
            return s.seqsyms[key]
        if idx.is_const() and idx.k == -1:
            sym = "%s[last]" % name
        else:
            sym = "%s[%r]" % (name, idx)
        for (n2, k2), sym2 in list(s.seqsyms.items()):
            if n2 != name:
                continue
            idx2 = Lin(dict(k2[0]), k2[1])
            if idx2.is_const() and idx2.k == -1:
                s.add(Con(Lin.sym(sym2) - Lin.sym(sym), ">="))
                continue
            if idx.is_const() and idx.k == -1:
                s.add(Con(Lin.sym(sym) - Lin.sym(sym2), ">="))
                continue
            d = idx - idx2
            if d.is_const():
                if d.k > 0:
                    s.add(Con(Lin.sym(sym) - Lin.sym(sym2), ">="))
                elif d.k < 0:
                    s.add(Con(Lin.sym(sym2) - Lin.sym(sym), ">="))
        s.seqsyms[key] = sym
        return sym

    def x_Tuple(self, node, s, func):
        return self._seq(node.elts, s, func)

    def x_List(self, node, s, func):
        if not node.elts:
            o = ListObj("list@%d" % node.lineno)       # a fresh list the function may fill (tracked per path)
            s.heap["L%d" % id(o)] = o
            return [(s, o)]
        return self._seq(node.elts, s, func)

    def _seq(self, elts, s, func):
        acc = [(s, [])]
        for e in elts:
            nxt = []
            for s1, vals in acc:
                for s2, v in self.evalf(e, s1, func):
                    nxt.append((s2, vals + [v]))
            acc = nxt
        return acc

    def x_Dict(self, node, s, func):
        if not node.keys:
            return [(s, {})]
        acc = [(s, {})]
        for k, v in zip(node.keys, node.values):
            nxt = []
            for s1, d in acc:
                if k is None:
                    for s2, sv in self.evalf(v, s1, func):
                        d2 = dict(d)
                        d2["**%d" % len(d2)] = sv if isinstance(sv, Opq) else Opq("spread")
                        nxt.append((s2, d2))
                    continue
                for s2, kv in self.evalf(k, s1, func):
                    for s3, vv in self.evalf(v, s2, func):
                        d2 = dict(d)
                        d2[kv if isinstance(kv, str) else repr(kv)] = vv
                        nxt.append((s3, d2))
            acc = nxt
        return acc

    def x_ListComp(self, node, s, func):
        return [(s, Opq("listcomp"))]

    def x_JoinedStr(self, node, s, func):
        return [(s, "<fstring>")]

    def x_Lambda(self, node, s, func):
        return [(s, Opq("lambda"))]

    def x_IfExp(self, node, s, func):
        out = []
        for s2, c in self.evalf(node.test, s, func):
            for s3 in self.assume(s2.fork(), c, True):
                out.extend(self.evalf(node.body, s3, func))
            for s3 in self.assume(s2, c, False):
                out.extend(self.evalf(node.orelse, s3, func))
        return out

    def x_UnaryOp(self, node, s, func):
        out = []
        for s2, v in self.evalf(node.operand, s, func):
            if isinstance(node.op, ast.Not):
                out.append((s2, self.cnot(v)))
            elif isinstance(node.op, ast.USub):
                out.append((s2, -Lin.lift(v)))
            else:
                raise AnalysisError("unsupported unary operator")
        return out

    def cnot(self, v):
        if isinstance(v, bool):
            return not v
        if v is None:
            return True
        return CNot(v)

    def x_BoolOp(self, node, s, func):
        # short-circuit: later operands are evaluated only in states where earlier ones allow
        is_and = isinstance(node.op, ast.And)
        results = []

        def rec(i, st, acc):
            if i == len(node.values):
                results.append((st, acc))
                return
            if acc is not None:
                # evaluate next operand only where needed
                needed = self.assume(st.fork(), acc, is_and)
                skip = self.assume(st, acc, not is_and)
                for s2 in skip:
                    # Python returns the deciding OPERAND (`monitors or self.monitors` is the dictionary, not True)
                    objval = isinstance(acc, (Opq, dict, list, str, ListObj, FieldObj, SeqSym, ArrSym))
                    results.append((s2, acc if objval else (False if is_and else True)))
                for s2 in needed:
                    for s3, v in self.evalf(node.values[i], s2, func):
                        rec(i + 1, s3, v)
            else:
                for s3, v in self.evalf(node.values[i], st, func):
                    rec(i + 1, s3, v)
        rec(0, s, None)
        return results

    def x_Compare(self, node, s, func):
        if len(node.ops) != 1:
            raise AnalysisError("chained comparison")
        out = []
        op = node.ops[0]
        for s2, a in self.evalf(node.left, s, func):
            for s3, b in self.evalf(node.comparators[0], s2, func):
                out.append((s3, self.compare(op, a, b, s3, func, node)))
        return out

    def compare(self, op, a, b, s, func, node):
        if isinstance(op, (ast.In, ast.NotIn)):
            if isinstance(b, dict) and isinstance(a, str):
                # a dictionary the analysis built: its own keys are known, the entries of a spread / update argument are not
                spreads = [v for k, v in b.items() if k.startswith("**")]
                if a in b:
                    c = True
                elif not spreads:
                    c = False
                else:
                    c = CBool("%s in %s.keys()" % (a, "+".join(getattr(v, "name", "?") for v in spreads)))
                return c if isinstance(op, ast.In) else self.cnot(c)
            name = "%s in %s" % (a if isinstance(a, str) else "x", getattr(b, "name", "container"))
            c = CBool(name)
            return c if isinstance(op, ast.In) else CNot(c)
        if isinstance(op, (ast.Is, ast.IsNot)):
            if b is None:
                if a is None:
                    r = True
                elif isinstance(a, Opq):
                    r = CBool("%s is None" % a.name)
                else:
                    r = False
                return r if isinstance(op, ast.Is) else self.cnot(r)
            raise AnalysisError("unsupported identity test")
        if isinstance(a, str) or isinstance(b, str):
            if isinstance(a, str) and isinstance(b, str):
                r = (a == b)
                return r if isinstance(op, ast.Eq) else (not r if isinstance(op, ast.NotEq) else False)
            return CBool("strcmp:%s" % unparse(node))
        if isinstance(a, Opq) or isinstance(b, Opq):
            return CBool("cmp:%s" % unparse(node))
        a, b = Lin.lift(a), Lin.lift(b)
        d = a - b
        if isinstance(op, ast.GtE):
            return CAtom(Con(d, ">="))
        if isinstance(op, ast.Gt):
            return CAtom(Con(d, ">"))
        if isinstance(op, ast.LtE):
            return CAtom(Con(-d, ">="))
        if isinstance(op, ast.Lt):
            return CAtom(Con(-d, ">"))
        if isinstance(op, ast.Eq):
            return CAtom(Con(d, "=="))
        if isinstance(op, ast.NotEq):
            return CNot(CAtom(Con(d, "==")))
        raise AnalysisError("unsupported comparison")

    def x_BinOp(self, node, s, func):
        out = []
        for s2, a in self.evalf(node.left, s, func):
            for s3, b in self.evalf(node.right, s2, func):
                out.append((s3, self.binop(node.op, a, b, node, func)))
        return out

    def binop(self, op, a, b, node, func):
        if isinstance(a, (Opq, str)) or isinstance(b, (Opq, str)) or isinstance(a, (ArrSym,)) or isinstance(b, (ArrSym,)):
            return Opq("expr")
        if isinstance(a, dict) or isinstance(b, dict) or isinstance(a, list) or isinstance(b, list):
            return Opq("expr")
        a, b = Lin.lift(a), Lin.lift(b)
        if isinstance(op, ast.Add):
            return a + b
        if isinstance(op, ast.Sub):
            return a - b
        if isinstance(op, ast.Mult):
            return a * b
        if isinstance(op, ast.Div):
            if b.is_const() and b.k != 0:
                return a * (1 / b.k)
            return Opq("quotient")
        if isinstance(op, ast.Mod):
            return Opq("mod")
        raise AnalysisError("%s:%d unsupported operator" % (func.qualname, node.lineno))

    # ------------------------------------------------------------------ calls
    def x_Call(self, node, s, func):
        out = []
        for s1, f in self.evalf(node.func, s, func):
            for s2, args in self._seq(node.args, s1, func):
                kw = {}
                acc = [(s2, {})]
                for k in node.keywords:
                    nxt = []
                    for s3, d in acc:
                        for s4, v in self.evalf(k.value, s3, func):
                            d2 = dict(d)
                            d2[k.arg or "**"] = v
                            nxt.append((s4, d2))
                    acc = nxt
                for s3, kw in acc:
                    out.extend(self.call(f, args, kw, s3, func, node))
        return out

    def remap(self, s, v):
        """values may have been computed before a fork: re-resolve heap objects by identity"""
        if isinstance(v, FieldObj):
            return s.heap.get(v.id, v)
        if isinstance(v, ListObj):
            for h in s.heap.values():
                if isinstance(h, ListObj) and h.name == v.name:
                    return h
            return v
        if isinstance(v, list):
            return [self.remap(s, x) for x in v]
        if isinstance(v, tuple) and v and v[0] in ("fieldattr", "listmeth", "fieldmeth"):
            return (v[0], self.remap(s, v[1]), v[2])
        return v

    def call(self, f, args, kw, s, func, node):
        ln = node.lineno
        f = self.remap(s, f)
        args = [self.remap(s, a) for a in args]
        kw = {k: self.remap(s, v) for k, v in kw.items()}
        if isinstance(f, Bound):
            return self.call_method(f.func, args, kw, s, func, node)
        if isinstance(f, tuple) and f[0] == "fieldattr":
            _, o, a = f
            if a == "copy":
                n = FieldObj("copy of #%d" % o.id, o.time, o.it)
                n.copy_of = (o.id, len(o.steps))
                s.heap[n.id] = n
                s.events.append(("copy", o.id, n.id, ln))
                return [(s, n)]
            return [(s, Opq("field." + a))]
        if isinstance(f, tuple) and f[0] == "fieldmeth":
            return self.call_method(f[2], args, kw, s, func, node, recv=f[1])
        if isinstance(f, tuple) and f[0] == "listmeth":
            _, o, a = f
            if a == "append":
                o.items.append(args[0])
                snap = None
                if isinstance(args[0], FieldObj):
                    x = args[0]
                    snap = dict(id=x.id, time=x.time, it=x.it, steps=list(x.steps), copy_of=x.copy_of, caller=x.caller)
                s.events.append(("append", o.name, snap, ln, self.snapshot(s)))
                return [(s, None)]
            raise AnalysisError("%s:%d unsupported list method" % (func.qualname, ln))
        if isinstance(f, tuple) and f[0] == "dictmeth":
            _, d, a = f
            if a in ("update", "setdefault", "pop"):
                d = self._cow(s, d)         # states forked earlier share the object: change a copy owned by THIS state
            if a == "update":
                for k, v in (args[0].items() if isinstance(args[0], dict) else []):
                    if k.startswith("**"):
                        while k in d:           # the spread of another dictionary: kept beside the ones already there
                            k += "'"
                    d[k] = v
                if not isinstance(args[0], dict):
                    key = "**upd"
                    while key in d:
                        key += "'"
                    d[key] = args[0]
                return [(s, None)]
            if a in ("keys", "values", "items"):
                return [(s, Opq("dict.%s" % a))]
            if a == "get" and args and isinstance(args[0], str) and args[0] in d and not any(k.startswith("**") and list(d).index(k) > list(d).index(args[0]) for k in d):
                return [(s, d[args[0]])]          # an entry the code itself stored, not overridden by a later spread
            if a in ("get", "pop"):
                return [(s, Opq("dict.get"))]
            if a == "setdefault" and len(args) == 2:
                if args[0] not in d:
                    d[args[0]] = args[1]
                return [(s, d[args[0]])]
            raise AnalysisError("%s:%d unsupported dict method %s" % (func.qualname, ln, a))
        if isinstance(f, Opq):
            return self.call_opaque(f, args, kw, s, func, node)
        raise AnalysisError("%s:%d unsupported call %s" % (func.qualname, ln, unparse(node.func)))

    def _redundant_guards(self, c, s, st):
        """comparisons in the guard of a step() call that the path already implies IN EXACT ARITHMETIC.  The analysis reasons over
        the reals; a comparison it finds always true is a second floating-point test of a fact established by another expression
        (`t + dt >= s` earlier, `s - t <= dt` here): the two can disagree by one rounding, and the step is then skipped."""
        atoms = []

        def leaves(x):
            if isinstance(x, CAnd):
                leaves(x.a)
                leaves(x.b)
            elif isinstance(x, CAtom):
                atoms.append(x)
        leaves(c)
        base = s.fork()
        for a in atoms:
            t = base.fork()
            # (a comparison of TWO quantities, or the sign of their difference, is exact in floating point; one that combines
            # three -- a sum or difference against a third -- rounds)
            rounds = len(a.con.lin.c) >= 3
            if rounds and not self.assume(t, a, False) and self.assume(base.fork(), a, True):
                s.events.append(("redundant-step-guard", repr(a.con), st.lineno))
            for b2 in self.assume(base, a, True):
                base = b2
                break

    @staticmethod
    def _cow(s, d):
        """copy-on-write of a dictionary value: every name / attribute of THIS state that holds d now holds the copy"""
        new = dict(d)
        for k, v in list(s.env.items()):
            if v is d:
                s.env[k] = new
        for k, v in list(s.attrs.items()):
            if v is d:
                s.attrs[k] = new
        return new

    def snapshot(self, s):
        """symbolic values the rules refer to"""
        qn = s.attrs.get("Qn")
        return dict(nit=s.attrs.get("_nit"), itstart=s.attrs.get("_itstart"), time=s.attrs.get("_time"),
                    qn_time=qn.time if isinstance(qn, FieldObj) else None,
                    qn_id=qn.id if isinstance(qn, FieldObj) else None,
                    qn_it=qn.it if isinstance(qn, FieldObj) else None,
                    isave=s.env.get(self.isave_name), cons=list(s.cons))

    INPUT_PARAMS = ("stop", "directives", "tsave", "cfl", "flush")     # roles of solve_args: pure inputs
    MUTATORS = ("update", "setdefault", "pop", "popitem", "clear", "append", "extend", "insert", "remove", "sort", "reverse", "__setitem__")

    def call_opaque(self, f, args, kw, s, func, node):
        n = f.name
        ln = node.lineno
        if "." in n and n.split(".")[0] in self.INPUT_PARAMS and n.split(".")[-1] in self.MUTATORS and n.count(".") == 1:
            # a mutating method of an object the caller passed in as a pure input
            s.events.append(("param-mutated", n.split(".")[0], n.split(".")[1], ln))
        if n.startswith("self.") and n.count(".") == 2 and n.split(".")[-1] in self.MUTATORS:
            # a container the solver object keeps between calls is changed in place
            s.events.append(("self-mutated", n.split(".")[1], n.split(".")[2], ln, list(args) + list(kw.values())))
        if n in ("mod:copy.copy", "mod:copy.deepcopy") and len(args) == 1 and isinstance(args[0], FieldObj):
            o = args[0]
            c = FieldObj("%s of #%d" % (n[4:], o.id), o.time, o.it)
            c.copy_of = (o.id, len(o.steps))
            s.heap[c.id] = c
            s.events.append(("copy", o.id, c.id, ln))
            if n == "mod:copy.copy":
                # a SHALLOW copy: a new field object whose `data` list is the original's -- add_res updates those arrays in place
                s.events.append(("shallow-copy", o.id, c.id, ln))
            return [(s, c)]
        if n == "builtin:len":
            a = args[0]
            if isinstance(a, SeqSym):
                sym = "len(%s)" % a.name
                if not any(c.lin == Lin.sym(sym) and c.op == ">=" for c in s.cons):
                    s.add(Con(Lin.sym(sym), ">="))
                return [(s, Lin.sym(sym))]
            if isinstance(a, ListObj):
                if a.unknown_prefix:
                    sym = "len(%s)" % a.name
                    s.add(Con(Lin.sym(sym), ">="))
                    return [(s, Lin.sym(sym) + len(a.items))]
                return [(s, Lin({}, len(a.items)))]
            if isinstance(a, (list, dict)):
                return [(s, Lin({}, len(a)))]
            return [(s, Opq("len"))]
        if n in ("builtin:min", "mod:np.min", "mod:np.amin", "builtin:max", "mod:np.max", "mod:np.amax"):
            a = args[0]
            kind = "min" if "min" in n else "max"
            if len(args) == 2 and all(isinstance(x, Lin) for x in args):
                sym = s.fresh(kind + "2")
                for x in args:
                    s.add(Con((Lin.sym(sym) - x) if kind == "max" else (x - Lin.sym(sym)), ">="))
                s.events.append((kind + "2", sym, list(args), ln))
                return [(s, Lin.sym(sym))]
            if len(args) >= 2:
                # an extremum with an operand the analysis does not resolve (an entry of the stop criteria ...): a new
                # quantity, bounded by the operands it does know
                sym = s.fresh(kind + "N")
                for x in args:
                    if isinstance(x, Lin):
                        s.add(Con((Lin.sym(sym) - x) if kind == "max" else (x - Lin.sym(sym)), ">="))
                s.events.append((kind + "2", sym, list(args), ln))
                return [(s, Lin.sym(sym))]
            if isinstance(a, ArrSym):
                sym = "%s(%s)" % (kind, a.name)
                s.add(Con(Lin.sym(sym), ">"))
                if kind == "max":
                    s.add(Con(Lin.sym(sym) - Lin.sym("min(%s)" % a.name), ">="))
                    s.add(Con(Lin.sym("min(%s)" % a.name), ">"))
                s.events.append(("reduce", kind, a.name, ln))
                return [(s, Lin.sym(sym))]
            if isinstance(a, Lin):
                return [(s, a)]
            return [(s, Opq(kind))]
        if n == "builtin:hasattr":
            o, name = args[0], args[1]
            if isinstance(o, SelfRef) and isinstance(name, str):
                if name in s.attrs:
                    return [(s, True)]
                if self.p.resolve(self.cls, name) is not None or self.p.class_attr(self.cls, name)[1] is not None:
                    return [(s, True)]
                # the attribute may survive from an earlier solve()/restart() on this object
                s2 = s.fork()
                s2.attrs[name] = ArrSym("stale_" + name)
                s2.events.append(("stale-attr", name, ln))
                s2.bools["hasattr:" + name] = True
                s.bools["hasattr:" + name] = False
                return [(s2, True), (s, False)]
            return [(s, CBool("hasattr"))]
        if n == "mod:np.spacing" and len(args) == 1:
            # the gap to the next float: a non-negative, negligible number -- `x > np.spacing(x)` is read as `x > 0` ("x is positive
            # and not negligible"); no symbol of its own (every fresh symbol multiplies the cost of the feasibility tests)
            return [(s, Lin({}, 0))]
        if n == "global:myclock" or n.startswith("mod:time"):
            return [(s, Opq("clock"))]
        if n == "mod:field.fieldlist":
            o = ListObj("results")
            s.heap["L%d" % id(o)] = o
            return [(s, o)]
        if n == "builtin:round" and args and isinstance(args[0], Lin):
            if args[0].is_const():
                return [(s, args[0])] if len(args) == 1 or True else None
            # a rounded quantity is another number (equal to its argument only for particular values)
            return [(s, Lin.sym(s.fresh("rounded")))]
        if n in ("builtin:list", "builtin:tuple", "builtin:sorted", "builtin:set", "builtin:frozenset") and len(args) == 1 and isinstance(args[0], SeqSym):
            # a copy / the sorted / the de-duplicated save-time list: for the strictly increasing lists the statement
            # quantifies over it is the same sequence (a set loses the order only for a later sorted(); a bare set is indexed
            # nowhere), held in a new object
            if n in ("builtin:set", "builtin:frozenset"):
                return [(s, SeqSet(args[0]))]
            return [(s, args[0])]
        if n in ("builtin:sorted", "builtin:list", "builtin:tuple") and len(args) == 1 and isinstance(args[0], SeqSet):
            if n != "builtin:sorted":
                raise AnalysisError("%s:%d list(set(save times)): the order of the save times is lost" % (func.qualname, ln))
            return [(s, args[0].seq)]
        if n in ("builtin:list", "builtin:tuple") and len(args) == 1:
            # a new list with the same elements: an untracked copy of an untracked container, opaque otherwise
            a = args[0]
            return [(s, list(a) if isinstance(a, (list, tuple)) else Opq("listcopy"))]
        if n == "builtin:dict":
            # dict() / dict(d) / dict(d, k=v): a NEW dictionary; the entries of an argument the analysis does not see are kept
            # as a spread of that argument (as in {**d})
            d = {}
            if args:
                a = args[0]
                if isinstance(a, dict):
                    d.update(a)
                elif isinstance(a, Opq):
                    d["**0"] = a
                else:
                    return [(s, Opq("void"))]
            for k_, v_ in kw.items():
                d[k_] = v_
            return [(s, d)]
        if n in ("builtin:print", "mod:np.save", "mod:np.vstack", "builtin:zip", "builtin:range", "str.format", "builtin:isinstance", "builtin:sorted", "builtin:enumerate", "builtin:str", "builtin:repr", "builtin:callable"):
            return [(s, Opq("void"))]
        if n in ("builtin:any", "builtin:all"):
            return [(s, CBool("%s()" % n[8:]))]
        if n.endswith(".get") and args and isinstance(args[0], str) and (len(args) == 1 or args[1] in (None, False) or (isinstance(args[1], Lin) and args[1].is_const() and args[1].k == 0)):
            # D.get('k'[, falsy default]) used as a switch: on when the key is PRESENT and its value is truthy -- two
            # independent facts about the caller's dictionary (presence is what `'k' in D` tests)
            cont = n[:-4]
            s.events.append(("switch", cont, args[0], ln))
            return [(s, CAnd(CBool("%s in %s.keys()" % (args[0], cont)), CBool("the value stored under the key %s is truthy" % "-".join(args[0]))))]
        if n.startswith("modeldisc.") or n.startswith("mod:") or n.startswith("global:") or n.endswith(".keys") or n.endswith(".items") or n.endswith(".values") or n.endswith(".get") or n.endswith(".pop") or n.startswith("expr") or n.startswith("item"):
            if n == "modeldisc.calc_timestep":
                fo = args[0] if args else None
                name = s.fresh("dtloc")
                s.events.append(("timestep", fo.id if isinstance(fo, FieldObj) else None, len(fo.steps) if isinstance(fo, FieldObj) else None, name, ln, self.snapshot(s)))
                return [(s, ArrSym(name))]
            for a in args:
                if isinstance(a, FieldObj):
                    s.events.append(("escape", a.id, n, ln))
            return [(s, Opq(n + "()"))]
        return [(s, Opq(n + "()"))]

    # summarised / inlined methods of self
    SUMMARISED = ("step", "_check_end", "_parse_monitors", "calcrhs", "_remove_monitor_output", "mon_residual", "mon_dataavg")

    def call_method(self, f, args, kw, s, func, node, recv=None):
        ln = node.lineno
        name = f.name
        if name == "step":
            fo, dt = args[0], args[1]
            if not isinstance(fo, FieldObj):
                raise AnalysisError("%s:%d step on a non-field" % (func.qualname, ln))
            if isinstance(dt, ArrSym):
                adv = Lin.sym("min(%s)" % dt.name)
                s.add(Con(adv, ">"))
                dtv = ("array", dt.name)
            elif isinstance(dt, Lin):
                adv = dt
                dtv = ("scalar", dt)
            else:
                raise AnalysisError("%s:%d step with an unsupported time step" % (func.qualname, ln))
            s.events.append(("step", fo.id, dtv, list(s.cons), ln, self.snapshot(s), len(fo.steps), fo.copy_of, fo.caller))
            fo.steps.append(dtv)
            fo.time = fo.time + adv
            return [(s, None)]
        if name == "_check_end":
            b = CBool(s.fresh("checkend"))
            s.events.append(("check_end", b.name, ln, self.snapshot(s), args[0] if args else None))
            return [(s, b)]
        if name == "_parse_monitors":
            s.events.append(("monitors", ln, self.snapshot(s), args[0] if args else None))
            return [(s, None)]
        if name in self.SUMMARISED:
            s.events.append(("call", name, ln))
            return [(s, None)]
        # inline
        if f.opaque_decorators:
            raise AnalysisError("%s is decorated with @%s: not modelled" % (f.qualname, ", @".join(f.opaque_decorators)))
        self.inline_depth += 1
        if self.inline_depth > 6:
            raise AnalysisError("inlining too deep")
        try:
            params = f.params
            defaults = f.defaults()
            saved_env = s.env
            if f.is_static:
                env = {}
                params = ["<static>"] + list(params)
            else:
                env = {params[0]: recv if recv is not None else SelfRef()}
            for pn, a in zip(params[1:], args):
                env[pn] = a
            for pn in params[1 + len(args):]:
                if pn in kw:
                    env[pn] = kw[pn]
                elif pn in defaults:
                    vs = self.evalf(defaults[pn], s, f)
                    env[pn] = vs[0][1]
                else:
                    raise AnalysisError("missing argument %s calling %s" % (pn, f.qualname))
            s.env = env
            outs = self.block(f.node.body, [s], f)
            res = []
            for o in outs:
                rv = o.retval if o.done == "return" else None
                if o.done in ("raise", "loophead"):
                    res.append((o, None))
                    continue
                o.done, o.retval = None, None
                o.env = self._restore_env(o, saved_env, s)
                res.append((o, rv))
            return res
        finally:
            self.inline_depth -= 1

    def _restore_env(self, o, saved_env, orig_state):
        # the callee ran on (possibly forked) state o; the caller's locals are the objects of
        # o's heap with the same ids -- rebuild by id for FieldObj/ListObj values
        def remap(v):
            if isinstance(v, FieldObj):
                return o.heap.get(v.id, v)
            if isinstance(v, ListObj):
                for h in o.heap.values():
                    if isinstance(h, ListObj) and h.name == v.name:
                        return h
                return v
            if isinstance(v, list):
                return [remap(x) for x in v]
            return v
        return {k: remap(v) for k, v in saved_env.items()}


def _effect_free(stmts):
    """statements that only print / pass"""
    for st in stmts:
        if isinstance(st, ast.Pass):
            continue
        if isinstance(st, ast.Expr) and isinstance(st.value, ast.Call):
            f = st.value.func
            if isinstance(f, ast.Name) and f.id == "print":
                continue
        return False
    return True


def _flush_loop(st, state):
    """a loop that only stores into elements of an untracked local container (the optional data
    dump): no effect on the tracked state"""
    # names the loop itself binds, when it iterates over untracked locals (zip(rows_per_variable, self.Qn.data)): an element of
    # an untracked container is untracked
    targets = set()
    if isinstance(st, ast.For):
        src_ok = True
        for n in ast.walk(st.iter):
            if isinstance(n, ast.Name) and isinstance(n.ctx, ast.Load) and n.id in state.env:
                v = state.env[n.id]
                if isinstance(v, FieldObj) or (isinstance(v, ListObj) and v.name == "results"):
                    src_ok = False
        if src_ok:
            targets = {n.id for n in ast.walk(st.target) if isinstance(n, ast.Name)}
    for n in ast.walk(st):
        if isinstance(n, (ast.Assign, ast.AugAssign)):
            ts = n.targets if isinstance(n, ast.Assign) else [n.target]
            for t in ts:
                base = t
                depth = 0
                while isinstance(base, ast.Subscript):
                    base = base.value
                    depth += 1
                if not (isinstance(base, ast.Name) and depth >= 1):
                    return False
                v = state.env.get(base.id)
                if isinstance(v, FieldObj) or (isinstance(v, ListObj) and v.name == "results") or v is None:
                    return False
        if isinstance(n, ast.Call) and isinstance(n.func, ast.Attribute) and n.func.attr in ("step", "append", "add_res", "set", "copy", "extend"):
            # appending to an untracked local list (the data dump built element by element) is no effect on the tracked state
            r = n.func.value
            if n.func.attr in ("append", "extend") and isinstance(r, ast.Name) and (isinstance(state.env.get(r.id), (list, Opq)) or (isinstance(state.env.get(r.id), ListObj) and state.env.get(r.id).name != "results")):
                continue
            if n.func.attr in ("append", "extend") and isinstance(r, ast.Name) and r.id in targets and r.id not in state.env:
                continue
            return False
        if isinstance(n, ast.Attribute) and isinstance(n.ctx, ast.Store):
            return False
    return True
