"""Exact Runge-Kutta theory on tableaux extracted by AFF: order conditions (rooted trees up
to order 4), SSP (Shu-Osher / Kraaijevanger at r = 1), stability polynomial."""
from fractions import Fraction

from .affine import NEQ, run_step
from .project import AnalysisError

# nominal orders (the oracle of the statement); a class not listed is UNCLASSIFIED
NOMINAL_ORDER = {"explicit": 1, "forwardeuler": 1, "rk2": 2, "rk2_heun": 2, "rk3_heun": 3, "rk3ssp": 3,
                 "rk4": 4, "lsrk25bb": 2, "lsrk26bb": 2, "lsrk4": 2}
SSP_CLASSES = ("rk3ssp", "rk2_heun")
ABSTRACT = ("timemodel", "rkmodel", "LSrkmodelHH", "implicitmodel", "_coreiterative")
# published stability polynomials  1 + sum gamma_k z^k
TAYLOR4 = [Fraction(1), Fraction(1, 2), Fraction(1, 6), Fraction(1, 24)]
# Bogey & Bailly, JCP 194 (2004), table of optimised coefficients (12 printed digits)
BOGEY_BAILLY = {
    "lsrk25bb": ["1", "0.5", "0.165250353664", "0.039372585984", "0.007149096448"],
    "lsrk26bb": ["1", "0.5", "0.165919771368", "0.040919732041", "0.007555704391", "0.000891421261"],
}
LSRK_RTOL = Fraction(2, 10 ** 9)


def problem_kind(rule, text):
    """which clause a problem found while extracting the tableau is about: 'time' (stage / final
    times), 'local' (which reduction of a local-time-step array multiplies the residual), 'stale'
    (right-hand-side arrays kept by reference), 'update' (structure of the step itself)"""
    if rule == "AFF-TIME":
        return "time"
    if "kept by reference" in text:
        return "stale"
    if "reduced time step" in text or "not advanced with the step argument" in text:
        return "local"
    return "update"


class Tableau:
    def __init__(self):
        self.A = []      # rows (list of Fractions, length s)
        self.b = []
        self.c_time = []   # abscissa presented to each stage (from the field time)
        self.adv = None    # final time advance
        self.problems = []   # (rule, text)


def extract(out, clsname):
    """realised tableau of one explicit step from the AFF trace"""
    T = Tableau()
    K = out["K"]
    k0 = out["k0"]
    s = len(K)
    if s == 0:
        T.problems.append(("AFF-UPDATE", "step never evaluates the right-hand side"))
        return T
    one = {0: Fraction(1)}
    for j, (tS, data, loc) in enumerate(K):
        rows = []
        for q in range(NEQ):
            row = [Fraction(0)] * s
            form = data[q].form
            for bsym, poly in form.items():
                if bsym == ("Q0", q):
                    if poly != one:
                        T.problems.append(("AFF-UPDATE", "stage %d is evaluated at %s*Q0 instead of Q0" % (j, poly)))
                elif bsym[0] == "K" and bsym[2] == q and k0 <= bsym[1] < k0 + s:
                    if set(poly) != {1}:
                        T.problems.append(("AFF-UPDATE", "stage %d state depends on K%d with a factor not linear in dt: %s" % (j, bsym[1] - k0, poly)))
                    else:
                        row[bsym[1] - k0] = poly[1]
                else:
                    T.problems.append(("AFF-UPDATE", ("stage %d state of equation %d uses a right-hand-side array that was kept by reference across a later right-hand-side evaluation (a provider that re-uses its output buffers has overwritten it): stage slopes must be copied" % (j, q)) if bsym[0] == "STALE" else ("stage %d state of equation %d contains foreign term %s" % (j, q, bsym))))
            if ("Q0", q) not in form:
                T.problems.append(("AFF-UPDATE", "stage %d state of equation %d lost the initial state" % (j, q)))
            if "arr" not in data[q].kinds and any(row):
                T.problems.append(("AFF-UPDATE", "stage %d state is not advanced with the step argument itself (provenance %s)" % (j, sorted(data[q].kinds))))
            if "min" in data[q].kinds or "max" in data[q].kinds:
                T.problems.append(("AFF-UPDATE", "stage %d state uses a reduced time step %s (breaks local time stepping)" % (j, sorted(data[q].kinds))))
            rows.append(row)
        if any(r != rows[0] for r in rows):
            T.problems.append(("AFF-UPDATE", "stage %d: equations are advanced with different coefficients %s" % (j, rows)))
        if any(rows[0][k] != 0 for k in range(j, s)):
            T.problems.append(("AFF-UPDATE", "stage %d depends on a later stage (not explicit)" % j))
        T.A.append(rows[0])
        # time presented to the stage
        if set(tS.poly) - {1}:
            T.problems.append(("AFF-TIME", "stage %d time is not linear in dt: %r" % (j, tS)))
            T.c_time.append(None)
        else:
            T.c_time.append(tS.poly.get(1, Fraction(0)))
            if tS.poly and tS.kinds != frozenset({"min"}):
                T.problems.append(("AFF-TIME", "stage %d time uses %s of the time-step argument instead of its minimum" % (j, sorted(tS.kinds) or "the raw value")))
    f = out["field"]
    bs = []
    for q in range(NEQ):
        b = [Fraction(0)] * s
        form = f.data[q].form
        for bsym, poly in form.items():
            if bsym == ("Q0", q):
                if poly != one:
                    T.problems.append(("AFF-UPDATE", "final state contains %s*Q0" % poly))
            elif bsym[0] == "K" and bsym[2] == q and k0 <= bsym[1] < k0 + s:
                if set(poly) != {1}:
                    T.problems.append(("AFF-UPDATE", "final update by K%d not linear in dt: %s" % (bsym[1] - k0, poly)))
                else:
                    b[bsym[1] - k0] = poly[1]
            else:
                T.problems.append(("AFF-UPDATE", ("final state of equation %d uses a right-hand-side array that was kept by reference across a later right-hand-side evaluation (a provider that re-uses its output buffers has overwritten it): stage slopes must be copied" % q) if bsym[0] == "STALE" else ("final state of equation %d contains foreign term %s" % (q, bsym))))
        if ("Q0", q) not in form:
            T.problems.append(("AFF-UPDATE", "final state of equation %d lost the initial state" % q))
        if "min" in f.data[q].kinds or "max" in f.data[q].kinds:
            T.problems.append(("AFF-UPDATE", "final update uses a reduced time step %s" % sorted(f.data[q].kinds)))
        bs.append(b)
    if any(b != bs[0] for b in bs):
        T.problems.append(("AFF-UPDATE", "equations receive different weights %s" % bs))
    T.b = bs[0]
    adv = f.time.s
    T.adv = adv
    return T


def dot(u, v):
    return sum((x * y for x, y in zip(u, v)), Fraction(0))


def matvec(A, v):
    return [dot(r, v) for r in A]


def order_conditions(A, b, order):
    """[(name, lhs, rhs)] for all rooted trees up to `order`"""
    s = len(b)
    e = [Fraction(1)] * s
    c = matvec(A, e)
    c2 = [x * x for x in c]
    c3 = [x * x * x for x in c]
    Ac = matvec(A, c)
    out = [("sum b = 1", dot(b, e), Fraction(1))]
    if order >= 2:
        out.append(("sum b c = 1/2", dot(b, c), Fraction(1, 2)))
    if order >= 3:
        out.append(("sum b c^2 = 1/3", dot(b, c2), Fraction(1, 3)))
        out.append(("sum b A c = 1/6", dot(b, Ac), Fraction(1, 6)))
    if order >= 4:
        out.append(("sum b c^3 = 1/4", dot(b, c3), Fraction(1, 4)))
        out.append(("sum b c (A c) = 1/8", dot(b, [x * y for x, y in zip(c, Ac)]), Fraction(1, 8)))
        out.append(("sum b A c^2 = 1/12", dot(b, matvec(A, c2)), Fraction(1, 12)))
        out.append(("sum b A A c = 1/24", dot(b, matvec(A, Ac)), Fraction(1, 24)))
    return out


def stability_poly(A, b):
    """gamma_k = b^T A^(k-1) e, k = 1..s"""
    s = len(b)
    v = [Fraction(1)] * s
    out = []
    for k in range(s):
        out.append(dot(b, v))
        v = matvec(A, v)
    return out


def inverse(M):
    n = len(M)
    a = [list(r) + [Fraction(int(i == j)) for j in range(n)] for i, r in enumerate(M)]
    for i in range(n):
        p = next((r for r in range(i, n) if a[r][i] != 0), None)
        if p is None:
            raise AnalysisError("singular matrix in SSP analysis")
        a[i], a[p] = a[p], a[i]
        piv = a[i][i]
        a[i] = [x / piv for x in a[i]]
        for r in range(n):
            if r != i and a[r][i] != 0:
                f = a[r][i]
                a[r] = [x - f * y for x, y in zip(a[r], a[i])]
    return [r[n:] for r in a]


def ssp_r1(A, b):
    """Kraaijevanger: with K = [[A,0],[b,0]], radius of absolute monotonicity >= 1 iff
    (I+K)^-1 K >= 0 and (I+K)^-1 e >= 0 entrywise.  Returns list of negative entries."""
    s = len(b)
    K = [list(r) + [Fraction(0)] for r in A] + [list(b) + [Fraction(0)]]
    n = s + 1
    IK = [[K[i][j] + (1 if i == j else 0) for j in range(n)] for i in range(n)]
    inv = inverse(IK)
    P = [[dot(inv[i], [K[k][j] for k in range(n)]) for j in range(n)] for i in range(n)]
    v = [sum(inv[i], Fraction(0)) for i in range(n)]
    bad = []
    for i in range(n):
        for j in range(n):
            if P[i][j] < 0:
                bad.append("alpha[%d][%d] = %s" % (i, j, P[i][j]))
        if v[i] < 0:
            bad.append("row %d: 1 - sum alpha = %s" % (i, v[i]))
    return bad


def achieved_order(A, b, maxorder=4):
    """largest p <= maxorder such that all order conditions up to p hold exactly (0: not even consistent)"""
    p = 0
    for o in range(1, maxorder + 1):
        if all(lhs == rhs for cn, lhs, rhs in order_conditions(A, b, o)):
            p = o
        else:
            break
    return p
