"""Helper functions as expressions.

`as_expression(proj, f, args, self_expr)` gives the expression a call f(args) denotes when EVERY path through f returns the same
expression of the arguments: straight-line single assignments of locals are substituted, side-effect-free `if` guards are
walked both ways, calls of module-level functions / methods of the same object that are themselves such expressions are
replaced by theirs (memoising decorators of pure scalar functions are transparent, see FuncInfo.opaque_decorators).  A helper
with a type-dispatched fast path (`if type(it) is int: return _is_multiple(it, f)`; `return it % f == 0`) is the expression
`it % f == 0`.  None: not of that form (the caller falls back to whatever it did before)."""
import ast
import copy

PURE_CALLS = ("type", "isinstance", "len", "int", "float", "bool", "abs", "callable", "hasattr")


class _Sub(ast.NodeTransformer):
    def __init__(self, m):
        self.m = m

    def visit_Name(self, n):
        if isinstance(n.ctx, ast.Load) and n.id in self.m:
            return copy.deepcopy(self.m[n.id])
        return n


def _subst(e, m):
    return ast.fix_missing_locations(_Sub(m).visit(copy.deepcopy(e)))


def _pure_test(t):
    for n in ast.walk(t):
        if isinstance(n, ast.Call) and not (isinstance(n.func, ast.Name) and n.func.id in PURE_CALLS):
            return False
        if isinstance(n, (ast.NamedExpr, ast.Await, ast.Yield, ast.YieldFrom, ast.Lambda)):
            return False
    return True


def as_expression(proj, f, args, self_expr=None, cls=None, depth=0):
    if depth > 4 or f.opaque_decorators:
        return None
    params = list(f.params)
    env = {}
    if f.has_self:
        if self_expr is None:
            return None
        env[params[0]] = self_expr
        params = params[1:]
    if len(args) != len(params):
        dfl = f.defaults()
        for p in params[len(args):]:
            if p not in dfl:
                return None
            env[p] = dfl[p]
        params = params[:len(args)]
    for p, a in zip(params, args):
        env[p] = a
    rets = []

    def inline_calls(e):
        class _I(ast.NodeTransformer):
            def visit_Call(self, n):
                self.generic_visit(n)
                if n.keywords:
                    return n
                g = None
                se = None
                if isinstance(n.func, ast.Name):
                    g = proj.resolve_function_name(n.func.id, f.module)
                elif isinstance(n.func, ast.Attribute) and self_expr is not None and ast.dump(n.func.value) == ast.dump(self_expr) and cls is not None:
                    g = proj.resolve(cls, n.func.attr)
                    se = self_expr
                if g is not None:
                    r = as_expression(proj, g, list(n.args), se, cls, depth + 1)
                    if r is not None:
                        return r
                return n
        return ast.fix_missing_locations(_I().visit(copy.deepcopy(e)))

    def walk(stmts, env):
        """-> env at the end of the block, or None when every path returned; raises ValueError when not of the form"""
        for i, st in enumerate(stmts):
            if isinstance(st, ast.Expr) and isinstance(st.value, ast.Constant):
                continue
            if isinstance(st, ast.Pass):
                continue
            if isinstance(st, ast.Assign) and len(st.targets) == 1 and isinstance(st.targets[0], ast.Name):
                env = dict(env)
                env[st.targets[0].id] = _subst(st.value, env)
                continue
            if isinstance(st, ast.Return):
                if st.value is None:
                    raise ValueError
                rets.append(inline_calls(_subst(st.value, env)))
                return None
            if isinstance(st, ast.If):
                if not _pure_test(st.test):
                    raise ValueError
                e1 = walk(st.body, env)
                e2 = walk(st.orelse, env)
                if e1 is None and e2 is None:
                    return None
                live = [e for e in (e1, e2) if e is not None]
                if len(live) == 2 and {k: ast.dump(v) for k, v in e1.items()} != {k: ast.dump(v) for k, v in e2.items()}:
                    raise ValueError
                env = live[0]
                continue
            if isinstance(st, ast.Raise):
                return None
            raise ValueError
        return env
    try:
        end = walk(f.node.body, env)
    except (ValueError, RecursionError):
        return None
    if end is not None or not rets:
        return None             # a path falls off the end (returns None)
    d0 = ast.dump(rets[0])
    if any(ast.dump(r) != d0 for r in rets[1:]):
        return None
    return rets[0]
