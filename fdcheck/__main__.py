"""entry point:  python -m fdcheck <PROPERTY-ID> --tier quick|thorough [--root DIR]
                 python -m fdcheck --selfcheck | --selftest [IDs] | --all"""
import argparse
import importlib
import os
import sys

from .core import run_property
from .project import REPO

ALL = ["C01", "C02", "C03", "C04", "C05", "C06", "C07", "C08", "C10", "C11", "C12", "C13",
       "C14", "C15", "C16", "C17", "C18", "C19", "C20"]


def load(pid):
    try:
        return importlib.import_module("fdcheck.props.%s" % pid.lower())
    except ModuleNotFoundError as e:
        if ("props.%s" % pid.lower()) in str(e):
            return None
        raise


def main(argv=None):
    ap = argparse.ArgumentParser(prog="fdcheck")
    ap.add_argument("pid", nargs="?")
    ap.add_argument("--tier", default=os.environ.get("VERIF_TIER", "quick"), choices=["quick", "thorough"])
    ap.add_argument("--root", default=None, help="analyse this tree instead of /repo (development / self-test only)")
    ap.add_argument("--selfcheck", action="store_true")
    ap.add_argument("--selftest", nargs="*", default=None)
    ap.add_argument("--all", action="store_true")
    ap.add_argument("--jobs", type=int, default=16)
    a = ap.parse_args(argv)
    try:
        seed = int(os.environ.get("VERIF_SEED", "0"))
    except ValueError:
        seed = 0
    if a.selfcheck:
        from . import selfcheck
        return selfcheck.main()
    if a.selftest is not None:
        from . import selftest
        return selftest.main(a.selftest, jobs=a.jobs)
    if a.all:
        worst = 0
        for pid in ALL:
            m = load(pid)
            if m is None:
                continue
            rc = run_property(pid, m.body, a.tier, seed, a.root)
            worst = max(worst, rc)
        return worst
    if not a.pid:
        ap.error("property id required")
    pid = a.pid.upper()
    m = load(pid)
    if m is None:
        print("ANALYSIS-ERROR no check module for %s" % pid)
        return 2
    rc = run_property(pid, m.body, a.tier, seed, a.root)
    if a.tier == "thorough" and hasattr(m, "thorough_extra"):
        pass
    return rc


if __name__ == "__main__":
    sys.exit(main())
